#!/usr/bin/env python3
"""Validates MANIFEST.json and evidence files against the schemas (uses the tooling venv's jsonschema if present)."""
import json, sys, glob
try:
    import jsonschema
except ImportError:
    sys.path.insert(0, glob.glob('/opt/veriftools/pyvenv/lib/python3*/site-packages')[0])
    import jsonschema
ok = True
def check(path, schema):
    global ok
    try:
        jsonschema.validate(json.load(open(path)), json.load(open(schema)))
        print("ok  ", path)
    except Exception as e:
        ok = False
        print("FAIL", path, str(e)[:300])
check('/verif/MANIFEST.json', '/root/.vp/MANIFEST.schema.json')
for p in sorted(glob.glob('/verif/evidence/*.json')):
    check(p, '/root/.vp/EVIDENCE.schema.json')
sys.exit(0 if ok else 1)
