#!/usr/bin/env python3
"""Mechanical sensitivity sweep: apply one small syntactic mutation at a time to /repo's working
tree, run the quick checks of the properties anchored in the mutated file, and record whether a
check reports a VIOLATION ("killed"), all stay green ("survived") or the tree does not build.
/repo is restored (git checkout) after every mutant. Survivors are *candidates* for generator gaps;
each one has to be read by a human: many are equivalent mutants or lie outside every property.

usage: mutate.py <crate-relative-file> <parts comma separated> [--max N] [--seed S] [--only-line L] [--redo] [--family ops|err|del]
       a part is ENGINE:ID, e.g. pcheck:C14,pcheck:C11,echeck:C17 (dev profile; the engines are the
       same binaries ./check runs, their evidence goes to /verif/mutate/tmp so that the committed
       evidence is not touched); results are appended to /verif/mutate/results.jsonl
"""
import json, os, random, re, subprocess, sys, time

REPO = "/repo"
OUT = "/verif/mutate/results.jsonl"

OPS = [
    (r" <= ", " < "), (r" < ", " <= "), (r" >= ", " > "), (r" > ", " >= "),
    (r" == ", " != "), (r" != ", " == "),
    (r" && ", " || "), (r" \|\| ", " && "),
    (r" \+ 1\b", " + 2"), (r" - 1\b", " - 0"), (r" \+ ", " - "),
    (r"\btrue\b", "false"), (r"\bfalse\b", "true"),
    (r"\.is_some\(\)", ".is_none()"), (r"\.is_none\(\)", ".is_some()"),
    (r"\.is_empty\(\)", ".len() == 1"),
    (r"\bsaturating_sub\b", "wrapping_sub"), (r"\bchecked_sub\b", "checked_add"),
    (r"<< 2\b", "<< 1"), (r">> 2\b", ">> 1"), (r"<< 6\b", "<< 7"),
    (r"\b0x3f\b", "0x7f"), (r"\b0x3F\b", "0x7F"), (r"\b63\b", "64"), (r"\b16383\b", "16384"), (r"\b4096\b", "4097"), (r"\b1024\b", "1023"),
]


ERR_VARIANTS = ["Frame", "FrameUnexpected", "ClosedCriticalStream", "StreamCreation", "MissingSettings", "Settings", "Id", "ExcessiveLoad", "Message", "RequestRejected", "BufferedStreamRejected", "Datagram", "Decompression", "NoError"]


def candidates(path, family="ops"):
    src = open(path).read().split("\n")
    out = []
    in_tests = False
    present = sorted(set(re.findall(r"ErrorCode::(\w+)", "\n".join(src))))
    for i, line in enumerate(src):
        s = line.strip()
        if s.startswith("#[cfg(test)]"):
            in_tests = True
        if in_tests:
            continue
        if not s or s.startswith("//") or s.startswith("#[") or s.startswith("use ") or "debug!" in s or "trace!" in s or "assert" in s:
            continue
        if s.startswith("pub const") or s.startswith("const "):
            # registry constants are covered by C16's comparison with the independent registry
            continue
        code = line.split("//")[0]
        if family == "err":
            # an error code replaced by another variant used in the same file (same type: compiles)
            for m in re.finditer(r"ErrorCode::(\w+)", code):
                v = m.group(1)
                if v not in ERR_VARIANTS:
                    continue
                others = [o for o in present if o != v and o in ERR_VARIANTS] or [o for o in ERR_VARIANTS if o != v]
                o = others[(i + m.start()) % len(others)]
                new = code[:m.start()] + "ErrorCode::" + o + code[m.end():] + line[len(code):]
                out.append((i, 100, m.start(), line, new))
            continue
        if family == "del":
            # a statement that is only a call, deleted
            if re.match(r"^\s*[a-z_][\w\.]*(\(|\.)[^=]*;\s*$", code) and not s.startswith(("let ", "return", "break", "continue", "use ", "pub ", "}")) and "=" not in code.split("(")[0]:
                out.append((i, 200, 0, line, re.match(r"^\s*", line).group(0) + "// (statement deleted)"))
            continue
        for k, (pat, rep) in enumerate(OPS):
            for m in re.finditer(pat, code):
                # skip generics / lifetimes for the relational operators
                if pat in (r" < ", r" > ") and ("<" in code[m.end():m.end() + 1] or "->" in code[max(0, m.start() - 2):m.end()]):
                    continue
                new = code[:m.start()] + rep + code[m.end():] + line[len(code):]
                out.append((i, k, m.start(), line, new))
    return src, out


def sh(cmd, timeout):
    try:
        p = subprocess.run(cmd, shell=True, stdout=subprocess.PIPE, stderr=subprocess.STDOUT, timeout=timeout, text=True)
        return p.returncode, p.stdout
    except subprocess.TimeoutExpired as e:
        return 124, (e.stdout or "") if isinstance(e.stdout, str) else ""


def main():
    rel, ids = sys.argv[1], sys.argv[2].split(",")
    mx, seed, only, redo, family = 10, 1, None, False, "ops"
    a = sys.argv[3:]
    while a:
        if a[0] == "--max": mx = int(a[1]); a = a[2:]
        elif a[0] == "--seed": seed = int(a[1]); a = a[2:]
        elif a[0] == "--only-line": only = int(a[1]); a = a[2:]
        elif a[0] == "--redo": redo = True; a = a[1:]
        elif a[0] == "--family": family = a[1]; a = a[2:]
        else: a = a[1:]
    path = os.path.join(REPO, rel)
    if sh(f"git -C {REPO} status --short", 60)[1].strip():
        print("refusing: /repo has local changes"); sys.exit(2)
    src, cand = candidates(path, family)
    if only is not None:
        cand = [c for c in cand if c[0] + 1 == only]
    rnd = random.Random(seed)
    rnd.shuffle(cand)
    done = set()
    if os.path.exists(OUT) and not redo:
        for l in open(OUT):
            try:
                d = json.loads(l); done.add((d["file"], d["line"], d["op"], d["col"]))
            except Exception:
                pass
    n = 0
    for (i, k, col, old, new) in cand:
        if n >= mx:
            break
        key = (rel, i + 1, k, col)
        if key in done:
            continue
        n += 1
        mutated = list(src)
        mutated[i] = new
        open(path, "w").write("\n".join(mutated))
        rec = {"file": rel, "line": i + 1, "op": k, "col": col, "old": old.strip(), "new": new.strip(), "results": {}, "t": int(time.time())}
        verdict = "survived"
        try:
            engines = sorted(set(x.split(":")[0] for x in ids))
            pk = {"pcheck": "pchecks", "echeck": "echecks"}
            built = True
            for e in engines:
                rc, out = sh(f"cd /verif/harness && CARGO_NET_OFFLINE=true cargo build --offline -q -p {pk[e]}", 1500)
                if rc != 0:
                    built = False
            if not built:
                rec["results"]["build"] = "failed"; verdict = "no-build"
            else:
                os.makedirs("/verif/mutate/tmp", exist_ok=True)
                for part in ids:
                    e, pid = part.split(":")
                    rc, out = sh(f"cd /verif && timeout 900 harness/target/debug/{e} {pid} quick --profile-tag dev --evidence /verif/mutate/tmp/{pid}.{e}.json", 1000)
                    sigs = re.findall(r"signature=(\S+)", out)
                    if "VIOLATION" in out:
                        rec["results"][part] = {"killed_by": sorted(set(sigs))[:4]}; verdict = "killed"; break
                    rec["results"][part] = "green" if rc == 0 else f"rc={rc}"
                    if rc != 0:
                        verdict = "inconclusive"
        finally:
            sh(f"git -C {REPO} checkout -- .", 60)
        rec["verdict"] = verdict
        open(OUT, "a").write(json.dumps(rec) + "\n")
        print(f"{verdict:12s} {rel}:{i+1} [{old.strip()[:70]}] -> [{new.strip()[:70]}] {rec['results']}", flush=True)


if __name__ == "__main__":
    main()
