#!/usr/bin/env bash
# Builds the framework offline from files on disk (cold: a few minutes).
set -e
export CARGO_NET_OFFLINE=true
cd /verif/harness
cargo build --offline -p pchecks -p echecks
cargo build --offline --release -p pchecks
if [ -d /verif/fuzz ] && [ -x /verif/fuzz/build.sh ]; then /verif/fuzz/build.sh || echo "fuzz build failed (thorough fuzz tiers will be inconclusive)"; fi
