#!/usr/bin/env bash
# Builds the framework offline from files on disk (cold: ~4 min harness + ~5 min fuzz targets).
set -e
export CARGO_NET_OFFLINE=true
cd /verif/harness
cargo build --offline -p pchecks -p echecks
cargo build --offline --release -p pchecks
# libFuzzer targets are only needed by the thorough tiers of C11/C13/C14/C15; a failure here
# makes those fuzz parts inconclusive, nothing else
/verif/fuzz/build.sh || echo "fuzz build failed (thorough fuzz parts will be inconclusive)"
