#!/usr/bin/env python3
"""Generates /verif/MANIFEST.json from the table below (kept in one place so it always validates)."""
import json, subprocess

HOOK_COMMITS = ["87ef81a", "e38926a"]
FIX_COMMITS = ["5be8c90", "47e4ff7", "7177454", "0497b13", "b9b128e", "7b0b11e", "20cde3f", "58dba13", "6809fe1", "4e4e028", "7f68510", "8dc1ca1"]

# id -> (technique, level text, level note, design ref)
CLAIMED = {
 "C11": ("property-based testing (proptest) + exhaustive short-input enumeration + golden-mutation sweep + libFuzzer campaign (thorough), differential against an independent reference codec, in builds with and without overflow checks",
         "Exploration: every decoder is fed all byte strings up to length 2/3, all truncations and single-byte mutations of golden encodings, structured adversarial and random inputs; each result is compared with an independent reference codec (value / need-more / error), panics and hangs are captured, peak allocation is measured per call by a counting allocator. Absence of a counterexample in the explored inputs, not a proof.",
         "Trusts refcodec (own RFC transcription) and the httlib-huffman table; allocation bound 32*len+64KiB is the harness's reading of 'fixed bound'; QPACK integers with >10 continuation bytes may be rejected.", "DESIGN.md §5 C11"),
 "C12": ("exhaustive bounded enumeration of frame sequences + proptest random sequences against a rule table transcribed from RFC 9114 / WT draft (sans-IO), raw-peer histories against the running driver (end-to-end)",
         "Exploration with an exhaustive core: all frame sequences up to depth 4/5 over the 8-symbol alphabet on each typestate and decoding path are compared with the reference rule table; random longer sequences; (end-to-end half) generated histories of connection-level events against the real driver over loop-back QUIC.",
         "Trusts the rule table in pchecks/src/model.rs (sets of admissible codes where the RFCs overlap).", "DESIGN.md §5 C12"),
 "C13": ("metamorphic property-based testing (insert unknown/GREASE elements, compare known-element sequence), three decoding paths; raw-peer insertions against the running driver (end-to-end)",
         "Exploration: generated valid exchanges are decoded with and without generated insertions (GREASE / unknown frame types of every varint width, payloads that look like frames, unknown setting ids); the sequence of known elements and the final read position must be identical.",
         "Insertions are restricted to what the RFCs allow on the stream in question.", "DESIGN.md §5 C13"),
 "C14": ("round-trip property-based testing with exact-size and cross-implementation (reference codec) oracles; exhaustive integers below 2^24 (quick) / 2^30 (thorough), all payload lengths 0..4096; both build profiles; plus the wtransport-level datagram wrapper (size query / encoder / decoder) through the verif-hooks re-exports",
         "Exploration with exhaustive sub-domains: decode(encode(v)) == v, bytes consumed == bytes written == size query, shortest integer form (equality with the reference encoder), too-small destinations untouched, reference decodes implementation output and vice versa.",
         "Trusts refcodec and the httlib-huffman table.", "DESIGN.md §5 C14"),
 "C15": ("differential property-based testing between the library's one-shot, buffered and asynchronous decoders under generated chunk and Pending plans (scripted AsyncRead, manual executor); prefix and extension metamorphic relations",
         "Exploration: for generated valid/mutated/arbitrary inputs the three paths of Frame, StreamHeader and the four frame-reading typestates must give the same value or error class and consume the same bytes, for every prefix length and any chunk/Pending plan.",
         "The async source is scripted (no runtime); typestates are compared on two successive reads from a fresh state.", "DESIGN.md §5 C15"),
 "C17": ("property-based testing + enumeration of identifier boundaries against RFC 9000 bit definitions (pure, both build profiles); raw-peer foreign-session traffic against the running driver (end-to-end)",
         "Exploration: ids 0..4096, all varint-width boundaries in the four low-bit classes and random 62-bit ids through every conversion and wire decoder; foreign-session streams/datagrams interleaved with live traffic end to end.",
         "Trusts the RFC 9000 §2.1 predicates in refcodec.", "DESIGN.md §5 C17"),
 "C18": ("exhaustive enumeration of status texts 0..65535 x decorations and of the 5^5 pseudo-header state matrix + proptest for random texts, names, URLs (pure); raw client/server requests and responses against the running endpoint (end-to-end)",
         "Exploration with exhaustive cores: admission predicate of requests, range of StatusCode through every constructor, reserved-name protection, URL to authority/path mapping.",
         "URLs generated in WHATWG-normalised form; status forms the statement leaves open ('+', leading zeros) accepted either way but never out of range.", "DESIGN.md §5 C18"),
}


CLAIMED.update({
 "C01": ("stateful property-based testing over real loop-back QUIC connections: generated concurrent stream workloads (wtransport<->wtransport, raw peer -> wtransport with the preamble cut at every offset, wtransport -> raw recorder), identity oracle on bytes + end-of-stream",
         "Exploration: generated payload lengths/contents (incl. framing look-alikes), write/read plans, 1..12(24) concurrent streams, windows 1 KiB..default, three runtime flavours; exhaustive preamble-cut x role x kind x session-id-width table. Delivery is judged by bounded liveness (timeout must reproduce 4/4).",
         "Task interleavings are sampled, not enumerated; transport = quinn over loop-back UDP; receiver reads each stream in its own task.", "DESIGN.md §5 C01"),
 "C07": ("fault-injecting property-based testing with a raw QUIC peer: generated scripts of stalled streams (no byte / partial preamble / silent / unread) interleaved with healthy streams, datagrams and a final close; bounded-liveness oracle",
         "Exploration: healthy streams, datagrams and the exact close value must still arrive while k stalled streams exist, for generated orders, kinds, roles and runtime flavours; public-API variant with un-awaited opening futures.",
         "Bounded liveness (5 s bound vs ~10 ms typical; timeout must reproduce 4/4).", "DESIGN.md §5 C07"),
 "C08": ("model-based property-based testing: generated stream counts vs concurrency limit, accept tasks, poll-count cancellation of accept futures, sender pace, small windows; multiset oracle (opened == delivered exactly once, own bytes)",
         "Exploration: every cancellation point reachable by polling an accept future 0..4 times then dropping it, 1..4 accepting tasks per kind, N up to 6x the stream limit, wtransport and raw senders in both roles, foreign-session streams must not be delivered.",
         "Schedules are sampled (three runtime flavours, poll-count cancellation); delivery judged by bounded liveness.", "DESIGN.md §5 C08"),
 "C09": ("property-based testing of termination: generated cause x pending-operation set x handle clones x timing against a raw peer / UDP relay; admissible-error-set oracle; model-based op sequences over the hook-exposed shared_result / bichannel",
         "Exploration: for each generated cause every pending and later call must fail within the bound with an error naming the cause (exact code/reason) or a local close; dropped handles must close the connection at the peer; set-once / FIFO models for the driver's utility channels.",
         "Bounded liveness; admissible sets follow the statement (cause or library-initiated local close).", "DESIGN.md §5 C09"),
 "C10": ("exhaustive boundary table + property-based testing of the hash-pinning verifier with injected time against the four-way conjunction; enumerated end-to-end policy x identity matrix over real handshakes",
         "Exploration with an exhaustive core: 2 940 boundary cells (validity around 14 days to the second, now on each side of both ends, key algorithm, hash-set shape) + random cases + 80 real handshakes.",
         "Certificates generated with rcgen; x509 parsing by x509-parser inside the library.", "DESIGN.md §5 C10"),
 "C19": ("property-based testing with independent X.509 parsing (x509-parser) of generated identities, PEM store/load round trips through real files, digest format round trips (exhaustive per byte position), corrupt-input tables",
         "Exploration: SAN lists, builder validity paths, chains 0..5, every prefix/bit-flip of a certificate, every byte value at every digest position, malformed PEM/DER/digest text must be rejected without panic.",
         "Harness-side PEM codec and x509-parser are trusted.", "DESIGN.md §5 C19"),
 "C20": ("exhaustive configuration matrix (bind presets x builder paths x roles, TLS version/ALPN handshakes, idle-timeout boundaries) + property-based testing of transport settings + behavioural samples through a UDP relay",
         "Exploration with exhaustive cores: 407 bind cells checked by getsockname/getsockopt on the process's own fd, 60 in-memory TLS handshakes, 60 QUIC ALPN handshakes, 200 idle-timeout boundary cells, 300k generated transport configurations, behavioural idle/keep-alive/migration/reload cases.",
         "Linux forces IPV6_V6ONLY on sockets bound to a specific v6 address (asserted only for wildcard binds); timing bounds generous and re-executed before judged.", "DESIGN.md §5 C20"),
})

CLAIMED.update({
 "C02": ("property-based testing over real handshakes: generated normal-form URLs, header sets (QPACK static hits, Huffman/non-Huffman, prefix-boundary lengths) and server decisions; identity oracle on what the server application sees; differential variants with a raw server (generated statuses) and a raw client using the reference QPACK encoder under generated representation choices",
         "Exploration: authority/path/fields seen by the server equal the request exactly and nothing else; connect Ok iff 2xx, SessionRejected iff non-2xx; session ids agree with the CONNECT stream id.",
         "Generators respect RFC-valid names/values, the 4096-byte section cap and WHATWG URL normal form.", "DESIGN.md §5 C02"),
 "C03": ("property-based testing of datagrams: sub-multiset oracle on delivered payloads (wtransport and raw receivers), exact size-contract oracle against max_datagram_size() for generated peer limits (exhaustive 0..20), hook-level codec round trip for 1/2/4/8-byte quarter ids, relay loss/reorder",
         "Exploration with an exhaustive small-limit table; MTU discovery off so the maximum is stable within a case.",
         "quinn tears the connection down when its own receive buffer is smaller than datagram + bookkeeping; sends after that are not judged.", "DESIGN.md §5 C03"),
 "C04": ("property-based testing with a raw peer: generated termination style (capsule / FIN / QUIC close / reset / truncated DATA / malformed capsule) x code x reason x session phase; exact-value oracle on pending and later peer-waiting calls",
         "Exploration: every 32-bit capsule code class, UTF-8 reasons up to 1024 bytes incl. multi-byte scalars at the boundary, 62-bit QUIC codes, non-UTF-8 reasons; abrupt/malformed styles must not be reported as application close and must close with an HTTP/3 error code.",
         "The capsule is delivered in one piece (interleaving is C05's quantifier).", "DESIGN.md §5 C04"),
 "C06": ("property-based testing of stream signals across three peer pairings (wtransport<->wtransport, raw signals, raw observes the wire code), generated code (every varint width) x signal x phase; relay black-hole test for 'finish only once acknowledged'",
         "Exploration: reset(c) -> prefix then Reset(c); stop(c) -> write/finish/stopped report Stopped(c); finish -> all bytes then EOF; finish() must not return while all packets towards the peer are dropped.",
         "Bounded liveness for signal arrival.", "DESIGN.md §5 C06"),
 "C16": ("property-based conformance testing: everything the endpoint emits in generated scenarios is recorded by a raw peer and decoded by the independent reference codec (wire::validate)",
         "Exploration: control stream / SETTINGS content, request and response field sections (prefix, representations, pseudo-header rules), WT stream preambles, datagram prefixes, close code/reason, ALPN; both roles, session ids 0 and 256.",
         "Trusts refcodec and wire::validate.", "DESIGN.md §5 C16"),
})

CLAIMED.update({
 "C05": ("metamorphic property-based testing with a raw peer: the target control-plane frame is cut at generated / enumerated positions with generated events injected between the pieces; outcome compared with the uncut twin; hook counters label whether the hazard window was really opened",
         "Exploration: SETTINGS, GREASE, request/response HEADERS, close capsule and unknown capsule targets x cut positions x {datagram, foreign datagram, WT uni, GREASE uni, WT bidi, QPACK bytes} events, both roles, three runtime flavours; the cut table enumerates single cut positions (every position in the thorough tier).",
         "Segmentation is realised by write + wait-for-ack + settle delay; whether the pieces really arrived separately is measured by the hook counters and used for labelling only.", "DESIGN.md §5 C05"),
})

E2E_PENDING = {
 "C12": "end-to-end half pending", "C13": "end-to-end half pending", "C17": "end-to-end half pending", "C18": "end-to-end half pending",
}

NOT_YET = {
}

ALL = ["C%02d" % i for i in range(1, 21)]

def main():
    checks = []
    for pid in ALL:
        if pid not in CLAIMED:
            continue
        tech, text, note, ref = CLAIMED[pid]
        checks.append({
            "property_id": pid,
            "quick_cmd": f"./check {pid} quick",
            "thorough_cmd": f"./check {pid} thorough",
            "evidence_file": f"/verif/evidence/{pid}.json",
            "replay_cmd_template": f"./check {pid} --replay {{path}}",
            "engine": "harness",
            "level_claimed": {"category": "exploration", "text": text, "design_ref": ref},
            "level_note": note,
            "technique": tech,
        })
    na = [{"property_id": p, "reason": NOT_YET.get(p, "check not built yet in this session; design in DESIGN.md §5 (property-based / raw-peer check planned, technique applies)")}
          for p in ALL if p not in CLAIMED]
    m = {
        "version": 1,
        "setup_cmd": "./setup.sh",
        "hooks": {
            "guard": "verif-hooks (cargo feature of wtransport and wtransport-proto, default off)",
            "enable": "harness crates depend on /repo/wtransport and /repo/wtransport-proto by path with features = [\"verif-hooks\", ...]",
            "baseline_off_cmd": "cd /repo && cargo test --workspace --no-fail-fast --offline",
            "source_commits": HOOK_COMMITS,
            "add_only": True,
        },
        "engines": [
            {"name": "harness", "path": "/verif/harness", "serves_properties": sorted(CLAIMED.keys()),
             "kind_free_text": "cargo workspace: vcore (proptest runner glue, seeds, shrinking, replay, evidence, known findings), refcodec (independent reference codec), pchecks (proto-level checks, built dev+release), wire + echecks (raw quinn peer, UDP relay, end-to-end checks)"},
            {"name": "fuzz", "path": "/verif/fuzz", "serves_properties": ["C11", "C13", "C14", "C15"],
             "kind_free_text": "cargo-fuzz / libFuzzer targets reusing the pchecks oracles (thorough tier)"},
        ],
        "checks": checks,
        "not_applicable": na,
        "notes": "Driver: ./check <ID> <quick|thorough> [--replay FILE]; exit 0 held / 1 VIOLATION / 2 inconclusive. Known findings: /verif/known_findings.txt. Regression inputs: /verif/regress/<ID>/ (replayed first on every run). VERIF_SEED selects the PRNG streams.",
    }
    json.dump(m, open("/verif/MANIFEST.json", "w"), indent=1)

main()
