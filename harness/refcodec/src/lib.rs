//! Independent reference codec written from the specifications (RFC 9000 §16, RFC 9114,
//! RFC 9204, RFC 9297, draft-ietf-webtrans-http3). Shares no code with /repo.
//! The only third-party piece is the Huffman code table (httlib-huffman).

pub mod qpack;
pub mod registry;

/// Result of decoding from a possibly incomplete buffer.
#[derive(Debug, Clone, PartialEq, Eq)]
pub enum Dec<T> {
    /// Value and number of bytes consumed.
    Value(T, usize),
    /// The buffer is a proper prefix of an encoding.
    NeedMore,
}

pub const VARINT_MAX: u64 = (1u64 << 62) - 1;

/// Number of bytes of the shortest QUIC varint encoding (RFC 9000 §16).
pub fn varint_len(v: u64) -> usize {
    assert!(v <= VARINT_MAX);
    if v < (1 << 6) {
        1
    } else if v < (1 << 14) {
        2
    } else if v < (1 << 30) {
        4
    } else {
        8
    }
}

/// Shortest-form encoding.
pub fn enc_varint(v: u64) -> Vec<u8> {
    enc_varint_width(v, varint_len(v))
}

/// Encoding with a chosen width (1, 2, 4, 8); the width must be able to hold the value.
pub fn enc_varint_width(v: u64, width: usize) -> Vec<u8> {
    let (tag, bits) = match width {
        1 => (0u8, 6),
        2 => (1u8, 14),
        4 => (2u8, 30),
        8 => (3u8, 62),
        _ => panic!("bad width"),
    };
    assert!(bits == 62 && v <= VARINT_MAX || v < (1u64 << bits));
    let mut out = vec![0u8; width];
    for i in 0..width {
        out[width - 1 - i] = ((v >> (8 * i)) & 0xff) as u8;
    }
    out[0] |= tag << 6;
    out
}

pub fn put_varint(out: &mut Vec<u8>, v: u64) {
    out.extend_from_slice(&enc_varint(v));
}

/// Strict decoder: big-endian, two most significant bits give the length.
pub fn dec_varint(buf: &[u8]) -> Dec<u64> {
    let Some(&first) = buf.first() else {
        return Dec::NeedMore;
    };
    let len = 1usize << (first >> 6);
    if buf.len() < len {
        return Dec::NeedMore;
    }
    let mut v = (first & 0x3f) as u64;
    for b in &buf[1..len] {
        v = (v << 8) | *b as u64;
    }
    Dec::Value(v, len)
}

/// GREASE / reserved predicate shared by frame types, stream types and setting ids:
/// `0x1f * N + 0x21`.
pub fn is_grease(v: u64) -> bool {
    v >= 0x21 && (v - 0x21) % 0x1f == 0
}

/// The n-th GREASE value.
pub fn grease(n: u64) -> u64 {
    0x1f * n + 0x21
}

/// A session id is the id of a client-initiated bidirectional stream (RFC 9000 §2.1:
/// bit 0 = initiator (0 client), bit 1 = directionality (0 bidirectional)).
pub fn is_valid_session_id(id: u64) -> bool {
    id <= VARINT_MAX && id & 0x3 == 0
}

pub fn stream_is_bidi(id: u64) -> bool {
    id & 0x2 == 0
}
pub fn stream_is_client_initiated(id: u64) -> bool {
    id & 0x1 == 0
}

/// An element on an HTTP/3 stream as this WebTransport profile sees it.
#[derive(Debug, Clone, PartialEq, Eq)]
pub enum Elem {
    /// type, payload
    Frame(u64, Vec<u8>),
    /// WT_STREAM signal 0x41 followed by a session id (no length field).
    WtSignal(u64),
}

impl Elem {
    pub fn encode(&self) -> Vec<u8> {
        match self {
            Elem::Frame(ty, payload) => enc_frame(*ty, payload),
            Elem::WtSignal(id) => {
                let mut out = enc_varint(registry::FRAME_WT_STREAM);
                put_varint(&mut out, *id);
                out
            }
        }
    }
}

pub fn enc_frame(ty: u64, payload: &[u8]) -> Vec<u8> {
    let mut out = enc_varint(ty);
    put_varint(&mut out, payload.len() as u64);
    out.extend_from_slice(payload);
    out
}

/// Frame header with an arbitrary declared length (for oversize / truncated frames).
pub fn enc_frame_header(ty: u64, declared_len: u64) -> Vec<u8> {
    let mut out = enc_varint(ty);
    put_varint(&mut out, declared_len);
    out
}

#[derive(Debug, Clone, PartialEq, Eq)]
pub enum ElemDec {
    NeedMore,
    /// Frame header seen; `len` declared; payload present iff whole.
    Frame {
        ty: u64,
        len: u64,
        /// Some(payload) when all `len` bytes are in the buffer.
        payload: Option<Vec<u8>>,
        header_len: usize,
    },
    WtSignal {
        id: u64,
        consumed: usize,
    },
}

/// Decodes the next element. For frames, reports the header even when the payload is
/// incomplete (so that callers can apply a payload cap before the payload arrives).
pub fn dec_elem(buf: &[u8]) -> ElemDec {
    let (ty, n1) = match dec_varint(buf) {
        Dec::Value(v, n) => (v, n),
        Dec::NeedMore => return ElemDec::NeedMore,
    };
    if ty == registry::FRAME_WT_STREAM {
        return match dec_varint(&buf[n1..]) {
            Dec::Value(id, n2) => ElemDec::WtSignal {
                id,
                consumed: n1 + n2,
            },
            Dec::NeedMore => ElemDec::NeedMore,
        };
    }
    let (len, n2) = match dec_varint(&buf[n1..]) {
        Dec::Value(v, n) => (v, n),
        Dec::NeedMore => return ElemDec::NeedMore,
    };
    let header_len = n1 + n2;
    let rest = &buf[header_len..];
    let payload = if (rest.len() as u64) >= len {
        Some(rest[..len as usize].to_vec())
    } else {
        None
    };
    ElemDec::Frame {
        ty,
        len,
        payload,
        header_len,
    }
}

/// SETTINGS payload: sequence of (id, value) varint pairs. `Err` = malformed (truncated pair).
pub fn dec_settings(payload: &[u8]) -> Result<Vec<(u64, u64)>, ()> {
    let mut out = Vec::new();
    let mut off = 0;
    while off < payload.len() {
        let Dec::Value(id, n1) = dec_varint(&payload[off..]) else {
            return Err(());
        };
        off += n1;
        let Dec::Value(v, n2) = dec_varint(&payload[off..]) else {
            return Err(());
        };
        off += n2;
        out.push((id, v));
    }
    Ok(out)
}

pub fn enc_settings(pairs: &[(u64, u64)]) -> Vec<u8> {
    let mut out = Vec::new();
    for (id, v) in pairs {
        put_varint(&mut out, *id);
        put_varint(&mut out, *v);
    }
    out
}

/// Setting identifiers reserved from HTTP/2 (RFC 9114 §7.2.4.1): receipt is H3_SETTINGS_ERROR.
pub fn is_reserved_setting(id: u64) -> bool {
    matches!(id, 0x00 | 0x02 | 0x03 | 0x04 | 0x05)
}

/// Unidirectional stream header.
#[derive(Debug, Clone, PartialEq, Eq)]
pub enum UniHeaderDec {
    NeedMore,
    /// (type, consumed)
    Plain(u64, usize),
    /// WebTransport uni stream: (session id, consumed)
    Wt(u64, usize),
}

pub fn dec_uni_header(buf: &[u8]) -> UniHeaderDec {
    let (ty, n1) = match dec_varint(buf) {
        Dec::Value(v, n) => (v, n),
        Dec::NeedMore => return UniHeaderDec::NeedMore,
    };
    if ty == registry::STREAM_WT_UNI {
        match dec_varint(&buf[n1..]) {
            Dec::Value(id, n2) => UniHeaderDec::Wt(id, n1 + n2),
            Dec::NeedMore => UniHeaderDec::NeedMore,
        }
    } else {
        UniHeaderDec::Plain(ty, n1)
    }
}

pub fn enc_uni_header_wt(session: u64) -> Vec<u8> {
    let mut out = enc_varint(registry::STREAM_WT_UNI);
    put_varint(&mut out, session);
    out
}

pub fn enc_bi_header_wt(session: u64) -> Vec<u8> {
    let mut out = enc_varint(registry::FRAME_WT_STREAM);
    put_varint(&mut out, session);
    out
}

/// HTTP datagram (RFC 9297): quarter stream id varint then payload.
/// Returns (quarter id, payload offset) or None when the varint is missing/truncated.
pub fn dec_datagram(buf: &[u8]) -> Option<(u64, usize)> {
    match dec_varint(buf) {
        Dec::Value(q, n) => Some((q, n)),
        Dec::NeedMore => None,
    }
}

pub const QUARTER_ID_MAX: u64 = (1u64 << 60) - 1;

pub fn enc_datagram(session: u64, payload: &[u8]) -> Vec<u8> {
    let mut out = enc_varint(session / 4);
    out.extend_from_slice(payload);
    out
}

/// Capsule (RFC 9297 §3.2): type, length, value.
pub fn enc_capsule(ty: u64, value: &[u8]) -> Vec<u8> {
    let mut out = enc_varint(ty);
    put_varint(&mut out, value.len() as u64);
    out.extend_from_slice(value);
    out
}

pub fn enc_close_capsule(code: u32, reason: &[u8]) -> Vec<u8> {
    let mut v = code.to_be_bytes().to_vec();
    v.extend_from_slice(reason);
    enc_capsule(registry::CAPSULE_CLOSE_WT_SESSION, &v)
}

/// Decodes one capsule from the front of `buf`.
pub fn dec_capsule(buf: &[u8]) -> Dec<(u64, Vec<u8>)> {
    let Dec::Value(ty, n1) = dec_varint(buf) else {
        return Dec::NeedMore;
    };
    let Dec::Value(len, n2) = dec_varint(&buf[n1..]) else {
        return Dec::NeedMore;
    };
    let rest = &buf[n1 + n2..];
    if (rest.len() as u64) < len {
        return Dec::NeedMore;
    }
    Dec::Value((ty, rest[..len as usize].to_vec()), n1 + n2 + len as usize)
}

/// CLOSE_WEBTRANSPORT_SESSION value: 32-bit code + UTF-8 message of at most 1024 bytes.
pub fn dec_close_capsule_value(v: &[u8]) -> Result<(u32, String), ()> {
    if v.len() < 4 || v.len() > 4 + 1024 {
        return Err(());
    }
    let code = u32::from_be_bytes([v[0], v[1], v[2], v[3]]);
    let reason = std::str::from_utf8(&v[4..]).map_err(|_| ())?;
    Ok((code, reason.to_string()))
}

#[cfg(test)]
mod tests {
    use super::*;
    #[test]
    fn rfc9000_examples() {
        // RFC 9000 A.1
        assert_eq!(
            dec_varint(&[0xc2, 0x19, 0x7c, 0x5e, 0xff, 0x14, 0xe8, 0x8c]),
            Dec::Value(151_288_809_941_952_652, 8)
        );
        assert_eq!(dec_varint(&[0x9d, 0x7f, 0x3e, 0x7d]), Dec::Value(494_878_333, 4));
        assert_eq!(dec_varint(&[0x7b, 0xbd]), Dec::Value(15_293, 2));
        assert_eq!(dec_varint(&[0x25]), Dec::Value(37, 1));
        assert_eq!(dec_varint(&[0x40, 0x25]), Dec::Value(37, 2));
        assert_eq!(enc_varint(15_293), vec![0x7b, 0xbd]);
        assert_eq!(enc_varint(494_878_333), vec![0x9d, 0x7f, 0x3e, 0x7d]);
    }
}
