//! Numeric registries (RFC 9114 §11.2, RFC 9204 §8, RFC 9297, RFC 8441/9220,
//! draft-ietf-webtrans-http3).

pub const FRAME_DATA: u64 = 0x00;
pub const FRAME_HEADERS: u64 = 0x01;
pub const FRAME_CANCEL_PUSH: u64 = 0x03;
pub const FRAME_SETTINGS: u64 = 0x04;
pub const FRAME_PUSH_PROMISE: u64 = 0x05;
pub const FRAME_GOAWAY: u64 = 0x07;
pub const FRAME_MAX_PUSH_ID: u64 = 0x0d;
pub const FRAME_WT_STREAM: u64 = 0x41;
pub const FRAME_PRIORITY_UPDATE_REQ: u64 = 0xF0700;
pub const FRAME_PRIORITY_UPDATE_PUSH: u64 = 0xF0701;
/// Frame types reserved from HTTP/2: receipt MUST be H3_FRAME_UNEXPECTED (RFC 9114 §7.2.8).
pub const FRAME_H2_RESERVED: [u64; 4] = [0x02, 0x06, 0x08, 0x09];

pub const STREAM_CONTROL: u64 = 0x00;
pub const STREAM_PUSH: u64 = 0x01;
pub const STREAM_QPACK_ENCODER: u64 = 0x02;
pub const STREAM_QPACK_DECODER: u64 = 0x03;
pub const STREAM_WT_UNI: u64 = 0x54;

pub const SETTINGS_QPACK_MAX_TABLE_CAPACITY: u64 = 0x01;
pub const SETTINGS_MAX_FIELD_SECTION_SIZE: u64 = 0x06;
pub const SETTINGS_QPACK_BLOCKED_STREAMS: u64 = 0x07;
pub const SETTINGS_ENABLE_CONNECT_PROTOCOL: u64 = 0x08;
pub const SETTINGS_H3_DATAGRAM: u64 = 0x33;
pub const SETTINGS_ENABLE_WEBTRANSPORT: u64 = 0x2b60_3742;
pub const SETTINGS_WT_MAX_SESSIONS: u64 = 0xc671_706a;

pub const H3_DATAGRAM_ERROR: u64 = 0x33;
pub const H3_NO_ERROR: u64 = 0x100;
pub const H3_GENERAL_PROTOCOL_ERROR: u64 = 0x101;
pub const H3_INTERNAL_ERROR: u64 = 0x102;
pub const H3_STREAM_CREATION_ERROR: u64 = 0x103;
pub const H3_CLOSED_CRITICAL_STREAM: u64 = 0x104;
pub const H3_FRAME_UNEXPECTED: u64 = 0x105;
pub const H3_FRAME_ERROR: u64 = 0x106;
pub const H3_EXCESSIVE_LOAD: u64 = 0x107;
pub const H3_ID_ERROR: u64 = 0x108;
pub const H3_SETTINGS_ERROR: u64 = 0x109;
pub const H3_MISSING_SETTINGS: u64 = 0x10a;
pub const H3_REQUEST_REJECTED: u64 = 0x10b;
pub const H3_REQUEST_CANCELLED: u64 = 0x10c;
pub const H3_REQUEST_INCOMPLETE: u64 = 0x10d;
pub const H3_MESSAGE_ERROR: u64 = 0x10e;
pub const H3_CONNECT_ERROR: u64 = 0x10f;
pub const H3_VERSION_FALLBACK: u64 = 0x110;
pub const QPACK_DECOMPRESSION_FAILED: u64 = 0x200;
pub const WT_BUFFERED_STREAM_REJECTED: u64 = 0x3994_bd84;
pub const WT_SESSION_GONE: u64 = 0x170d_7b68;

pub const CAPSULE_CLOSE_WT_SESSION: u64 = 0x2843;
pub const CAPSULE_DRAIN_WT_SESSION: u64 = 0x78ae;
pub const CAPSULE_DATAGRAM: u64 = 0x00;

pub const ALPN_H3: &[u8] = b"h3";

pub fn h3_error_name(code: u64) -> &'static str {
    match code {
        0x33 => "H3_DATAGRAM_ERROR",
        0x100 => "H3_NO_ERROR",
        0x101 => "H3_GENERAL_PROTOCOL_ERROR",
        0x102 => "H3_INTERNAL_ERROR",
        0x103 => "H3_STREAM_CREATION_ERROR",
        0x104 => "H3_CLOSED_CRITICAL_STREAM",
        0x105 => "H3_FRAME_UNEXPECTED",
        0x106 => "H3_FRAME_ERROR",
        0x107 => "H3_EXCESSIVE_LOAD",
        0x108 => "H3_ID_ERROR",
        0x109 => "H3_SETTINGS_ERROR",
        0x10a => "H3_MISSING_SETTINGS",
        0x10b => "H3_REQUEST_REJECTED",
        0x10c => "H3_REQUEST_CANCELLED",
        0x10d => "H3_REQUEST_INCOMPLETE",
        0x10e => "H3_MESSAGE_ERROR",
        0x10f => "H3_CONNECT_ERROR",
        0x110 => "H3_VERSION_FALLBACK",
        0x200 => "QPACK_DECOMPRESSION_FAILED",
        0x3994_bd84 => "WEBTRANSPORT_BUFFERED_STREAM_REJECTED",
        0x170d_7b68 => "WEBTRANSPORT_SESSION_GONE",
        _ => "?",
    }
}
