//! QPACK field sections (RFC 9204), static table only.

pub const STATIC_TABLE: [(&str, &str); 99] = [
    (":authority", ""),
    (":path", "/"),
    ("age", "0"),
    ("content-disposition", ""),
    ("content-length", "0"),
    ("cookie", ""),
    ("date", ""),
    ("etag", ""),
    ("if-modified-since", ""),
    ("if-none-match", ""),
    ("last-modified", ""),
    ("link", ""),
    ("location", ""),
    ("referer", ""),
    ("set-cookie", ""),
    (":method", "CONNECT"),
    (":method", "DELETE"),
    (":method", "GET"),
    (":method", "HEAD"),
    (":method", "OPTIONS"),
    (":method", "POST"),
    (":method", "PUT"),
    (":scheme", "http"),
    (":scheme", "https"),
    (":status", "103"),
    (":status", "200"),
    (":status", "304"),
    (":status", "404"),
    (":status", "503"),
    ("accept", "*/*"),
    ("accept", "application/dns-message"),
    ("accept-encoding", "gzip, deflate, br"),
    ("accept-ranges", "bytes"),
    ("access-control-allow-headers", "cache-control"),
    ("access-control-allow-headers", "content-type"),
    ("access-control-allow-origin", "*"),
    ("cache-control", "max-age=0"),
    ("cache-control", "max-age=2592000"),
    ("cache-control", "max-age=604800"),
    ("cache-control", "no-cache"),
    ("cache-control", "no-store"),
    ("cache-control", "public, max-age=31536000"),
    ("content-encoding", "br"),
    ("content-encoding", "gzip"),
    ("content-type", "application/dns-message"),
    ("content-type", "application/javascript"),
    ("content-type", "application/json"),
    ("content-type", "application/x-www-form-urlencoded"),
    ("content-type", "image/gif"),
    ("content-type", "image/jpeg"),
    ("content-type", "image/png"),
    ("content-type", "text/css"),
    ("content-type", "text/html; charset=utf-8"),
    ("content-type", "text/plain"),
    ("content-type", "text/plain;charset=utf-8"),
    ("range", "bytes=0-"),
    ("strict-transport-security", "max-age=31536000"),
    ("strict-transport-security", "max-age=31536000; includesubdomains"),
    (
        "strict-transport-security",
        "max-age=31536000; includesubdomains; preload",
    ),
    ("vary", "accept-encoding"),
    ("vary", "origin"),
    ("x-content-type-options", "nosniff"),
    ("x-xss-protection", "1; mode=block"),
    (":status", "100"),
    (":status", "204"),
    (":status", "206"),
    (":status", "302"),
    (":status", "400"),
    (":status", "403"),
    (":status", "421"),
    (":status", "425"),
    (":status", "500"),
    ("accept-language", ""),
    ("access-control-allow-credentials", "FALSE"),
    ("access-control-allow-credentials", "TRUE"),
    ("access-control-allow-headers", "*"),
    ("access-control-allow-methods", "get"),
    ("access-control-allow-methods", "get, post, options"),
    ("access-control-allow-methods", "options"),
    ("access-control-expose-headers", "content-length"),
    ("access-control-request-headers", "content-type"),
    ("access-control-request-method", "get"),
    ("access-control-request-method", "post"),
    ("alt-svc", "clear"),
    ("authorization", ""),
    (
        "content-security-policy",
        "script-src 'none'; object-src 'none'; base-uri 'none'",
    ),
    ("early-data", "1"),
    ("expect-ct", ""),
    ("forwarded", ""),
    ("if-range", ""),
    ("origin", ""),
    ("purpose", "prefetch"),
    ("server", ""),
    ("timing-allow-origin", "*"),
    ("upgrade-insecure-requests", "1"),
    ("user-agent", ""),
    ("x-forwarded-for", ""),
    ("x-frame-options", "deny"),
    ("x-frame-options", "sameorigin"),
];

#[derive(Debug, Clone, PartialEq, Eq)]
pub enum QErr {
    /// Input ends inside an integer or string.
    Truncated,
    /// A prefix integer does not fit 64 bits (or is longer than any 64-bit value needs).
    IntegerOverflow,
    /// Huffman or UTF-8 error.
    BadString,
    /// A dynamic-table representation (not supported with capacity 0).
    Dynamic,
    /// Static index beyond the table.
    BadIndex,
}

/// How a field line was represented on the wire.
#[derive(Debug, Clone, Copy, PartialEq, Eq)]
pub enum Repr {
    IndexedStatic,
    LiteralStaticNameRef,
    LiteralLiteralName,
}

#[derive(Debug, Clone, PartialEq, Eq)]
pub struct Field {
    pub name: String,
    pub value: String,
    pub repr: Repr,
    pub huffman_name: bool,
    pub huffman_value: bool,
    /// Static-table row referenced (indexed / name reference).
    pub index: Option<u64>,
    /// Bytes this field line occupies on the wire.
    pub wire_len: usize,
    /// Value of the N ("never index") bit for literal representations.
    pub n_bit: bool,
}

#[derive(Debug, Clone, PartialEq, Eq)]
pub struct Section {
    /// Some prefix integer used more than 10 continuation bytes (longer than any 64-bit value
    /// needs); RFC 7541 §5.1 lets an implementation reject such encodings.
    pub overlong: bool,
    pub required_insert_count: u64,
    pub sign: bool,
    pub delta_base: u64,
    pub fields: Vec<Field>,
}

/// Outcome of an RFC 7541 §5.1 prefix integer.
#[derive(Debug, Clone, PartialEq, Eq)]
pub struct PrefixInt {
    /// Exact value when it fits in 64 bits.
    pub value: Option<u64>,
    /// Number of continuation bytes.
    pub continuation: usize,
    pub consumed: usize,
    /// Bits above the prefix in the first byte.
    pub flags: u8,
}

/// Decodes a prefix integer with arbitrary precision tracking. `Err(Truncated)` when the
/// input ends before the terminating byte.
pub fn dec_prefix_int(buf: &[u8], n: u32) -> Result<PrefixInt, QErr> {
    assert!((1..=8).contains(&n));
    let Some(&first) = buf.first() else {
        return Err(QErr::Truncated);
    };
    let mask: u16 = (1u16 << n) - 1;
    let flags = if n == 8 { 0 } else { first >> n };
    let prefix = (first as u16) & mask;
    if prefix < mask {
        return Ok(PrefixInt {
            value: Some(prefix as u64),
            continuation: 0,
            consumed: 1,
            flags,
        });
    }
    // u128 accumulator, saturating flag for anything beyond
    let mut acc: u128 = mask as u128;
    let mut overflow = false;
    let mut shift: u32 = 0;
    let mut i = 1;
    loop {
        let Some(&b) = buf.get(i) else {
            return Err(QErr::Truncated);
        };
        i += 1;
        let part = (b & 0x7f) as u128;
        if part != 0 {
            if shift >= 100 {
                overflow = true;
            } else {
                acc += part << shift;
            }
        }
        shift = shift.saturating_add(7);
        if b & 0x80 == 0 {
            break;
        }
    }
    let value = if overflow || acc > u64::MAX as u128 {
        None
    } else {
        Some(acc as u64)
    };
    Ok(PrefixInt {
        value,
        continuation: i - 1,
        consumed: i,
        flags,
    })
}

pub fn enc_prefix_int(out: &mut Vec<u8>, n: u32, flags: u8, value: u64) {
    let mask: u64 = (1u64 << n) - 1;
    let hi = if n == 8 { 0 } else { flags << n };
    if value < mask {
        out.push(hi | value as u8);
        return;
    }
    out.push(hi | mask as u8);
    let mut rem = value - mask;
    while rem >= 128 {
        out.push((rem % 128) as u8 | 0x80);
        rem /= 128;
    }
    out.push(rem as u8);
}

fn dec_string(buf: &[u8], n: u32) -> Result<(String, bool, usize), QErr> {
    let pi = dec_prefix_int(buf, n)?;
    let Some(len) = pi.value else {
        return Err(QErr::IntegerOverflow);
    };
    let huffman = pi.flags & 1 == 1;
    let rest = &buf[pi.consumed..];
    if (rest.len() as u64) < len {
        return Err(QErr::Truncated);
    }
    let raw = &rest[..len as usize];
    let bytes = if huffman {
        let mut out = Vec::new();
        httlib_huffman::decode(raw, &mut out, httlib_huffman::DecoderSpeed::OneBit)
            .map_err(|_| QErr::BadString)?;
        out
    } else {
        raw.to_vec()
    };
    let s = String::from_utf8(bytes).map_err(|_| QErr::BadString)?;
    Ok((s, huffman, pi.consumed + len as usize))
}

/// Decodes an encoded field section.
pub fn decode_section(buf: &[u8]) -> Result<Section, QErr> {
    let ric = dec_prefix_int(buf, 8)?;
    let mut off = ric.consumed;
    let base = dec_prefix_int(&buf[off..], 7)?;
    off += base.consumed;
    if ric.value.is_none() || base.value.is_none() {
        return Err(QErr::IntegerOverflow);
    }
    let mut fields = Vec::new();
    while off < buf.len() {
        let b = buf[off];
        if b & 0x80 != 0 {
            // indexed field line: 1 T index(6+)
            if b & 0x40 == 0 {
                return Err(QErr::Dynamic);
            }
            let start = off;
            let pi = dec_prefix_int(&buf[off..], 6)?;
            off += pi.consumed;
            let idx = pi.value.ok_or(QErr::IntegerOverflow)?;
            let row = STATIC_TABLE.get(idx as usize).ok_or(QErr::BadIndex)?;
            if idx > usize::MAX as u64 {
                return Err(QErr::BadIndex);
            }
            fields.push(Field {
                name: row.0.to_string(),
                value: row.1.to_string(),
                repr: Repr::IndexedStatic,
                huffman_name: false,
                huffman_value: false,
                index: Some(idx),
                wire_len: off - start,
                n_bit: false,
            });
        } else if b & 0x40 != 0 {
            // literal with name reference: 01 N T index(4+)
            if b & 0x10 == 0 {
                return Err(QErr::Dynamic);
            }
            let start = off;
            let pi = dec_prefix_int(&buf[off..], 4)?;
            off += pi.consumed;
            let idx = pi.value.ok_or(QErr::IntegerOverflow)?;
            let row = STATIC_TABLE.get(idx as usize).ok_or(QErr::BadIndex)?;
            let (value, hv, n) = dec_string(&buf[off..], 7)?;
            off += n;
            fields.push(Field {
                name: row.0.to_string(),
                value,
                repr: Repr::LiteralStaticNameRef,
                huffman_name: false,
                huffman_value: hv,
                index: Some(idx),
                wire_len: off - start,
                n_bit: b & 0x20 != 0,
            });
        } else if b & 0x20 != 0 {
            // literal with literal name: 001 N H len(3+)
            let start = off;
            let (name, hn, n) = dec_string(&buf[off..], 3)?;
            off += n;
            let (value, hv, n) = dec_string(&buf[off..], 7)?;
            off += n;
            fields.push(Field {
                name,
                value,
                repr: Repr::LiteralLiteralName,
                huffman_name: hn,
                huffman_value: hv,
                index: None,
                wire_len: off - start,
                n_bit: b & 0x10 != 0,
            });
        } else {
            // 0001 post-base index / 0000 post-base name reference
            return Err(QErr::Dynamic);
        }
    }
    Ok(Section {
        overlong: max_continuation(buf) > 10,
        required_insert_count: ric.value.unwrap_or(u64::MAX),
        sign: base.flags & 1 == 1,
        delta_base: base.value.unwrap_or(u64::MAX),
        fields,
    })
}

/// Longest run of continuation bytes of any prefix integer met while scanning a section that
/// decodes successfully (re-scan; only used for the over-long allowance).
fn max_continuation(buf: &[u8]) -> usize {
    let mut best = 0;
    let mut off = 0;
    let mut track = |pi: &PrefixInt| {
        if pi.continuation > best {
            best = pi.continuation;
        }
    };
    let Ok(a) = dec_prefix_int(buf, 8) else { return 0 };
    track(&a);
    off += a.consumed;
    let Ok(b) = dec_prefix_int(&buf[off..], 7) else { return best };
    track(&b);
    off += b.consumed;
    while off < buf.len() {
        let byte = buf[off];
        let string = |off: &mut usize, n: u32, best: &mut usize| -> bool {
            let Ok(pi) = dec_prefix_int(&buf[*off..], n) else { return false };
            if pi.continuation > *best {
                *best = pi.continuation;
            }
            let Some(len) = pi.value else { return false };
            *off += pi.consumed;
            if ((buf.len() - *off) as u64) < len {
                return false;
            }
            *off += len as usize;
            true
        };
        if byte & 0x80 != 0 {
            let Ok(pi) = dec_prefix_int(&buf[off..], 6) else { return best };
            if pi.continuation > best {
                best = pi.continuation;
            }
            off += pi.consumed;
        } else if byte & 0x40 != 0 {
            let Ok(pi) = dec_prefix_int(&buf[off..], 4) else { return best };
            if pi.continuation > best {
                best = pi.continuation;
            }
            off += pi.consumed;
            if !string(&mut off, 7, &mut best) {
                return best;
            }
        } else if byte & 0x20 != 0 {
            if !string(&mut off, 3, &mut best) || !string(&mut off, 7, &mut best) {
                return best;
            }
        } else {
            return best;
        }
    }
    best
}

/// Representation choice for the reference encoder.
#[derive(Debug, Clone, Copy, PartialEq, Eq)]
pub enum Choice {
    /// Most compact: exact static hit → indexed; name hit → name reference; else literal.
    Best,
    /// Name reference if the name is in the table (any row with the name, chosen by `row_sel`).
    NameRef,
    /// Always literal name.
    Literal,
}

#[derive(Debug, Clone, Copy, PartialEq, Eq)]
pub struct EncOpts {
    pub choice: Choice,
    pub huffman_name: bool,
    pub huffman_value: bool,
    /// Selects among several rows with the same name.
    pub row_sel: u8,
    /// "Never index" bit.
    pub n_bit: bool,
}

impl Default for EncOpts {
    fn default() -> Self {
        EncOpts {
            choice: Choice::Best,
            huffman_name: false,
            huffman_value: false,
            row_sel: 0,
            n_bit: false,
        }
    }
}

fn enc_string(out: &mut Vec<u8>, n: u32, flags_hi: u8, s: &str, huffman: bool) {
    // flags_hi are the bits above the H bit
    if huffman {
        let mut h = Vec::new();
        if httlib_huffman::encode(s.as_bytes(), &mut h).is_ok() {
            enc_prefix_int(out, n, (flags_hi << 1) | 1, h.len() as u64);
            out.extend_from_slice(&h);
            return;
        }
    }
    enc_prefix_int(out, n, flags_hi << 1, s.len() as u64);
    out.extend_from_slice(s.as_bytes());
}

/// Encodes a field section with Required Insert Count 0 / Base 0.
pub fn encode_section(fields: &[(String, String, EncOpts)]) -> Vec<u8> {
    let mut out = vec![0u8, 0u8];
    for (name, value, o) in fields {
        let rows: Vec<usize> = STATIC_TABLE
            .iter()
            .enumerate()
            .filter(|(_, r)| r.0 == name)
            .map(|(i, _)| i)
            .collect();
        let exact = STATIC_TABLE
            .iter()
            .position(|r| r.0 == name && r.1 == value);
        let use_indexed = matches!(o.choice, Choice::Best) && exact.is_some();
        let use_nameref =
            !use_indexed && !rows.is_empty() && !matches!(o.choice, Choice::Literal);
        if use_indexed {
            enc_prefix_int(&mut out, 6, 0b11, exact.unwrap() as u64);
        } else if use_nameref {
            let row = rows[o.row_sel as usize % rows.len()];
            enc_prefix_int(&mut out, 4, 0b0100 | ((o.n_bit as u8) << 1) | 1, row as u64);
            enc_string(&mut out, 7, 0, value, o.huffman_value);
        } else {
            enc_string(&mut out, 3, 0b0010 | (o.n_bit as u8), name, o.huffman_name);
            enc_string(&mut out, 7, 0, value, o.huffman_value);
        }
    }
    out
}

#[cfg(test)]
mod tests {
    use super::*;
    #[test]
    fn rfc7541_integer_examples() {
        // C.1.1: 10 with 5-bit prefix
        let mut o = Vec::new();
        enc_prefix_int(&mut o, 5, 0, 10);
        assert_eq!(o, vec![0b01010]);
        // C.1.2: 1337 with 5-bit prefix
        let mut o = Vec::new();
        enc_prefix_int(&mut o, 5, 0, 1337);
        assert_eq!(o, vec![0b11111, 0b10011010, 0b00001010]);
        assert_eq!(dec_prefix_int(&o, 5).unwrap().value, Some(1337));
        // C.1.3: 42 at octet boundary
        let mut o = Vec::new();
        enc_prefix_int(&mut o, 8, 0, 42);
        assert_eq!(o, vec![42]);
    }
    #[test]
    fn rfc9204_b1() {
        // B.1: literal field line with name reference: :path = /index.html
        let bytes = [
            0x00, 0x00, 0x51, 0x0b, 0x2f, 0x69, 0x6e, 0x64, 0x65, 0x78, 0x2e, 0x68, 0x74, 0x6d,
            0x6c,
        ];
        let s = decode_section(&bytes).unwrap();
        assert_eq!(s.fields.len(), 1);
        assert_eq!(s.fields[0].name, ":path");
        assert_eq!(s.fields[0].value, "/index.html");
        let enc = encode_section(&[(
            ":path".into(),
            "/index.html".into(),
            EncOpts {
                choice: Choice::NameRef,
                ..Default::default()
            },
        )]);
        assert_eq!(enc, bytes);
    }
    #[test]
    fn overflow() {
        let mut b = vec![0xffu8];
        b.extend(std::iter::repeat(0xff).take(10));
        b.push(0x01);
        assert_eq!(dec_prefix_int(&b, 8).unwrap().value, None);
    }
}
