//! Raw quinn peer (client and server role) speaking HTTP/3 + WebTransport via `refcodec`,
//! plus a recorder of everything the endpoint under test emits.

use crate::wt::{transport, Tuning};
use refcodec::qpack as rq;
use refcodec::registry as reg;
use std::collections::BTreeMap;
use std::net::SocketAddr;
use std::sync::{Arc, Mutex};
use std::time::Duration;

pub type Res<T> = Result<T, String>;

fn provider() -> Arc<rustls::crypto::CryptoProvider> {
    Arc::new(rustls::crypto::ring::default_provider())
}

#[derive(Debug)]
struct AcceptAny(Arc<rustls::crypto::CryptoProvider>);

impl rustls::client::danger::ServerCertVerifier for AcceptAny {
    fn verify_server_cert(
        &self,
        _end_entity: &rustls_pki_types::CertificateDer<'_>,
        _intermediates: &[rustls_pki_types::CertificateDer<'_>],
        _server_name: &rustls_pki_types::ServerName<'_>,
        _ocsp: &[u8],
        _now: rustls_pki_types::UnixTime,
    ) -> Result<rustls::client::danger::ServerCertVerified, rustls::Error> {
        Ok(rustls::client::danger::ServerCertVerified::assertion())
    }
    fn verify_tls12_signature(
        &self,
        message: &[u8],
        cert: &rustls_pki_types::CertificateDer<'_>,
        dss: &rustls::DigitallySignedStruct,
    ) -> Result<rustls::client::danger::HandshakeSignatureValid, rustls::Error> {
        rustls::crypto::verify_tls12_signature(message, cert, dss, &self.0.signature_verification_algorithms)
    }
    fn verify_tls13_signature(
        &self,
        message: &[u8],
        cert: &rustls_pki_types::CertificateDer<'_>,
        dss: &rustls::DigitallySignedStruct,
    ) -> Result<rustls::client::danger::HandshakeSignatureValid, rustls::Error> {
        rustls::crypto::verify_tls13_signature(message, cert, dss, &self.0.signature_verification_algorithms)
    }
    fn supported_verify_schemes(&self) -> Vec<rustls::SignatureScheme> {
        self.0.signature_verification_algorithms.supported_schemes()
    }
}

/// rustls client configuration of the raw peer (TLS 1.3, chosen ALPN list, no verification).
pub fn raw_client_tls(alpn: &[&[u8]]) -> rustls::ClientConfig {
    let p = provider();
    let mut cfg = rustls::ClientConfig::builder_with_provider(p.clone())
        .with_protocol_versions(&[&rustls::version::TLS13])
        .unwrap()
        .dangerous()
        .with_custom_certificate_verifier(Arc::new(AcceptAny(p)))
        .with_no_client_auth();
    cfg.alpn_protocols = alpn.iter().map(|a| a.to_vec()).collect();
    cfg
}

pub struct RawCert {
    pub cert_der: Vec<u8>,
    pub key_der: Vec<u8>,
}

pub fn raw_cert() -> RawCert {
    let ck = rcgen::generate_simple_self_signed(vec!["localhost".to_string(), "127.0.0.1".to_string()]).expect("rcgen");
    RawCert {
        cert_der: ck.cert.der().to_vec(),
        key_der: ck.signing_key.serialize_der(),
    }
}

pub fn raw_server_tls(cert: &RawCert, alpn: &[&[u8]]) -> rustls::ServerConfig {
    let mut cfg = rustls::ServerConfig::builder_with_provider(provider())
        .with_protocol_versions(&[&rustls::version::TLS13])
        .unwrap()
        .with_no_client_auth()
        .with_single_cert(
            vec![rustls_pki_types::CertificateDer::from(cert.cert_der.clone())],
            rustls_pki_types::PrivateKeyDer::Pkcs8(rustls_pki_types::PrivatePkcs8KeyDer::from(cert.key_der.clone())),
        )
        .expect("server cert");
    cfg.alpn_protocols = alpn.iter().map(|a| a.to_vec()).collect();
    cfg
}

/// A raw QUIC client endpoint connected to `server`.
pub async fn raw_connect(server: SocketAddr, t: &Tuning) -> Res<(quinn::Endpoint, quinn::Connection)> {
    raw_connect_alpn(server, t, &[reg::ALPN_H3]).await
}

pub async fn raw_connect_alpn(server: SocketAddr, t: &Tuning, alpn: &[&[u8]]) -> Res<(quinn::Endpoint, quinn::Connection)> {
    let ep = quinn::Endpoint::client("127.0.0.1:0".parse().unwrap()).map_err(|e| e.to_string())?;
    let crypto = quinn::crypto::rustls::QuicClientConfig::try_from(raw_client_tls(alpn)).map_err(|e| e.to_string())?;
    let mut cfg = quinn::ClientConfig::new(Arc::new(crypto));
    cfg.transport_config(Arc::new(transport(t)));
    let conn = ep
        .connect_with(cfg, server, "localhost")
        .map_err(|e| e.to_string())?
        .await
        .map_err(|e| format!("raw connect: {e}"))?;
    Ok((ep, conn))
}

/// A raw QUIC server endpoint on loop-back.
pub fn raw_server(t: &Tuning) -> Res<(quinn::Endpoint, SocketAddr)> {
    raw_server_alpn(t, &[reg::ALPN_H3])
}

pub fn raw_server_alpn(t: &Tuning, alpn: &[&[u8]]) -> Res<(quinn::Endpoint, SocketAddr)> {
    let cert = raw_cert();
    let crypto = quinn::crypto::rustls::QuicServerConfig::try_from(raw_server_tls(&cert, alpn)).map_err(|e| e.to_string())?;
    let mut cfg = quinn::ServerConfig::with_crypto(Arc::new(crypto));
    cfg.transport_config(Arc::new(transport(t)));
    let ep = quinn::Endpoint::server(cfg, "127.0.0.1:0".parse().unwrap()).map_err(|e| e.to_string())?;
    let addr = ep.local_addr().map_err(|e| e.to_string())?;
    Ok((ep, addr))
}

/// SETTINGS a WebTransport peer advertises.
pub fn default_settings() -> Vec<(u64, u64)> {
    vec![
        (reg::SETTINGS_QPACK_MAX_TABLE_CAPACITY, 0),
        (reg::SETTINGS_QPACK_BLOCKED_STREAMS, 0),
        (reg::SETTINGS_ENABLE_CONNECT_PROTOCOL, 1),
        (reg::SETTINGS_H3_DATAGRAM, 1),
        (reg::SETTINGS_ENABLE_WEBTRANSPORT, 1),
        (reg::SETTINGS_WT_MAX_SESSIONS, 1),
    ]
}

/// Bytes that open a control stream: type 0x00 followed by a SETTINGS frame.
pub fn control_preamble(settings: &[(u64, u64)]) -> Vec<u8> {
    let mut v = refcodec::enc_varint(reg::STREAM_CONTROL);
    v.extend(refcodec::enc_frame(reg::FRAME_SETTINGS, &refcodec::enc_settings(settings)));
    v
}

pub fn connect_request_fields(authority: &str, path: &str) -> Vec<(String, String, rq::EncOpts)> {
    vec![
        (":method".into(), "CONNECT".into(), Default::default()),
        (":scheme".into(), "https".into(), Default::default()),
        (":protocol".into(), "webtransport".into(), Default::default()),
        (":authority".into(), authority.into(), Default::default()),
        (":path".into(), path.into(), Default::default()),
    ]
}

pub fn headers_frame(fields: &[(String, String, rq::EncOpts)]) -> Vec<u8> {
    refcodec::enc_frame(reg::FRAME_HEADERS, &rq::encode_section(fields))
}

pub fn response_frame(status: &str, extra: &[(String, String)]) -> Vec<u8> {
    let mut f: Vec<(String, String, rq::EncOpts)> = vec![(":status".into(), status.into(), Default::default())];
    for (k, v) in extra {
        f.push((k.clone(), v.clone(), Default::default()));
    }
    headers_frame(&f)
}

/// Writes `bytes` and waits until the peer has acknowledged everything sent so far (bounded),
/// then settles for `settle`: a "cut" between two deliveries.
pub async fn write_cut(conn: &quinn::Connection, s: &mut quinn::SendStream, bytes: &[u8], settle: Duration) -> Res<()> {
    s.write_all(bytes).await.map_err(|e| format!("write: {e}"))?;
    flush_acked(conn, Duration::from_millis(400)).await;
    tokio::time::sleep(settle).await;
    Ok(())
}

/// Waits (bounded) until no stream data is in flight: the ack counter advanced after the last
/// stream frame was sent and the congestion window is idle.
pub async fn flush_acked(conn: &quinn::Connection, bound: Duration) {
    let start = tokio::time::Instant::now();
    let s0 = conn.stats();
    let mut last_tx = s0.frame_tx.stream;
    let mut stable = 0;
    loop {
        tokio::time::sleep(Duration::from_millis(2)).await;
        let s = conn.stats();
        if s.frame_tx.stream == last_tx && s.frame_rx.acks > s0.frame_rx.acks {
            stable += 1;
            if stable >= 2 {
                return;
            }
        } else {
            stable = 0;
            last_tx = s.frame_tx.stream;
        }
        if start.elapsed() > bound {
            return;
        }
    }
}

/// Reads frames (skipping GREASE and unknown types) until a frame of a type in `want`.
pub async fn read_frame_of(recv: &mut quinn::RecvStream, buf: &mut Vec<u8>, want: &[u64], bound: Duration) -> Res<(u64, Vec<u8>)> {
    let deadline = tokio::time::Instant::now() + bound;
    loop {
        match refcodec::dec_elem(buf) {
            refcodec::ElemDec::Frame { ty, payload: Some(p), header_len, .. } => {
                let n = header_len + p.len();
                buf.drain(..n);
                if want.contains(&ty) {
                    return Ok((ty, p));
                }
                continue;
            }
            refcodec::ElemDec::WtSignal { id, .. } => return Err(format!("unexpected WT signal (session {id})")),
            _ => {}
        }
        let mut chunk = [0u8; 4096];
        match tokio::time::timeout_at(deadline, recv.read(&mut chunk)).await {
            Err(_) => return Err("timeout waiting for frame".into()),
            Ok(Ok(Some(n))) => buf.extend_from_slice(&chunk[..n]),
            Ok(Ok(None)) => return Err("stream finished".into()),
            Ok(Err(e)) => return Err(format!("read error: {e}")),
        }
    }
}

pub fn decode_fields(payload: &[u8]) -> Res<Vec<(String, String)>> {
    rq::decode_section(payload)
        .map(|s| s.fields.into_iter().map(|f| (f.name, f.value)).collect())
        .map_err(|e| format!("qpack: {e:?}"))
}

/// One recorded incoming stream.
#[derive(Clone, Debug, Default)]
pub struct StreamLog {
    pub bytes: Vec<u8>,
    pub fin: bool,
    pub reset: Option<u64>,
    pub bidi: bool,
}

#[derive(Default)]
pub struct Log {
    /// streams opened by the endpoint under test, by QUIC stream id
    pub streams: BTreeMap<u64, StreamLog>,
    pub datagrams: Vec<Vec<u8>>,
    pub close: Option<quinn::ConnectionError>,
    pub bidi_send: BTreeMap<u64, quinn::SendStream>,
}

/// Records everything the endpoint under test opens or sends on `conn`.
#[derive(Clone)]
pub struct Recorder {
    pub log: Arc<Mutex<Log>>,
    tasks: Arc<Mutex<Vec<tokio::task::JoinHandle<()>>>>,
}

impl Recorder {
    pub fn start(conn: &quinn::Connection) -> Recorder {
        let log: Arc<Mutex<Log>> = Arc::new(Mutex::new(Log::default()));
        let tasks: Arc<Mutex<Vec<tokio::task::JoinHandle<()>>>> = Arc::new(Mutex::new(Vec::new()));
        let spawn_reader = |log: Arc<Mutex<Log>>, id: u64, mut recv: quinn::RecvStream, bidi: bool| {
            tokio::spawn(async move {
                log.lock().unwrap().streams.entry(id).or_default().bidi = bidi;
                let mut chunk = vec![0u8; 16384];
                loop {
                    match recv.read(&mut chunk).await {
                        Ok(Some(n)) => log.lock().unwrap().streams.entry(id).or_default().bytes.extend_from_slice(&chunk[..n]),
                        Ok(None) => {
                            log.lock().unwrap().streams.entry(id).or_default().fin = true;
                            break;
                        }
                        Err(quinn::ReadError::Reset(code)) => {
                            log.lock().unwrap().streams.entry(id).or_default().reset = Some(code.into_inner());
                            break;
                        }
                        Err(_) => break,
                    }
                }
            })
        };
        {
            let conn = conn.clone();
            let log = log.clone();
            let tasks2 = tasks.clone();
            tasks.lock().unwrap().push(tokio::spawn(async move {
                while let Ok(recv) = conn.accept_uni().await {
                    let id = quinn::VarInt::from(recv.id()).into_inner();
                    let h = spawn_reader(log.clone(), id, recv, false);
                    tasks2.lock().unwrap().push(h);
                }
            }));
        }
        {
            let conn = conn.clone();
            let log = log.clone();
            let tasks2 = tasks.clone();
            tasks.lock().unwrap().push(tokio::spawn(async move {
                while let Ok((send, recv)) = conn.accept_bi().await {
                    let id = quinn::VarInt::from(recv.id()).into_inner();
                    log.lock().unwrap().bidi_send.insert(id, send);
                    let h = spawn_reader(log.clone(), id, recv, true);
                    tasks2.lock().unwrap().push(h);
                }
            }));
        }
        {
            let conn = conn.clone();
            let log = log.clone();
            tasks.lock().unwrap().push(tokio::spawn(async move {
                while let Ok(d) = conn.read_datagram().await {
                    log.lock().unwrap().datagrams.push(d.to_vec());
                }
            }));
        }
        {
            let conn = conn.clone();
            let log = log.clone();
            tasks.lock().unwrap().push(tokio::spawn(async move {
                let e = conn.closed().await;
                log.lock().unwrap().close = Some(e);
            }));
        }
        Recorder { log, tasks }
    }

    pub fn snapshot(&self) -> (BTreeMap<u64, StreamLog>, Vec<Vec<u8>>) {
        let g = self.log.lock().unwrap();
        (g.streams.clone(), g.datagrams.clone())
    }

    pub fn close_code(&self) -> Option<CloseSeen> {
        self.log.lock().unwrap().close.as_ref().map(close_seen)
    }

    pub fn stop(&self) {
        for t in self.tasks.lock().unwrap().drain(..) {
            t.abort();
        }
    }

    /// Waits until `pred` holds on the log or the bound expires.
    pub async fn wait(&self, bound: Duration, pred: impl Fn(&Log) -> bool) -> bool {
        let deadline = tokio::time::Instant::now() + bound;
        loop {
            if pred(&self.log.lock().unwrap()) {
                return true;
            }
            if tokio::time::Instant::now() >= deadline {
                return false;
            }
            tokio::time::sleep(Duration::from_millis(3)).await;
        }
    }
}

/// How the connection was seen to end by the raw peer.
#[derive(Clone, Debug, PartialEq, Eq)]
pub enum CloseSeen {
    /// CONNECTION_CLOSE of application type: (code, reason)
    Application(u64, Vec<u8>),
    /// CONNECTION_CLOSE of transport type
    Transport(u64, String),
    TimedOut,
    LocallyClosed,
    Reset,
    Other(String),
}

pub fn close_seen(e: &quinn::ConnectionError) -> CloseSeen {
    match e {
        quinn::ConnectionError::ApplicationClosed(c) => CloseSeen::Application(c.error_code.into_inner(), c.reason.to_vec()),
        quinn::ConnectionError::ConnectionClosed(c) => CloseSeen::Transport(u64::from(c.error_code), String::from_utf8_lossy(&c.reason).to_string()),
        quinn::ConnectionError::TimedOut => CloseSeen::TimedOut,
        quinn::ConnectionError::LocallyClosed => CloseSeen::LocallyClosed,
        quinn::ConnectionError::Reset => CloseSeen::Reset,
        other => CloseSeen::Other(other.to_string()),
    }
}

/// An established raw-client WebTransport session against a wtransport server.
pub struct RawClientSession {
    pub endpoint: quinn::Endpoint,
    pub conn: quinn::Connection,
    pub control: quinn::SendStream,
    pub req_send: quinn::SendStream,
    pub req_recv: quinn::RecvStream,
    pub req_buf: Vec<u8>,
    pub session_id: u64,
    pub response: Vec<(String, String)>,
}

/// Opens the control stream (SETTINGS) on a raw connection.
pub async fn open_control(conn: &quinn::Connection, settings: &[(u64, u64)]) -> Res<quinn::SendStream> {
    let mut s = conn.open_uni().await.map_err(|e| format!("open control: {e}"))?;
    s.write_all(&control_preamble(settings)).await.map_err(|e| format!("write settings: {e}"))?;
    Ok(s)
}

/// Connects, sends SETTINGS and an extended CONNECT, waits for the response.
pub async fn raw_client_session(server: SocketAddr, t: &Tuning, path: &str) -> Res<RawClientSession> {
    let (endpoint, conn) = raw_connect(server, t).await?;
    let control = open_control(&conn, &default_settings()).await?;
    let (mut req_send, mut req_recv) = conn.open_bi().await.map_err(|e| format!("open request: {e}"))?;
    let session_id = quinn::VarInt::from(req_send.id()).into_inner();
    req_send
        .write_all(&headers_frame(&connect_request_fields(&server.to_string(), path)))
        .await
        .map_err(|e| format!("write request: {e}"))?;
    let mut req_buf = Vec::new();
    let (_, payload) = read_frame_of(&mut req_recv, &mut req_buf, &[reg::FRAME_HEADERS], Duration::from_secs(5)).await?;
    let response = decode_fields(&payload)?;
    Ok(RawClientSession { endpoint, conn, control, req_send, req_recv, req_buf, session_id, response })
}

/// A raw server that has accepted a connection from a wtransport client and answered its request.
pub struct RawServerSession {
    pub conn: quinn::Connection,
    pub control: quinn::SendStream,
    pub req_send: quinn::SendStream,
    pub req_recv: quinn::RecvStream,
    pub req_buf: Vec<u8>,
    pub session_id: u64,
    pub request: Vec<(String, String)>,
}

/// Accepts one connection on the raw server endpoint, sends SETTINGS, reads the CONNECT request.
/// The response is left to the caller (`respond`).
pub async fn raw_server_accept(endpoint: &quinn::Endpoint, settings: &[(u64, u64)]) -> Res<RawServerSession> {
    let incoming = tokio::time::timeout(Duration::from_secs(5), endpoint.accept())
        .await
        .map_err(|_| "no incoming connection".to_string())?
        .ok_or("endpoint closed")?;
    let conn = incoming.await.map_err(|e| format!("accept: {e}"))?;
    let control = open_control(&conn, settings).await?;
    let (req_send, mut req_recv) = tokio::time::timeout(Duration::from_secs(5), conn.accept_bi())
        .await
        .map_err(|_| "no request stream".to_string())?
        .map_err(|e| format!("accept_bi: {e}"))?;
    let session_id = quinn::VarInt::from(req_send.id()).into_inner();
    let mut req_buf = Vec::new();
    let (_, payload) = read_frame_of(&mut req_recv, &mut req_buf, &[reg::FRAME_HEADERS], Duration::from_secs(5)).await?;
    let request = decode_fields(&payload)?;
    Ok(RawServerSession { conn, control, req_send, req_recv, req_buf, session_id, request })
}

impl RawServerSession {
    pub async fn respond(&mut self, status: &str, extra: &[(String, String)]) -> Res<()> {
        self.req_send.write_all(&response_frame(status, extra)).await.map_err(|e| format!("respond: {e}"))
    }
}

/// Opens a WebTransport unidirectional stream from the raw peer.
pub async fn raw_open_wt_uni(conn: &quinn::Connection, session: u64) -> Res<quinn::SendStream> {
    let mut s = conn.open_uni().await.map_err(|e| format!("open uni: {e}"))?;
    s.write_all(&refcodec::enc_uni_header_wt(session)).await.map_err(|e| format!("uni header: {e}"))?;
    Ok(s)
}

/// Opens a WebTransport bidirectional stream from the raw peer.
pub async fn raw_open_wt_bi(conn: &quinn::Connection, session: u64) -> Res<(quinn::SendStream, quinn::RecvStream)> {
    let (mut s, r) = conn.open_bi().await.map_err(|e| format!("open bi: {e}"))?;
    s.write_all(&refcodec::enc_bi_header_wt(session)).await.map_err(|e| format!("bi header: {e}"))?;
    Ok((s, r))
}

pub fn vi(v: u64) -> quinn::VarInt {
    quinn::VarInt::from_u64(v).expect("varint")
}
