//! wtransport endpoints on loop-back.

use std::net::{Ipv4Addr, SocketAddr};
use std::sync::Arc;
use std::time::Duration;
use wtransport::endpoint::endpoint_side::{Client, Server};
use wtransport::{ClientConfig, Endpoint, Identity, ServerConfig};

pub fn localhost0() -> SocketAddr {
    SocketAddr::from((Ipv4Addr::LOCALHOST, 0))
}

/// Transport tuned for tests: generous idle timeout, optional small windows.
#[derive(Clone, Debug, Default)]
pub struct Tuning {
    pub stream_receive_window: Option<u32>,
    pub receive_window: Option<u32>,
    pub send_window: Option<u64>,
    pub max_concurrent_uni: Option<u32>,
    pub max_concurrent_bidi: Option<u32>,
    /// None = leave default; Some(None) = datagrams disabled; Some(Some(n)) = receive buffer n
    pub datagram_receive_buffer: Option<Option<usize>>,
    pub datagram_send_buffer: Option<usize>,
    pub idle_timeout_ms: Option<u64>,
    pub keep_alive_ms: Option<u64>,
    pub initial_rtt_ms: Option<u64>,
    pub mtu_discovery_off: bool,
}

pub fn transport(t: &Tuning) -> quinn::TransportConfig {
    let mut c = quinn::TransportConfig::default();
    if let Some(w) = t.stream_receive_window {
        c.stream_receive_window(w.into());
    }
    if let Some(w) = t.receive_window {
        c.receive_window(w.into());
    }
    if let Some(w) = t.send_window {
        c.send_window(w);
    }
    if let Some(n) = t.max_concurrent_uni {
        c.max_concurrent_uni_streams(n.into());
    }
    if let Some(n) = t.max_concurrent_bidi {
        c.max_concurrent_bidi_streams(n.into());
    }
    if let Some(d) = t.datagram_receive_buffer {
        c.datagram_receive_buffer_size(d);
    }
    if let Some(d) = t.datagram_send_buffer {
        c.datagram_send_buffer_size(d);
    }
    let idle = t.idle_timeout_ms.unwrap_or(20_000);
    c.max_idle_timeout(Some(quinn::IdleTimeout::try_from(Duration::from_millis(idle)).unwrap()));
    if let Some(k) = t.keep_alive_ms {
        c.keep_alive_interval(Some(Duration::from_millis(k)));
    }
    if let Some(r) = t.initial_rtt_ms {
        c.initial_rtt(Duration::from_millis(r));
    }
    if t.mtu_discovery_off {
        c.mtu_discovery_config(None);
    }
    c
}

pub fn wt_identity() -> Identity {
    Identity::self_signed(["localhost", "127.0.0.1", "::1"]).expect("self signed identity")
}

pub fn wt_server(t: &Tuning) -> Endpoint<Server> {
    wt_server_at(localhost0(), t)
}

pub fn wt_server_at(addr: SocketAddr, t: &Tuning) -> Endpoint<Server> {
    let cfg = ServerConfig::builder()
        .with_bind_address(addr)
        .with_custom_transport(wt_identity(), transport(t))
        .build();
    Endpoint::server(cfg).expect("server endpoint")
}

pub fn wt_client(t: &Tuning) -> Endpoint<Client> {
    let mut cfg = ClientConfig::builder()
        .with_bind_address(localhost0())
        .with_no_cert_validation()
        .build();
    cfg.quic_config_mut().transport_config(Arc::new(transport(t)));
    Endpoint::client(cfg).expect("client endpoint")
}

pub fn url_for(addr: SocketAddr, path: &str) -> String {
    format!("https://{}{}", addr, path)
}

/// Server built through the library's *default* builder path (`with_identity`, default transport).
pub fn wt_server_default() -> Endpoint<Server> {
    let cfg = ServerConfig::builder().with_bind_address(localhost0()).with_identity(wt_identity()).build();
    Endpoint::server(cfg).expect("server endpoint")
}

/// Client built through the library's default transport (no certificate validation).
pub fn wt_client_default() -> Endpoint<Client> {
    let cfg = ClientConfig::builder().with_bind_address(localhost0()).with_no_cert_validation().build();
    Endpoint::client(cfg).expect("client endpoint")
}
