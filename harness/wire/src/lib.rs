//! Raw quinn peer speaking HTTP/3 + WebTransport through the reference codec, wire recorder,
//! UDP relay and helpers to stand up wtransport endpoints on loop-back.

pub mod peer;
pub mod relay;
pub mod validate;
pub mod wt;

pub use peer::*;
pub use relay::*;
pub use wt::*;
