//! In-process UDP relay between a client and a server with a controllable policy per direction.

use std::net::SocketAddr;
use std::sync::atomic::{AtomicBool, AtomicU32, AtomicU64, Ordering};
use std::sync::Arc;
use std::time::Duration;
use tokio::net::UdpSocket;

#[derive(Default)]
pub struct Policy {
    /// drop probability in 1/65536 units
    pub drop_c2s: AtomicU32,
    pub drop_s2c: AtomicU32,
    pub blackhole_c2s: AtomicBool,
    pub blackhole_s2c: AtomicBool,
    /// extra delay applied to every n-th packet (reordering); 0 = off
    pub delay_every: AtomicU32,
    pub delay_ms: AtomicU32,
    pub forwarded_c2s: AtomicU64,
    pub forwarded_s2c: AtomicU64,
    pub dropped: AtomicU64,
    pub seed: AtomicU64,
}

pub struct Relay {
    pub addr: SocketAddr,
    pub policy: Arc<Policy>,
    task: tokio::task::JoinHandle<()>,
}

impl Drop for Relay {
    fn drop(&mut self) {
        self.task.abort();
    }
}

fn next(seed: &AtomicU64) -> u32 {
    // splitmix-style step; the stream is a pure function of the initial seed
    let mut x = seed.fetch_add(0x9e3779b97f4a7c15, Ordering::Relaxed).wrapping_add(0x9e3779b97f4a7c15);
    x = (x ^ (x >> 30)).wrapping_mul(0xbf58476d1ce4e5b9);
    x = (x ^ (x >> 27)).wrapping_mul(0x94d049bb133111eb);
    ((x ^ (x >> 31)) & 0xffff) as u32
}

impl Relay {
    /// Starts a relay in front of `server`; the (single) client talks to `relay.addr`.
    pub async fn start(server: SocketAddr, seed: u64) -> Relay {
        let front = Arc::new(UdpSocket::bind(("127.0.0.1", 0)).await.expect("relay front"));
        let back = Arc::new(UdpSocket::bind(("127.0.0.1", 0)).await.expect("relay back"));
        let addr = front.local_addr().unwrap();
        let policy = Arc::new(Policy::default());
        policy.seed.store(seed, Ordering::Relaxed);
        let p = policy.clone();
        let task = tokio::spawn(async move {
            let mut client: Option<SocketAddr> = None;
            let mut b1 = vec![0u8; 65536];
            let mut b2 = vec![0u8; 65536];
            let mut count: u32 = 0;
            loop {
                tokio::select! {
                    r = front.recv_from(&mut b1) => {
                        let Ok((n, from)) = r else { break };
                        client = Some(from);
                        if p.blackhole_c2s.load(Ordering::Relaxed) || next(&p.seed) < p.drop_c2s.load(Ordering::Relaxed) {
                            p.dropped.fetch_add(1, Ordering::Relaxed);
                            continue;
                        }
                        count = count.wrapping_add(1);
                        p.forwarded_c2s.fetch_add(1, Ordering::Relaxed);
                        let every = p.delay_every.load(Ordering::Relaxed);
                        if every != 0 && count % every == 0 {
                            let data = b1[..n].to_vec();
                            let back = back.clone();
                            let d = p.delay_ms.load(Ordering::Relaxed) as u64;
                            tokio::spawn(async move {
                                tokio::time::sleep(Duration::from_millis(d)).await;
                                let _ = back.send_to(&data, server).await;
                            });
                        } else {
                            let _ = back.send_to(&b1[..n], server).await;
                        }
                    }
                    r = back.recv_from(&mut b2) => {
                        let Ok((n, _)) = r else { break };
                        let Some(c) = client else { continue };
                        if p.blackhole_s2c.load(Ordering::Relaxed) || next(&p.seed) < p.drop_s2c.load(Ordering::Relaxed) {
                            p.dropped.fetch_add(1, Ordering::Relaxed);
                            continue;
                        }
                        count = count.wrapping_add(1);
                        p.forwarded_s2c.fetch_add(1, Ordering::Relaxed);
                        let every = p.delay_every.load(Ordering::Relaxed);
                        if every != 0 && count % every == 0 {
                            let data = b2[..n].to_vec();
                            let front = front.clone();
                            let d = p.delay_ms.load(Ordering::Relaxed) as u64;
                            tokio::spawn(async move {
                                tokio::time::sleep(Duration::from_millis(d)).await;
                                let _ = front.send_to(&data, c).await;
                            });
                        } else {
                            let _ = front.send_to(&b2[..n], c).await;
                        }
                    }
                }
            }
        });
        Relay { addr, policy, task }
    }

    pub fn set_loss(&self, per_65536: u32) {
        self.policy.drop_c2s.store(per_65536, Ordering::Relaxed);
        self.policy.drop_s2c.store(per_65536, Ordering::Relaxed);
    }
    pub fn set_reorder(&self, every: u32, delay_ms: u32) {
        self.policy.delay_ms.store(delay_ms, Ordering::Relaxed);
        self.policy.delay_every.store(every, Ordering::Relaxed);
    }
    pub fn blackhole(&self, c2s: bool, s2c: bool) {
        self.policy.blackhole_c2s.store(c2s, Ordering::Relaxed);
        self.policy.blackhole_s2c.store(s2c, Ordering::Relaxed);
    }
}
