//! Validation of what an endpoint emitted, with the reference codec only.

use refcodec::qpack as rq;
use refcodec::registry as reg;
use refcodec::{dec_elem, dec_varint, Dec, ElemDec};

/// Splits a complete byte string into frames. Errors on a trailing partial frame.
pub fn split_frames(mut b: &[u8]) -> Result<Vec<(u64, Vec<u8>)>, String> {
    let mut out = Vec::new();
    while !b.is_empty() {
        match dec_elem(b) {
            ElemDec::Frame { ty, payload: Some(p), header_len, .. } => {
                let n = header_len + p.len();
                out.push((ty, p));
                b = &b[n..];
            }
            ElemDec::WtSignal { id, .. } => return Err(format!("WT_STREAM signal (session {id}) where a frame was expected")),
            _ => return Err(format!("trailing bytes that are not a complete frame: {} byte(s)", b.len())),
        }
    }
    Ok(out)
}

/// Control stream: type 0x00, first frame a single SETTINGS advertising WebTransport, HTTP
/// datagrams and extended CONNECT with a zero-capacity QPACK table; nothing that is not a frame.
pub fn validate_control(bytes: &[u8]) -> Result<Vec<(u64, u64)>, String> {
    let Dec::Value(ty, n) = dec_varint(bytes) else {
        return Err("control stream: incomplete stream type".into());
    };
    if ty != reg::STREAM_CONTROL {
        return Err(format!("stream type {ty:#x} is not the control stream"));
    }
    let frames = split_frames(&bytes[n..]).map_err(|e| format!("control stream: {e}"))?;
    let Some((first_ty, first)) = frames.first() else {
        return Err("control stream carries no SETTINGS frame".into());
    };
    if *first_ty != reg::FRAME_SETTINGS {
        return Err(format!("first control frame has type {first_ty:#x}, not SETTINGS"));
    }
    let pairs = refcodec::dec_settings(first).map_err(|_| "SETTINGS payload is not a sequence of (id, value) pairs".to_string())?;
    for (i, (id, _)) in pairs.iter().enumerate() {
        if pairs[..i].iter().any(|(j, _)| j == id) {
            return Err(format!("setting {id:#x} occurs twice"));
        }
        if refcodec::is_reserved_setting(*id) {
            return Err(format!("reserved setting identifier {id:#x} sent"));
        }
    }
    let get = |id: u64| pairs.iter().find(|(i, _)| *i == id).map(|(_, v)| *v);
    if get(reg::SETTINGS_ENABLE_WEBTRANSPORT) != Some(1) {
        return Err(format!("SETTINGS_ENABLE_WEBTRANSPORT (0x2b603742) = {:?}, expected 1", get(reg::SETTINGS_ENABLE_WEBTRANSPORT)));
    }
    if get(reg::SETTINGS_H3_DATAGRAM) != Some(1) {
        return Err(format!("SETTINGS_H3_DATAGRAM (0x33) = {:?}, expected 1", get(reg::SETTINGS_H3_DATAGRAM)));
    }
    if get(reg::SETTINGS_ENABLE_CONNECT_PROTOCOL) != Some(1) {
        return Err(format!("SETTINGS_ENABLE_CONNECT_PROTOCOL (0x08) = {:?}, expected 1", get(reg::SETTINGS_ENABLE_CONNECT_PROTOCOL)));
    }
    if !matches!(get(reg::SETTINGS_QPACK_MAX_TABLE_CAPACITY), None | Some(0)) {
        return Err(format!("QPACK_MAX_TABLE_CAPACITY = {:?}, expected absent or 0", get(reg::SETTINGS_QPACK_MAX_TABLE_CAPACITY)));
    }
    if !matches!(get(reg::SETTINGS_QPACK_BLOCKED_STREAMS), None | Some(0)) {
        return Err(format!("QPACK_BLOCKED_STREAMS = {:?}, expected absent or 0", get(reg::SETTINGS_QPACK_BLOCKED_STREAMS)));
    }
    for (ty, _) in &frames[1..] {
        match *ty {
            reg::FRAME_SETTINGS => return Err("second SETTINGS frame on the control stream".into()),
            reg::FRAME_DATA | reg::FRAME_HEADERS | reg::FRAME_PUSH_PROMISE => return Err(format!("frame type {ty:#x} is not allowed on the control stream")),
            t if reg::FRAME_H2_RESERVED.contains(&t) => return Err(format!("HTTP/2-reserved frame type {t:#x} sent")),
            _ => {}
        }
    }
    Ok(pairs)
}

#[derive(Clone, Copy, PartialEq, Eq, Debug)]
pub enum Message {
    Request,
    Response,
}

/// Field section: Required-Insert-Count 0 / Base 0, static-indexed / static-name-reference /
/// literal representations only, pseudo-header fields first and as the message kind requires.
pub fn validate_field_section(payload: &[u8], kind: Message) -> Result<Vec<(String, String)>, String> {
    let sec = rq::decode_section(payload).map_err(|e| format!("field section does not decode: {e:?}"))?;
    if sec.required_insert_count != 0 || sec.delta_base != 0 || sec.sign {
        return Err(format!("field section prefix ({}, {}, {}) is not (0, 0)", sec.required_insert_count, sec.sign, sec.delta_base));
    }
    let mut regular_seen = false;
    for f in &sec.fields {
        if f.name.starts_with(':') {
            if regular_seen {
                return Err(format!("pseudo-header {:?} after a regular field", f.name));
            }
        } else {
            regular_seen = true;
        }
        if f.name.chars().any(|c| c.is_ascii_uppercase()) {
            return Err(format!("field name {:?} is not lower-case", f.name));
        }
    }
    let pseudo: Vec<(&str, &str)> = sec.fields.iter().filter(|f| f.name.starts_with(':')).map(|f| (f.name.as_str(), f.value.as_str())).collect();
    match kind {
        Message::Request => {
            for (name, want) in [(":method", Some("CONNECT")), (":scheme", Some("https")), (":protocol", Some("webtransport")), (":authority", None), (":path", None)] {
                let found: Vec<&&str> = pseudo.iter().filter(|(n, _)| *n == name).map(|(_, v)| v).collect();
                if found.len() != 1 {
                    return Err(format!("request carries {} {name} fields", found.len()));
                }
                if let Some(w) = want {
                    if **found[0] != *w {
                        return Err(format!("{name} = {:?}, expected {w:?}", found[0]));
                    }
                }
            }
            if pseudo.len() != 5 {
                return Err(format!("request carries {} pseudo-header fields: {:?}", pseudo.len(), pseudo));
            }
        }
        Message::Response => {
            if pseudo.len() != 1 || pseudo[0].0 != ":status" {
                return Err(format!("response pseudo-header fields are {:?}, expected exactly :status", pseudo));
            }
            let s = pseudo[0].1;
            if s.len() != 3 || !s.bytes().all(|b| b.is_ascii_digit()) {
                return Err(format!(":status {s:?} is not three digits"));
            }
        }
    }
    Ok(sec.fields.into_iter().map(|f| (f.name, f.value)).collect())
}

/// WebTransport unidirectional stream: 0x54, session id, application bytes.
pub fn validate_wt_uni(bytes: &[u8], session: u64) -> Result<Vec<u8>, String> {
    match refcodec::dec_uni_header(bytes) {
        refcodec::UniHeaderDec::Wt(id, n) => {
            if id != session {
                return Err(format!("WT uni stream names session {id}, expected {session}"));
            }
            Ok(bytes[n..].to_vec())
        }
        refcodec::UniHeaderDec::Plain(t, _) => Err(format!("uni stream of type {t:#x}, expected 0x54")),
        refcodec::UniHeaderDec::NeedMore => Err("uni stream ends inside its header".into()),
    }
}

/// WebTransport bidirectional stream: signal 0x41, session id, application bytes.
pub fn validate_wt_bi(bytes: &[u8], session: u64) -> Result<Vec<u8>, String> {
    match dec_elem(bytes) {
        ElemDec::WtSignal { id, consumed } => {
            if id != session {
                return Err(format!("WT bidi stream names session {id}, expected {session}"));
            }
            Ok(bytes[consumed..].to_vec())
        }
        other => Err(format!("bidi stream does not start with the WT_STREAM signal: {other:?}")),
    }
}

/// HTTP datagram: quarter stream id of the session, then the payload.
pub fn validate_datagram(bytes: &[u8], session: u64) -> Result<Vec<u8>, String> {
    match refcodec::dec_datagram(bytes) {
        Some((q, off)) => {
            if q.checked_mul(4) != Some(session) {
                return Err(format!("datagram carries quarter stream id {q}, expected {}", session / 4));
            }
            Ok(bytes[off..].to_vec())
        }
        None => Err("datagram without a complete quarter stream id".into()),
    }
}
