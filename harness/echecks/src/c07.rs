//! C07 — streams are independent: a stalled stream never blocks the others.

use crate::common::*;
use proptest::prelude::*;
use serde::{Deserialize, Serialize};
use serde_json::Value;
use std::collections::BTreeMap;
use std::sync::{Arc, Mutex};
use std::time::Duration;
use vcore::{prop_search, Outcome, Run, Search};
use wire::*;
use wtransport::Connection;

const RULE: &str = "case = runtime flavour x role of the wtransport endpoint x an ordered script of 1..6 stalled streams, in one case of six preceded by a crowd of 7..27 more of one kind (uni/bidi; stall position: no byte = implicit open, partial preamble, complete preamble then silence, data that the application accepts but never reads, a complete GREASE frame then silence / GREASE frame + partial preamble on a bidi stream, the type varint without the session id on a uni stream) interleaved with 1..8 healthy streams (preamble + tagged payload + FIN) x 0..3 datagrams (re-sent until one arrives) x a backlog of 0 or 2..6 datagrams sent and acknowledged before the stream script while the application is not receiving yet (all of them must be delivered afterwards) x final clean close (close capsule or QUIC application close with generated code/reason sent by the raw peer, or Connection::close(code, reason) by the application, or the application dropping every handle and stream it holds); plus a public-API variant (wtransport<->wtransport, an OpeningBiStream/OpeningUniStream held un-awaited). Oracle: an application that keeps accepting receives every healthy stream with its bytes, at least one datagram, and finally the exact close value, each within the bound; after a local close the peer sees exactly (code, reason), after dropping everything the peer sees the connection closed within the bound. Non-trivial: >= 1 stalled stream opened before >= 1 healthy stream of the same kind; distinct = distinct case";

#[derive(Clone, Debug, Serialize, Deserialize)]
pub struct Item {
    pub stalled: bool,
    pub bidi: bool,
    /// stall position: 0 no byte, 1 partial preamble, 2 complete preamble, 3 unread data,
    /// 4 a complete GREASE frame (bidi) / the type varint without the session id (uni) then silence,
    /// 5 a GREASE frame followed by a partial preamble (bidi) / as 4 (uni)
    pub pos: u8,
}

#[derive(Clone, Debug, Serialize, Deserialize)]
pub struct Case {
    pub flavor: u8,
    pub wt_is_server: bool,
    /// 0 raw peer script, 1 public API (wt<->wt)
    pub variant: u8,
    pub items: Vec<Item>,
    pub datagrams: u8,
    pub close_capsule: bool,
    pub code: u32,
    pub reason: String,
    /// raw-peer script through the UDP relay: 0 direct, 1 10 % loss, 2 reordering
    #[serde(default)]
    pub relay: u8,
    /// build the wtransport endpoint through the library's default builder path (default
    /// transport configuration) instead of a custom transport
    #[serde(default)]
    pub default_config: bool,
    /// how the session ends (raw-peer script without relay): 0 by the peer (capsule or QUIC close,
    /// see `close_capsule`), 1 the application calls `Connection::close(code, reason)`, 2 the
    /// application drops every handle and stream it holds
    #[serde(default)]
    pub ending: u8,
    /// datagrams of the session sent (and acknowledged by the endpoint's transport) *before* the
    /// stream script while the application is not yet receiving datagrams; it starts receiving
    /// only after the script. They fit the transport's receive buffer many times over, so every
    /// one of them must still be delivered (raw-peer script without relay)
    #[serde(default)]
    pub dgram_backlog: u8,
}

pub fn case_strategy() -> impl Strategy<Value = Case> {
    (
        0u8..3,
        any::<bool>(),
        prop_oneof![4 => Just(0u8), 1 => Just(1u8)],
        proptest::collection::vec((prop_oneof![Just(true), Just(false)], any::<bool>(), 0u8..6).prop_map(|(stalled, bidi, pos)| Item { stalled, bidi, pos }), 2..12),
        0u8..4,
        any::<bool>(),
        prop_oneof![Just(0u32), Just(1), any::<u32>()],
        "[a-zA-Z0-9 ]{0,24}",
        prop_oneof![3 => Just(0u8), 1 => Just(1u8), 1 => Just(2u8)],
        (any::<bool>(), prop_oneof![3 => Just(0u8), 1 => Just(1u8), 2 => Just(2u8)], prop_oneof![2 => Just(0u8), 1 => 2u8..7]),
        // a crowd: many more stalled streams of one kind than any internal queue or task budget
        // of the library is long (well inside the transport's limit of 100 concurrent streams),
        // opened before everything else
        prop_oneof![5 => Just((0usize, false, 0u8)), 1 => (7usize..28, any::<bool>(), 0u8..6)],
    )
        .prop_map(|(flavor, wt_is_server, variant, mut items, datagrams, close_capsule, code, reason, relay, (default_config, ending, dgram_backlog), (crowd, crowd_bidi, crowd_pos))| {
            for j in 0..crowd {
                // positions vary inside the crowd but stay "stalled before the application can see it"
                // for most of them, so the crowd does not need the application to hold 28 streams (and never
                // the megabytes of the window-filling stall)
                items.insert(0, Item { stalled: true, bidi: crowd_bidi, pos: if j % 4 == 3 { if crowd_pos == 3 { 2 } else { crowd_pos } } else { crowd_pos % 2 } });
            }
            // at least one healthy and one stalled item
            if !items.iter().any(|i| !i.stalled) {
                items.push(Item { stalled: false, bidi: items[0].bidi, pos: 0 });
            }
            if !items.iter().any(|i| i.stalled) {
                items.insert(0, Item { stalled: true, bidi: items[0].bidi, pos: 0 });
            }
            Case { flavor, wt_is_server, variant, items, datagrams, close_capsule, code, reason, relay, default_config, ending, dgram_backlog }
        })
}

fn healthy_payload(i: usize) -> Vec<u8> {
    let mut v = vec![b'H'];
    v.extend((i as u32).to_be_bytes());
    v.extend((0..40).map(|o| pbyte(900 + i as u64, o)));
    v
}

#[derive(Default)]
struct Shared {
    healthy: BTreeMap<usize, Vec<u8>>,
    datagrams: usize,
    closes: Vec<String>,
    errors: Vec<String>,
    /// tasks of the application that hold accepted streams
    handlers: Vec<tokio::task::AbortHandle>,
    /// the application does not call receive_datagram before this is set
    hold_datagrams: bool,
    /// indices of the backlog datagrams the application received
    backlog_seen: std::collections::BTreeSet<u8>,
}

/// The application: keeps accepting, reads every delivered stream in its own task, except
/// streams marked 'U' which it holds unread.
fn spawn_app(conn: Connection, shared: Arc<Mutex<Shared>>) -> Vec<tokio::task::JoinHandle<()>> {
    let mut v = Vec::new();
    fn handle(mut r: wtransport::RecvStream, s: Option<wtransport::SendStream>, sh: Arc<Mutex<Shared>>) {
        let sh2 = sh.clone();
        let task = tokio::spawn(async move {
            let _keep = s;
            let mut first = [0u8; 1];
            match r.read(&mut first).await {
                Ok(Some(1)) => {}
                _ => return, // silent stream or closed: nothing to report
            }
            if first[0] == b'U' {
                // accepted but never read: hold the stream
                tokio::time::sleep(Duration::from_secs(30)).await;
                return;
            }
            let mut data = vec![first[0]];
            let mut buf = [0u8; 256];
            loop {
                match r.read(&mut buf).await {
                    Ok(Some(n)) => data.extend_from_slice(&buf[..n]),
                    Ok(None) => break,
                    Err(_) => return,
                }
            }
            if data.len() >= 5 && data[0] == b'H' {
                let i = u32::from_be_bytes([data[1], data[2], data[3], data[4]]) as usize;
                sh.lock().unwrap().healthy.insert(i, data);
            }
        });
        sh2.lock().unwrap().handlers.push(task.abort_handle());
    }
    let c = conn.clone();
    let sh = shared.clone();
    v.push(tokio::spawn(async move {
        loop {
            match c.accept_uni().await {
                Ok(r) => handle(r, None, sh.clone()),
                Err(e) => {
                    sh.lock().unwrap().closes.push(format!("accept_uni:{}", conn_err(&e)));
                    break;
                }
            }
        }
    }));
    let c = conn.clone();
    let sh = shared.clone();
    v.push(tokio::spawn(async move {
        loop {
            match c.accept_bi().await {
                Ok((s, r)) => handle(r, Some(s), sh.clone()),
                Err(e) => {
                    sh.lock().unwrap().closes.push(format!("accept_bi:{}", conn_err(&e)));
                    break;
                }
            }
        }
    }));
    let c = conn;
    let sh = shared;
    v.push(tokio::spawn(async move {
        while sh.lock().unwrap().hold_datagrams {
            tokio::time::sleep(Duration::from_millis(2)).await;
        }
        loop {
            match c.receive_datagram().await {
                Ok(d) => {
                    if d.payload().starts_with(b"dgram") {
                        sh.lock().unwrap().datagrams += 1;
                    }
                    if let Some(rest) = d.payload().strip_prefix(b"backlog-") {
                        if let Some(i) = rest.first() {
                            sh.lock().unwrap().backlog_seen.insert(*i);
                        }
                    }
                }
                Err(e) => {
                    sh.lock().unwrap().closes.push(format!("receive_datagram:{}", conn_err(&e)));
                    break;
                }
            }
        }
    }));
    v
}

async fn exec_async(case: Arc<Case>) -> CaseResult {
    let shared = Arc::new(Mutex::new(Shared::default()));
    let healthy_idx: Vec<usize> = case.items.iter().enumerate().filter(|(_, i)| !i.stalled).map(|(k, _)| k).collect();
    let mut held: Vec<Box<dyn std::any::Any + Send>> = Vec::new();
    let mut window_filled = false;
    let expect_close;
    let mut app_conn_opt: Option<Connection>;
    let mut ended_locally = false;
    let mut backlog_ok = false;
    let mut dropped_all = false;
    let _keep: Box<dyn std::any::Any + Send>;
    if case.variant % 2 == 1 {
        // public API only: the sender is a wtransport endpoint holding un-awaited opening futures
        let p = match wt_pair(&Tuning::default(), &Tuning::default()).await {
            Ok(p) => p,
            Err(e) => return CaseResult::Skip(e),
        };
        let (sender, receiver) = if case.wt_is_server { (p.client.clone(), p.server.clone()) } else { (p.server.clone(), p.client.clone()) };
        app_conn_opt = Some(receiver.clone());
        let _tasks = spawn_app(receiver, shared.clone());
        for (k, it) in case.items.iter().enumerate() {
            if it.stalled {
                if it.bidi {
                    match sender.open_bi().await {
                        Ok(o) => held.push(Box::new(o)),
                        Err(e) => return CaseResult::Skip(conn_err(&e)),
                    }
                } else {
                    match sender.open_uni().await {
                        Ok(o) => held.push(Box::new(o)),
                        Err(e) => return CaseResult::Skip(conn_err(&e)),
                    }
                }
            } else {
                let data = healthy_payload(k);
                let sender = sender.clone();
                let bidi = it.bidi;
                let sh = shared.clone();
                tokio::spawn(async move {
                    let r: Res<()> = async {
                        if bidi {
                            let (mut s, _r) = sender.open_bi().await.map_err(|e| conn_err(&e))?.await.map_err(|e| e.to_string())?;
                            s.write_all(&data).await.map_err(|e| e.to_string())?;
                            s.finish().await.map_err(|e| e.to_string())?;
                        } else {
                            let mut s = sender.open_uni().await.map_err(|e| conn_err(&e))?.await.map_err(|e| e.to_string())?;
                            s.write_all(&data).await.map_err(|e| e.to_string())?;
                            s.finish().await.map_err(|e| e.to_string())?;
                        }
                        Ok(())
                    }
                    .await;
                    if let Err(e) = r {
                        sh.lock().unwrap().errors.push(format!("healthy sender #{k}: {e}"));
                    }
                });
            }
        }
        // datagrams
        let dg_sender = sender.clone();
        let n_dg = case.datagrams;
        let sh = shared.clone();
        tokio::spawn(async move {
            if n_dg == 0 {
                return;
            }
            for round in 0..400 {
                if sh.lock().unwrap().datagrams > 0 {
                    break;
                }
                for d in 0..n_dg {
                    let _ = dg_sender.send_datagram(format!("dgram{d}-{round}"));
                }
                tokio::time::sleep(Duration::from_millis(5)).await;
            }
        });
        // wait for delivery, then close through the public API
        if let Some(r) = wait_delivery(&shared, &healthy_idx, case.datagrams).await {
            return r;
        }
        sender.close(wtransport::VarInt::from_u32(case.code), case.reason.as_bytes());
        expect_close = format!("ApplicationClosed({},{})", case.code, vcore::hex(case.reason.as_bytes()));
        _keep = Box::new(p);
    } else {
        let (conn, raw_conn, session, mut req_send, keep): (Connection, quinn::Connection, u64, quinn::SendStream, Box<dyn std::any::Any + Send>) = if case.wt_is_server && case.relay % 3 != 0 {
            // the raw client reaches the server through a lossy / reordering relay: packets of the
            // stalled and healthy streams are delayed or lost and retransmitted
            let t = Tuning { initial_rtt_ms: Some(10), ..Default::default() };
            let server_ep = wt_server(&t);
            let addr = server_ep.local_addr().unwrap();
            let relay = Relay::start(addr, 4242 + case.items.len() as u64).await;
            let accept = async {
                let incoming = server_ep.accept().await;
                let req = incoming.await.map_err(|e| format!("incoming: {}", conn_err(&e)))?;
                req.accept().await.map_err(|e| format!("accept: {}", conn_err(&e)))
            };
            let (s, r) = tokio::join!(accept, raw_client_session(relay.addr, &t, "/"));
            match (s, r) {
                (Ok(server), Ok(raw)) => {
                    if case.relay % 3 == 1 {
                        relay.set_loss(6553);
                    } else {
                        relay.set_reorder(3, 12);
                    }
                    let RawClientSession { endpoint, conn, control, req_send, req_recv, session_id, .. } = raw;
                    (server, conn, session_id, req_send, Box::new((server_ep, endpoint, control, req_recv, relay)))
                }
                (Err(e), _) | (_, Err(e)) => return CaseResult::Skip(e),
            }
        } else if case.wt_is_server {
            let setup = if case.default_config { raw_client_vs_default_wt_server(&Tuning::default()).await } else { raw_client_vs_wt_server(&Tuning::default(), &Tuning::default()).await };
            match setup {
                Ok(p) => {
                    let RawClientVsWt { server_ep, server, raw } = p;
                    let RawClientSession { endpoint, conn, control, req_send, req_recv, session_id, .. } = raw;
                    (server, conn, session_id, req_send, Box::new((server_ep, endpoint, control, req_recv)))
                }
                Err(e) => return CaseResult::Skip(e),
            }
        } else {
            let setup = if case.default_config { default_wt_client_vs_raw_server(&Tuning::default()).await } else { wt_client_vs_raw_server(&Tuning::default(), &Tuning::default()).await };
            match setup {
                Ok(p) => {
                    let WtClientVsRaw { client_ep, client, raw_ep, raw } = p;
                    let RawServerSession { conn, control, req_send, req_recv, session_id, .. } = raw;
                    (client, conn, session_id, req_send, Box::new((client_ep, raw_ep, control, req_recv)))
                }
                Err(e) => return CaseResult::Skip(e),
            }
        };
        app_conn_opt = Some(conn.clone());
        let via_relay0 = case.wt_is_server && case.relay % 3 != 0;
        let backlog = if via_relay0 { 0 } else { case.dgram_backlog };
        shared.lock().unwrap().hold_datagrams = backlog > 0;
        let _tasks = spawn_app(conn, shared.clone());
        if backlog > 0 {
            for i in 0..backlog {
                let mut p = b"backlog-".to_vec();
                p.push(i);
                p.extend_from_slice(b" sent before the stream script");
                let _ = raw_conn.send_datagram(refcodec::enc_datagram(session, &p).into());
            }
            // acknowledged = inside the endpoint's transport receive buffer
            flush_acked(&raw_conn, Duration::from_millis(300)).await;
            tokio::time::sleep(Duration::from_millis(10)).await;
        }
        // the raw peer plays the script in order
        for (k, it) in case.items.iter().enumerate() {
            let preamble = if it.bidi { refcodec::enc_bi_header_wt(session) } else { refcodec::enc_uni_header_wt(session) };
            let (mut s, r) = if it.bidi {
                match raw_conn.open_bi().await {
                    Ok((s, r)) => (s, Some(r)),
                    Err(e) => return CaseResult::Skip(e.to_string()),
                }
            } else {
                match raw_conn.open_uni().await {
                    Ok(s) => (s, None),
                    Err(e) => return CaseResult::Skip(e.to_string()),
                }
            };
            if it.stalled {
                let grease = refcodec::enc_frame(refcodec::grease(k as u64 + 1), b"grease");
                let bytes: Vec<u8> = match it.pos % 6 {
                    0 => vec![],
                    1 => preamble[..1.max(preamble.len() / 2)].to_vec(),
                    2 => preamble.clone(),
                    4 if it.bidi => grease,
                    5 if it.bidi => {
                        let mut b = grease;
                        b.push(preamble[0]);
                        b
                    }
                    // uni: the complete stream type, the session id still missing
                    4 | 5 => preamble[..2].to_vec(),
                    _ => {
                        let mut b = preamble.clone();
                        b.push(b'U');
                        b.extend(std::iter::repeat(0x55).take(3000));
                        b
                    }
                };
                if !bytes.is_empty() {
                    let _ = s.write_all(&bytes).await;
                }
                if it.pos % 6 == 3 && k % 2 == 0 {
                    // "unread data up to the flow-control window": keep writing until the stream's
                    // window (1.25 MB by default) is exhausted; the application never reads it
                    let progress = Arc::new(std::sync::atomic::AtomicUsize::new(0));
                    let p2 = progress.clone();
                    let filler = tokio::spawn(async move {
                        let chunk = vec![0x55u8; 64 * 1024];
                        loop {
                            match s.write(&chunk).await {
                                Ok(n) => {
                                    p2.fetch_add(n, std::sync::atomic::Ordering::Relaxed);
                                }
                                Err(_) => break,
                            }
                        }
                    });
                    // wait until the writer makes no progress any more (blocked on flow control)
                    let mut last = usize::MAX;
                    for _ in 0..200 {
                        tokio::time::sleep(Duration::from_millis(10)).await;
                        let now = progress.load(std::sync::atomic::Ordering::Relaxed);
                        if now == last && now > 0 {
                            break;
                        }
                        last = now;
                    }
                    window_filled = true;
                    held.push(Box::new((filler, r)));
                } else {
                    held.push(Box::new((s, r)));
                }
            } else {
                let mut b = preamble;
                b.extend(healthy_payload(k));
                if let Err(e) = s.write_all(&b).await {
                    return viol("C07:raw-write", format!("raw peer could not write healthy stream #{k}: {e}"));
                }
                let _ = s.finish();
                held.push(Box::new((s, r)));
            }
            tokio::time::sleep(Duration::from_millis(1)).await;
        }
        let n_dg = case.datagrams;
        let dg_conn = raw_conn.clone();
        let sh = shared.clone();
        tokio::spawn(async move {
            if n_dg == 0 {
                return;
            }
            for round in 0..400 {
                if sh.lock().unwrap().datagrams > 0 {
                    break;
                }
                for d in 0..n_dg {
                    let _ = dg_conn.send_datagram(refcodec::enc_datagram(session, format!("dgram{d}-{round}").as_bytes()).into());
                }
                tokio::time::sleep(Duration::from_millis(5)).await;
            }
        });
        shared.lock().unwrap().hold_datagrams = false;
        if let Some(r) = wait_delivery(&shared, &healthy_idx, case.datagrams).await {
            return r;
        }
        if backlog > 0 {
            let deadline = tokio::time::Instant::now() + Duration::from_secs(4);
            loop {
                let seen = shared.lock().unwrap().backlog_seen.len();
                if seen == backlog as usize {
                    break;
                }
                if tokio::time::Instant::now() >= deadline {
                    let g = shared.lock().unwrap();
                    return CaseResult::Timeout(format!("{} datagrams were sent and acknowledged before the stream script, the application then kept calling receive_datagram but obtained only those with indices {:?}", backlog, g.backlog_seen));
                }
                tokio::time::sleep(Duration::from_millis(2)).await;
            }
            backlog_ok = true;
        }
        // through a lossy relay a CONNECTION_CLOSE packet may simply be lost (it is not
        // retransmitted); the capsule travels on a reliable stream
        let via_relay = case.wt_is_server && case.relay % 3 != 0;
        if !via_relay && case.ending % 3 == 1 {
            // the application closes the session itself
            app_conn_opt.as_ref().expect("connection").close(wtransport::VarInt::from_u32(case.code), case.reason.as_bytes());
            match tokio::time::timeout(Duration::from_secs(5), raw_conn.closed()).await {
                Ok(e) => {
                    let want = CloseSeen::Application(case.code as u64, case.reason.as_bytes().to_vec());
                    if close_seen(&e) != want {
                        return viol("C07:local-close-value", format!("the application closed with ({}, {:?}) in the presence of stalled streams, the peer saw {:?}", case.code, case.reason, close_seen(&e)));
                    }
                }
                Err(_) => return CaseResult::Timeout("Connection::close was called (stalled streams present) but the peer never saw the connection close".into()),
            }
            ended_locally = true;
        } else if !via_relay && case.ending % 3 == 2 {
            // the application lets go of everything: accept loops, accepted streams, handles
            for t in &_tasks {
                t.abort();
            }
            for h in shared.lock().unwrap().handlers.drain(..) {
                h.abort();
            }
            for t in _tasks {
                let _ = t.await;
            }
            drop(app_conn_opt.take());
            match tokio::time::timeout(Duration::from_secs(5), raw_conn.closed()).await {
                Ok(_) => {}
                Err(_) => return CaseResult::Timeout("the application dropped every handle and stream (stalled streams present) but the peer never saw the connection close".into()),
            }
            dropped_all = true;
        } else if case.close_capsule || via_relay {
            let cap = refcodec::enc_frame(refcodec::registry::FRAME_DATA, &refcodec::enc_close_capsule(case.code, case.reason.as_bytes()));
            if let Err(e) = req_send.write_all(&cap).await {
                return CaseResult::Skip(format!("capsule write: {e}"));
            }
            let _ = req_send.finish();
        } else {
            raw_conn.close(vi(case.code as u64), case.reason.as_bytes());
        }
        expect_close = if ended_locally { "LocallyClosed".to_string() } else { format!("ApplicationClosed({},{})", case.code, vcore::hex(case.reason.as_bytes())) };
        held.push(Box::new(req_send));
        _keep = keep;
    }
    // the close value must reach all three pending calls (retransmissions through a lossy relay
    // back off exponentially: allow more time there)
    let deadline = tokio::time::Instant::now() + Duration::from_secs(if case.relay % 3 != 0 { 12 } else { 5 });
    loop {
        if dropped_all {
            // nobody is left to observe a termination value
            break;
        }
        {
            let g = shared.lock().unwrap();
            if g.closes.len() >= 3 {
                for c in &g.closes {
                    let (op, val) = c.split_once(':').unwrap();
                    if val != expect_close {
                        return viol("C07:close-value", format!("{op} ended with {val}, expected {expect_close}"));
                    }
                }
                break;
            }
        }
        if tokio::time::Instant::now() >= deadline {
            let g = shared.lock().unwrap();
            return CaseResult::Timeout(format!("only {} of 3 pending calls observed the close: {:?}", g.closes.len(), g.closes));
        }
        tokio::time::sleep(Duration::from_millis(2)).await;
    }
    drop(app_conn_opt);
    drop(held);
    // non-trivial: a stalled stream opened before a healthy one of the same kind
    let mut nt = false;
    for (k, it) in case.items.iter().enumerate() {
        if it.stalled && case.items[k + 1..].iter().any(|h| !h.stalled && h.bidi == it.bidi) {
            nt = true;
        }
    }
    let mut labels = vec![];
    for it in case.items.iter().filter(|i| i.stalled) {
        labels.push(match (case.variant % 2, it.pos % 6) {
            (1, _) => "stall:unawaited-opening",
            (_, 0) => "stall:no-byte",
            (_, 1) => "stall:partial-preamble",
            (_, 2) => "stall:complete-preamble",
            (_, 3) => "stall:unread-data",
            (_, 4) | (_, 5) if it.bidi => "stall:after-grease-frame",
            _ => "stall:type-without-session-id",
        });
    }
    if case.variant % 2 == 0 && case.wt_is_server && case.relay % 3 != 0 {
        labels.push(if case.relay % 3 == 1 { "relay:loss" } else { "relay:reorder" });
    }
    if ended_locally {
        labels.push("ending:local-close");
    }
    if backlog_ok {
        labels.push("datagram-backlog-delivered");
    }
    if dropped_all {
        labels.push("ending:handles-dropped");
    }
    if window_filled {
        labels.push("stall:unread-data-window-full");
        if case.default_config {
            labels.push("window-full+default-config");
        }
    }
    labels.sort();
    labels.dedup();
    CaseResult::Pass { nontrivial: nt, labels }
}

/// Waits until every healthy stream and (if any were sent) a datagram arrived.
async fn wait_delivery(shared: &Arc<Mutex<Shared>>, healthy_idx: &[usize], datagrams: u8) -> Option<CaseResult> {
    let deadline = tokio::time::Instant::now() + Duration::from_secs(5);
    loop {
        {
            let g = shared.lock().unwrap();
            if let Some(e) = g.errors.first() {
                return Some(viol("C07:io-error", e.clone()));
            }
            if let Some(c) = g.closes.first() {
                return Some(viol("C07:premature-close", format!("the session ended before the peer closed it: {c}")));
            }
            let all = healthy_idx.iter().all(|k| g.healthy.contains_key(k));
            if all && (datagrams == 0 || g.datagrams > 0) {
                for k in healthy_idx {
                    if g.healthy[k] != healthy_payload(*k) {
                        return Some(viol("C07:bytes", format!("healthy stream #{k} delivered with wrong bytes {}", short(&g.healthy[k]))));
                    }
                }
                return None;
            }
        }
        if tokio::time::Instant::now() >= deadline {
            let g = shared.lock().unwrap();
            let missing: Vec<usize> = healthy_idx.iter().filter(|k| !g.healthy.contains_key(k)).cloned().collect();
            return Some(CaseResult::Timeout(format!("healthy streams not delivered: {:?} (of {}); datagrams received {} of {} kinds sent", missing, healthy_idx.len(), g.datagrams, datagrams)));
        }
        tokio::time::sleep(Duration::from_millis(2)).await;
    }
}

pub fn exec(case: &Case) -> CaseResult {
    let c = Arc::new(case.clone());
    match run_on(case.flavor, Duration::from_secs(15), exec_async(c)) {
        Some(r) => r,
        None => CaseResult::Timeout("case did not finish in 15 s".into()),
    }
}

pub fn signature_of(case: &Case) -> String {
    // root-cause class: which kind of stream was stalled at which position
    let mut kinds: Vec<String> = case
        .items
        .iter()
        .filter(|i| i.stalled)
        .map(|i| format!("{}{}", if i.bidi { "bidi" } else { "uni" }, if case.variant % 2 == 1 { 9 } else { i.pos % 6 }))
        .collect();
    kinds.sort();
    kinds.dedup();
    format!("C07:blocked:{}", kinds.join("+"))
}

pub fn run(run: &Run) {
    run.set_rule(RULE);
    run.assume("the application keeps accepting and reads each delivered stream in its own task");
    prop_search(
        run,
        Search { check: "independence", cases: run.tier.pick(1200, 60000), workers: 8, max_shrink_iters: 60 },
        case_strategy,
        |c| judge(|| exec(c), true, "C07:blocked"),
        |c| serde_json::to_value(c).unwrap(),
    );
    for l in ["stall:no-byte", "stall:partial-preamble", "stall:complete-preamble", "stall:unread-data", "stall:unawaited-opening", "stall:unread-data-window-full", "window-full+default-config", "relay:loss", "relay:reorder", "stall:after-grease-frame", "stall:type-without-session-id", "ending:local-close", "ending:handles-dropped", "datagram-backlog-delivered"] {
        run.essential(l);
    }
}

pub fn replay(run: &Run, doc: &Value) -> bool {
    let Ok(case) = serde_json::from_value::<Case>(doc["case"].clone()) else {
        return false;
    };
    run.eval("independence", true, 1);
    for _ in 0..3 {
        if let Outcome::Fail { signature, message } = judge(|| exec(&case), true, "C07:blocked") {
            run.fail("independence", &signature, &message, doc["case"].clone());
            return true;
        }
    }
    true
}
