//! C12 (end-to-end half) — connection-level HTTP/3 / WebTransport rules enforced with the
//! prescribed error code.

use crate::common::*;
use proptest::prelude::*;
use refcodec::registry as reg;
use serde::{Deserialize, Serialize};
use serde_json::Value;
use std::sync::Arc;
use std::time::Duration;
use vcore::{prop_search, Outcome, Run, Search};
use wire::*;

const RULE: &str = "end-to-end: histories of 1..5 connection-level events sent by the raw peer on either role — answer of the raw server to the client's CONNECT in {HEADERS, GREASE / unknown frame then HEADERS, DATA first, SETTINGS first, WT signal first, any frame truncated by FIN}; control stream opened with {valid SETTINGS, DATA first, HEADERS first, GREASE first, reserved setting id, duplicated setting id}; then {duplicate control stream, QPACK encoder/decoder stream (+ duplicate), unknown / GREASE uni stream, FIN or RESET of a critical stream (control, QPACK encoder, QPACK decoder), STOP_SENDING on the endpoint's own control stream, a frame of any type (DATA, HEADERS, SETTINGS, GREASE, unknown, WT signal) cut short by FIN inside its type, inside its length, right after its length or inside its payload on the control stream / as first frame of a new bidi stream / on the session stream, uni stream finished or reset inside its type varint, DATA / HEADERS / second SETTINGS / oversize / GREASE frame on the control stream, request whose first frame is DATA or SETTINGS, GET request, CONNECT without :protocol, WT streams with valid and invalid session ids, GREASE then WT signal on a bidi stream, SETTINGS / HEADERS / WT signal / GREASE on the established session stream}. Reference model (RFC 9114 §4.1, §6.2, §6.2.1, §7.2.x, RFC 9204 §4.2, WT draft): each event maps to continue / refuse that stream (code) / close the connection (admissible code set). Oracle: the first closing event decides the CONNECTION_CLOSE code seen by the raw peer and the local API error; histories without a closing event leave the session usable (fresh stream echo), and refused requests carry the prescribed STOP_SENDING code. Non-trivial: the history contains an event whose prescribed reaction is not 'continue'; distinct = distinct history";

#[derive(Clone, Debug, Serialize, Deserialize, PartialEq)]
pub enum Ev {
    DuplicateControl,
    QpackEnc,
    QpackDec,
    UnknownUni(u64),
    FinControl,
    ResetControl,
    /// STOP_SENDING on the endpoint's own control stream
    StopLocalControl,
    FinQpackEnc,
    ResetQpackEnc,
    FinQpackDec,
    ResetQpackDec,
    UniFinInsideType,
    UniResetInsideType,
    UniFinBeforeAnyByte,
    ControlData,
    ControlHeaders,
    ControlSecondSettings,
    ControlOversize,
    ControlGrease,
    ControlTruncatedThenFin,
    /// a frame (type selector, cut selector) cut short by FIN on the control stream
    ControlTruncated(u8, u8),
    /// ... as the first frame of a new peer-initiated bidirectional stream
    RequestTruncated(u8, u8),
    /// ... on the established session stream
    SessionTruncated(u8, u8),
    RequestDataFirst,
    RequestSettingsFirst,
    RequestGet,
    RequestNoProtocol,
    WtUniValid,
    WtUniInvalid(u8),
    WtBiValid,
    WtBiInvalid(u8),
    BiGreaseThenWt,
    SessionSettings,
    SessionHeaders,
    SessionWtSignal,
    SessionGrease,
}

#[derive(Clone, Copy, Debug, Serialize, Deserialize, PartialEq)]
pub enum Pre {
    Valid,
    DataFirst,
    HeadersFirst,
    GreaseFirst,
    ReservedSetting(u8),
    DuplicateSetting,
}

/// What the raw server puts on the request stream in answer to the client's CONNECT
/// (wtransport client role only).
#[derive(Clone, Copy, Debug, Default, Serialize, Deserialize, PartialEq)]
pub enum Resp {
    #[default]
    Normal,
    GreaseFirst,
    UnknownFirst,
    DataFirst,
    SettingsFirst,
    WtSignalFirst,
    /// a frame cut short by FIN instead of the response
    Truncated(u8, u8),
}

#[derive(Clone, Debug, Serialize, Deserialize)]
pub struct Case {
    pub flavor: u8,
    pub wt_is_server: bool,
    pub pre: Pre,
    pub events: Vec<Ev>,
    #[serde(default)]
    pub resp: Resp,
}

#[derive(Clone, Debug, PartialEq)]
pub enum Reaction {
    Continue,
    /// the event's own stream is refused with STOP_SENDING of one of these codes
    Refuse(Vec<u64>),
    Close(Vec<u64>),
}

/// Reference model. `state` tracks which critical streams the peer has already opened.
#[derive(Default)]
struct Model {
    qenc: bool,
    qdec: bool,
}

impl Model {
    fn react(&mut self, ev: &Ev, wt_is_server: bool) -> Reaction {
        use Reaction::*;
        match ev {
            Ev::DuplicateControl => Close(vec![reg::H3_STREAM_CREATION_ERROR]),
            Ev::QpackEnc => {
                if std::mem::replace(&mut self.qenc, true) {
                    Close(vec![reg::H3_STREAM_CREATION_ERROR])
                } else {
                    Continue
                }
            }
            Ev::QpackDec => {
                if std::mem::replace(&mut self.qdec, true) {
                    Close(vec![reg::H3_STREAM_CREATION_ERROR])
                } else {
                    Continue
                }
            }
            Ev::UnknownUni(_) => Continue,
            Ev::FinControl | Ev::ResetControl | Ev::StopLocalControl => Close(vec![reg::H3_CLOSED_CRITICAL_STREAM]),
            Ev::FinQpackDec | Ev::ResetQpackDec => {
                if self.qdec {
                    Close(vec![reg::H3_CLOSED_CRITICAL_STREAM])
                } else {
                    Continue
                }
            }
            Ev::FinQpackEnc | Ev::ResetQpackEnc => {
                if self.qenc {
                    Close(vec![reg::H3_CLOSED_CRITICAL_STREAM])
                } else {
                    Continue
                }
            }
            // RFC 9114 §6.2: "A receiver MUST tolerate unidirectional streams being closed or reset
            // prior to the reception of the unidirectional stream header."
            Ev::UniFinInsideType | Ev::UniResetInsideType | Ev::UniFinBeforeAnyByte => Continue,
            Ev::ControlData | Ev::ControlHeaders | Ev::ControlSecondSettings => Close(vec![reg::H3_FRAME_UNEXPECTED]),
            Ev::ControlOversize => Close(vec![reg::H3_EXCESSIVE_LOAD]),
            Ev::ControlGrease => Continue,
            // RFC 9114 §7.1 (truncated frame: H3_FRAME_ERROR) and §6.2.1 (closed critical stream) both apply
            Ev::ControlTruncatedThenFin | Ev::ControlTruncated(..) => Close(vec![reg::H3_FRAME_ERROR, reg::H3_CLOSED_CRITICAL_STREAM]),
            // RFC 9114 §7.1: "A frame truncated by stream end MUST be treated as a connection error of type H3_FRAME_ERROR"
            Ev::RequestTruncated(..) | Ev::SessionTruncated(..) => Close(vec![reg::H3_FRAME_ERROR]),
            Ev::RequestDataFirst | Ev::RequestSettingsFirst => Close(vec![reg::H3_FRAME_UNEXPECTED]),
            Ev::RequestGet => {
                if wt_is_server {
                    Refuse(vec![reg::H3_REQUEST_REJECTED])
                } else {
                    Continue
                }
            }
            Ev::RequestNoProtocol => {
                if wt_is_server {
                    Refuse(vec![reg::H3_MESSAGE_ERROR, reg::H3_REQUEST_REJECTED])
                } else {
                    Continue
                }
            }
            Ev::WtUniValid | Ev::WtBiValid => Continue,
            Ev::WtUniInvalid(_) | Ev::WtBiInvalid(_) => Close(vec![reg::H3_ID_ERROR]),
            Ev::BiGreaseThenWt => Close(vec![reg::H3_FRAME_ERROR]),
            Ev::SessionSettings => Close(vec![reg::H3_FRAME_UNEXPECTED]),
            Ev::SessionHeaders | Ev::SessionGrease => Continue,
            Ev::SessionWtSignal => Close(vec![reg::H3_FRAME_UNEXPECTED, reg::H3_FRAME_ERROR]),
        }
    }
}

fn pre_reaction(pre: Pre) -> Reaction {
    match pre {
        Pre::Valid => Reaction::Continue,
        Pre::DataFirst | Pre::HeadersFirst => Reaction::Close(vec![reg::H3_MISSING_SETTINGS, reg::H3_FRAME_UNEXPECTED]),
        // GREASE before SETTINGS: "SETTINGS MUST be the first frame" -> MISSING_SETTINGS; tolerating it is not forbidden
        Pre::GreaseFirst => Reaction::Close(vec![reg::H3_MISSING_SETTINGS]),
        Pre::ReservedSetting(_) => Reaction::Close(vec![reg::H3_SETTINGS_ERROR]),
        Pre::DuplicateSetting => Reaction::Close(vec![reg::H3_SETTINGS_ERROR]),
    }
}

fn resp_reaction(resp: Resp) -> Reaction {
    match resp {
        Resp::Normal | Resp::GreaseFirst | Resp::UnknownFirst => Reaction::Continue,
        // RFC 9114 §4.1: a DATA frame before any HEADERS frame is an invalid sequence -> H3_FRAME_UNEXPECTED
        Resp::DataFirst => Reaction::Close(vec![reg::H3_FRAME_UNEXPECTED]),
        // §7.2.4: SETTINGS on a request stream
        Resp::SettingsFirst => Reaction::Close(vec![reg::H3_FRAME_UNEXPECTED]),
        Resp::WtSignalFirst => Reaction::Close(vec![reg::H3_FRAME_UNEXPECTED, reg::H3_FRAME_ERROR]),
        Resp::Truncated(..) => Reaction::Close(vec![reg::H3_FRAME_ERROR]),
    }
}

fn resp_bytes(resp: Resp, session: u64) -> Vec<u8> {
    let ok = response_frame("200", &[]);
    let mut v = match resp {
        Resp::Normal => vec![],
        Resp::GreaseFirst => refcodec::enc_frame(refcodec::grease(8), b"before the response"),
        Resp::UnknownFirst => refcodec::enc_frame(0x0f, b"unknown"),
        Resp::DataFirst => refcodec::enc_frame(reg::FRAME_DATA, b"early-body"),
        Resp::SettingsFirst => refcodec::enc_frame(reg::FRAME_SETTINGS, &[]),
        Resp::WtSignalFirst => refcodec::enc_bi_header_wt(session),
        Resp::Truncated(sel, cut) => return truncated_frame(sel, cut),
    };
    v.extend(ok);
    v
}

fn ev_strategy() -> impl Strategy<Value = Ev> {
    prop_oneof![
        Just(Ev::DuplicateControl),
        Just(Ev::QpackEnc),
        Just(Ev::QpackDec),
        prop_oneof![Just(0x3fu64), Just(0x04), Just(0x21), Just(0x4242), (6u64..1 << 40).prop_filter("not wt", |t| *t != 0x54)].prop_map(Ev::UnknownUni),
        Just(Ev::FinControl),
        Just(Ev::ResetControl),
        Just(Ev::StopLocalControl),
        Just(Ev::FinQpackEnc),
        Just(Ev::ResetQpackEnc),
        Just(Ev::FinQpackDec),
        Just(Ev::ResetQpackDec),
        Just(Ev::UniFinInsideType),
        Just(Ev::UniResetInsideType),
        Just(Ev::UniFinBeforeAnyByte),
        Just(Ev::ControlData),
        Just(Ev::ControlHeaders),
        Just(Ev::ControlSecondSettings),
        Just(Ev::ControlOversize),
        Just(Ev::ControlGrease),
        Just(Ev::ControlTruncatedThenFin),
        (any::<u8>(), any::<u8>()).prop_map(|(a, b)| Ev::ControlTruncated(a, b)),
        (any::<u8>(), any::<u8>()).prop_map(|(a, b)| Ev::RequestTruncated(a, b)),
        (any::<u8>(), any::<u8>()).prop_map(|(a, b)| Ev::RequestTruncated(a, b)),
        (any::<u8>(), any::<u8>()).prop_map(|(a, b)| Ev::SessionTruncated(a, b)),
        Just(Ev::RequestDataFirst),
        Just(Ev::RequestSettingsFirst),
        Just(Ev::RequestGet),
        Just(Ev::RequestNoProtocol),
        Just(Ev::WtUniValid),
        (1u8..4).prop_map(Ev::WtUniInvalid),
        Just(Ev::WtBiValid),
        (1u8..4).prop_map(Ev::WtBiInvalid),
        Just(Ev::BiGreaseThenWt),
        Just(Ev::SessionSettings),
        Just(Ev::SessionHeaders),
        Just(Ev::SessionWtSignal),
        Just(Ev::SessionGrease),
    ]
}

pub fn case_strategy() -> impl Strategy<Value = Case> {
    let pre = prop_oneof![8 => Just(Pre::Valid), 1 => Just(Pre::DataFirst), 1 => Just(Pre::HeadersFirst), 1 => Just(Pre::GreaseFirst), 1 => (0u8..5).prop_map(Pre::ReservedSetting), 1 => Just(Pre::DuplicateSetting)];
    let resp = prop_oneof![
        6 => Just(Resp::Normal),
        1 => Just(Resp::GreaseFirst),
        1 => Just(Resp::UnknownFirst),
        1 => Just(Resp::DataFirst),
        1 => Just(Resp::SettingsFirst),
        1 => Just(Resp::WtSignalFirst),
        1 => (any::<u8>(), any::<u8>()).prop_map(|(a, b)| Resp::Truncated(a, b)),
    ];
    (0u8..3, any::<bool>(), pre, proptest::collection::vec(ev_strategy(), 1..6), resp).prop_map(|(flavor, wt_is_server, pre, events, resp)| Case { flavor, wt_is_server, pre, events, resp: if wt_is_server { Resp::Normal } else { resp } })
}

/// A frame cut short: type by `sel` (DATA, HEADERS, SETTINGS, 1- and 2-byte GREASE, three unknown
/// types of 1, 2 and 8 bytes, WT signal), cut point by `cut` (inside the type, inside the length /
/// session id, right after the length, inside the payload).
pub fn truncated_frame(sel: u8, cut: u8) -> Vec<u8> {
    let ty = match sel % 9 {
        0 => reg::FRAME_DATA,
        1 => reg::FRAME_HEADERS,
        2 => reg::FRAME_SETTINGS,
        3 => refcodec::grease(2),
        4 => refcodec::grease(700),
        5 => 0x0f,
        6 => 0x1234,
        7 => 0x1122_3344_5566,
        _ => reg::FRAME_WT_STREAM,
    };
    let tyb = refcodec::enc_varint(ty);
    let wt = ty == reg::FRAME_WT_STREAM;
    let mut cut = cut % 4;
    if cut == 0 && tyb.len() == 1 {
        cut = 1;
    }
    if wt && cut >= 2 {
        cut = 1;
    }
    match cut {
        // inside the type varint
        0 => tyb[..tyb.len() - 1].to_vec(),
        // inside the length (2-byte encoding) / the session id
        1 => {
            let mut v = tyb;
            v.push(0x41);
            v
        }
        // right after the length: no payload byte at all
        2 => {
            let mut v = tyb;
            v.push(5);
            v
        }
        // inside the payload
        _ => {
            let mut v = tyb;
            v.push(5);
            v.extend_from_slice(&[0, 0]);
            v
        }
    }
}

fn control_preamble_for(pre: Pre) -> Vec<u8> {
    let mut v = refcodec::enc_varint(reg::STREAM_CONTROL);
    let settings = |pairs: &[(u64, u64)]| refcodec::enc_frame(reg::FRAME_SETTINGS, &refcodec::enc_settings(pairs));
    match pre {
        Pre::Valid => v.extend(settings(&default_settings())),
        Pre::DataFirst => {
            v.extend(refcodec::enc_frame(reg::FRAME_DATA, b"x"));
            v.extend(settings(&default_settings()));
        }
        Pre::HeadersFirst => {
            v.extend(refcodec::enc_frame(reg::FRAME_HEADERS, &[0, 0]));
            v.extend(settings(&default_settings()));
        }
        Pre::GreaseFirst => {
            v.extend(refcodec::enc_frame(refcodec::grease(2), b"g"));
            v.extend(settings(&default_settings()));
        }
        Pre::ReservedSetting(k) => {
            let mut p = default_settings();
            p.insert(2, ([0u64, 2, 3, 4, 5][k as usize % 5], 1));
            v.extend(settings(&p));
        }
        Pre::DuplicateSetting => {
            let mut p = default_settings();
            p.push((reg::SETTINGS_H3_DATAGRAM, 1));
            v.extend(settings(&p));
        }
    }
    v
}

struct Peer {
    conn: quinn::Connection,
    control: quinn::SendStream,
    req_send: Option<quinn::SendStream>,
    qenc: Option<quinn::SendStream>,
    qdec: Option<quinn::SendStream>,
    session: u64,
    held: Vec<Box<dyn std::any::Any + Send>>,
    local_control: Option<quinn::RecvStream>,
}

impl Peer {
    /// Plays one event; returns the send half of the event's own stream when the model may refuse it.
    async fn play(&mut self, ev: &Ev, authority: &str) -> Option<quinn::SendStream> {
        let frame = refcodec::enc_frame;
        match ev {
            Ev::DuplicateControl => {
                if let Ok(mut s) = self.conn.open_uni().await {
                    let _ = s.write_all(&control_preamble(&default_settings())).await;
                    self.held.push(Box::new(s));
                }
            }
            Ev::QpackEnc | Ev::QpackDec => {
                if let Ok(mut s) = self.conn.open_uni().await {
                    let ty = if *ev == Ev::QpackEnc { reg::STREAM_QPACK_ENCODER } else { reg::STREAM_QPACK_DECODER };
                    let _ = s.write_all(&refcodec::enc_varint(ty)).await;
                    if *ev == Ev::QpackEnc && self.qenc.is_none() {
                        self.qenc = Some(s);
                    } else if *ev == Ev::QpackDec && self.qdec.is_none() {
                        self.qdec = Some(s);
                    } else {
                        self.held.push(Box::new(s));
                    }
                }
            }
            Ev::UnknownUni(t) => {
                if let Ok(mut s) = self.conn.open_uni().await {
                    let mut b = refcodec::enc_varint(*t);
                    b.extend_from_slice(b"opaque");
                    let _ = s.write_all(&b).await;
                    self.held.push(Box::new(s));
                }
            }
            Ev::FinControl => {
                let _ = self.control.finish();
            }
            Ev::ResetControl => {
                let _ = self.control.reset(vi(0));
            }
            Ev::StopLocalControl => {
                if self.local_control.is_none() {
                    let conn = self.conn.clone();
                    let find = async {
                        loop {
                            let Ok(mut r) = conn.accept_uni().await else { return None };
                            let mut b = [0u8; 1];
                            if let Ok(()) = r.read_exact(&mut b).await {
                                if b[0] == 0x00 {
                                    return Some(r);
                                }
                            }
                        }
                    };
                    if let Ok(Some(r)) = tokio::time::timeout(Duration::from_secs(3), find).await {
                        self.local_control = Some(r);
                    }
                }
                if let Some(r) = self.local_control.as_mut() {
                    let _ = r.stop(vi(0x10c));
                }
            }
            Ev::FinQpackEnc => {
                if let Some(s) = self.qenc.as_mut() {
                    let _ = s.finish();
                }
            }
            Ev::ResetQpackEnc => {
                if let Some(s) = self.qenc.as_mut() {
                    let _ = s.reset(vi(1));
                }
            }
            Ev::FinQpackDec => {
                if let Some(s) = self.qdec.as_mut() {
                    let _ = s.finish();
                }
            }
            Ev::ResetQpackDec => {
                if let Some(s) = self.qdec.as_mut() {
                    let _ = s.reset(vi(1));
                }
            }
            Ev::UniFinInsideType | Ev::UniResetInsideType | Ev::UniFinBeforeAnyByte => {
                if let Ok(mut s) = self.conn.open_uni().await {
                    if *ev != Ev::UniFinBeforeAnyByte {
                        let _ = s.write_all(&[0x40]).await;
                        flush_acked(&self.conn, Duration::from_millis(100)).await;
                    }
                    if *ev == Ev::UniResetInsideType {
                        let _ = s.reset(vi(9));
                    } else {
                        let _ = s.finish();
                    }
                    self.held.push(Box::new(s));
                }
            }
            Ev::ControlData => {
                let _ = self.control.write_all(&frame(reg::FRAME_DATA, b"d")).await;
            }
            Ev::ControlHeaders => {
                let _ = self.control.write_all(&frame(reg::FRAME_HEADERS, &[0, 0])).await;
            }
            Ev::ControlSecondSettings => {
                let _ = self.control.write_all(&frame(reg::FRAME_SETTINGS, &[])).await;
            }
            Ev::ControlOversize => {
                let _ = self.control.write_all(&refcodec::enc_frame_header(refcodec::grease(1), 5000)).await;
            }
            Ev::ControlGrease => {
                let _ = self.control.write_all(&frame(refcodec::grease(11), b"grease")).await;
            }
            Ev::ControlTruncatedThenFin => {
                let mut b = refcodec::enc_frame_header(refcodec::grease(1), 20);
                b.extend_from_slice(b"abc");
                let _ = self.control.write_all(&b).await;
                let _ = self.control.finish();
            }
            Ev::ControlTruncated(sel, cut) => {
                let _ = self.control.write_all(&truncated_frame(*sel, *cut)).await;
                let _ = self.control.finish();
            }
            Ev::RequestTruncated(sel, cut) => {
                if let Ok((mut s, r)) = self.conn.open_bi().await {
                    let _ = s.write_all(&truncated_frame(*sel, *cut)).await;
                    let _ = s.finish();
                    self.held.push(Box::new((s, r)));
                }
            }
            Ev::SessionTruncated(sel, cut) => {
                if let Some(s) = self.req_send.as_mut() {
                    let _ = s.write_all(&truncated_frame(*sel, *cut)).await;
                    let _ = s.finish();
                }
            }
            Ev::RequestDataFirst | Ev::RequestSettingsFirst | Ev::RequestGet | Ev::RequestNoProtocol => {
                if let Ok((mut s, r)) = self.conn.open_bi().await {
                    let b = match ev {
                        Ev::RequestDataFirst => frame(reg::FRAME_DATA, b"body"),
                        Ev::RequestSettingsFirst => frame(reg::FRAME_SETTINGS, &[]),
                        Ev::RequestGet => headers_frame(&[(":method".into(), "GET".into(), Default::default()), (":scheme".into(), "https".into(), Default::default()), (":authority".into(), authority.into(), Default::default()), (":path".into(), "/".into(), Default::default())]),
                        _ => headers_frame(&[(":method".into(), "CONNECT".into(), Default::default()), (":scheme".into(), "https".into(), Default::default()), (":authority".into(), authority.into(), Default::default()), (":path".into(), "/".into(), Default::default())]),
                    };
                    let _ = s.write_all(&b).await;
                    self.held.push(Box::new(r));
                    return Some(s);
                }
            }
            Ev::WtUniValid => {
                if let Ok(mut s) = raw_open_wt_uni(&self.conn, self.session).await {
                    let _ = s.write_all(b"ok").await;
                    self.held.push(Box::new(s));
                }
            }
            Ev::WtUniInvalid(k) => {
                if let Ok(mut s) = self.conn.open_uni().await {
                    let _ = s.write_all(&refcodec::enc_uni_header_wt(self.session + *k as u64)).await;
                    self.held.push(Box::new(s));
                }
            }
            Ev::WtBiValid => {
                if let Ok((mut s, r)) = raw_open_wt_bi(&self.conn, self.session).await {
                    let _ = s.write_all(b"ok").await;
                    self.held.push(Box::new((s, r)));
                }
            }
            Ev::WtBiInvalid(k) => {
                if let Ok((mut s, r)) = self.conn.open_bi().await {
                    let _ = s.write_all(&refcodec::enc_bi_header_wt(self.session + *k as u64)).await;
                    self.held.push(Box::new((s, r)));
                }
            }
            Ev::BiGreaseThenWt => {
                if let Ok((mut s, r)) = self.conn.open_bi().await {
                    let mut b = frame(refcodec::grease(4), b"g");
                    b.extend(refcodec::enc_bi_header_wt(self.session));
                    let _ = s.write_all(&b).await;
                    self.held.push(Box::new((s, r)));
                }
            }
            Ev::SessionSettings | Ev::SessionHeaders | Ev::SessionWtSignal | Ev::SessionGrease => {
                if let Some(s) = self.req_send.as_mut() {
                    let b = match ev {
                        Ev::SessionSettings => frame(reg::FRAME_SETTINGS, &[]),
                        Ev::SessionHeaders => frame(reg::FRAME_HEADERS, &[0, 0]),
                        Ev::SessionWtSignal => refcodec::enc_bi_header_wt(self.session),
                        _ => frame(refcodec::grease(6), b"gg"),
                    };
                    let _ = s.write_all(&b).await;
                }
            }
        }
        None
    }
}

async fn exec_async(case: Arc<Case>) -> CaseResult {
    let t = Tuning::default();
    let resp = if case.wt_is_server { Resp::Normal } else { case.resp };
    let pre_react = match pre_reaction(case.pre) {
        Reaction::Continue => resp_reaction(resp),
        r => r,
    };
    // --- establish (or fail to) with the chosen control-stream opening
    let app: Option<wtransport::Connection>;
    let mut peer: Peer;
    let establish_err: Option<String>;
    let authority: String;
    let _keep: Box<dyn std::any::Any + Send>;
    if case.wt_is_server {
        let server_ep = wt_server(&t);
        let addr = server_ep.local_addr().unwrap();
        authority = addr.to_string();
        let accept = async {
            let incoming = server_ep.accept().await;
            let req = incoming.await.map_err(|e| conn_err(&e))?;
            req.accept().await.map_err(|e| conn_err(&e))
        };
        let pre = case.pre;
        let auth2 = authority.clone();
        let client = async {
            let (ep, conn) = raw_connect(addr, &t).await?;
            let mut control = conn.open_uni().await.map_err(|e| e.to_string())?;
            control.write_all(&control_preamble_for(pre)).await.map_err(|e| e.to_string())?;
            let (mut rs, mut rr) = conn.open_bi().await.map_err(|e| e.to_string())?;
            let sid = quinn::VarInt::from(rs.id()).into_inner();
            rs.write_all(&headers_frame(&connect_request_fields(&auth2, "/c12"))).await.map_err(|e| e.to_string())?;
            let mut buf = Vec::new();
            let resp = read_frame_of(&mut rr, &mut buf, &[reg::FRAME_HEADERS], Duration::from_secs(3)).await;
            Ok::<_, String>((ep, conn, control, rs, rr, sid, resp.is_ok()))
        };
        let (s, c) = tokio::join!(tokio::time::timeout(Duration::from_secs(4), accept), client);
        let (ep, conn, control, rs, rr, sid, _got) = match c {
            Ok(x) => x,
            Err(e) => return CaseResult::Skip(e),
        };
        match s {
            Ok(Ok(a)) => {
                app = Some(a);
                establish_err = None;
            }
            Ok(Err(e)) => {
                app = None;
                establish_err = Some(e);
            }
            Err(_) => {
                app = None;
                establish_err = Some("timeout".into());
            }
        }
        peer = Peer { conn, control, req_send: Some(rs), qenc: None, qdec: None, session: sid, held: vec![Box::new(rr)], local_control: None };
        _keep = Box::new((server_ep, ep));
    } else {
        let (raw_ep, addr) = match raw_server(&t) {
            Ok(x) => x,
            Err(e) => return CaseResult::Skip(e),
        };
        authority = addr.to_string();
        let client_ep = wt_client(&t);
        let pre = case.pre;
        let serve = async {
            let incoming = tokio::time::timeout(Duration::from_secs(5), raw_ep.accept()).await.map_err(|_| "no incoming")?.ok_or("closed")?;
            let conn = incoming.await.map_err(|e| e.to_string())?;
            let mut control = conn.open_uni().await.map_err(|e| e.to_string())?;
            control.write_all(&control_preamble_for(pre)).await.map_err(|e| e.to_string())?;
            // the request arrives only if the client accepted our SETTINGS
            match tokio::time::timeout(Duration::from_secs(3), conn.accept_bi()).await {
                Ok(Ok((mut rs, mut rr))) => {
                    let sid = quinn::VarInt::from(rs.id()).into_inner();
                    let mut buf = Vec::new();
                    let _ = read_frame_of(&mut rr, &mut buf, &[reg::FRAME_HEADERS], Duration::from_secs(3)).await;
                    let _ = rs.write_all(&resp_bytes(resp, sid)).await;
                    if matches!(resp, Resp::Truncated(..)) {
                        let _ = rs.finish();
                    }
                    Ok::<_, String>((conn, control, Some(rs), Some(rr), sid))
                }
                _ => Ok((conn, control, None, None, 0)),
            }
        };
        let (s, c) = tokio::join!(serve, tokio::time::timeout(Duration::from_secs(6), client_ep.connect(url_for(addr, "/c12"))));
        let (conn, control, rs, rr, sid) = match s {
            Ok(x) => x,
            Err(e) => return CaseResult::Skip(e),
        };
        match c {
            Ok(Ok(a)) => {
                app = Some(a);
                establish_err = None;
            }
            Ok(Err(e)) => {
                app = None;
                establish_err = Some(match e {
                    wtransport::error::ConnectingError::ConnectionError(ce) => conn_err(&ce),
                    other => other.to_string(),
                });
            }
            Err(_) => {
                app = None;
                establish_err = Some("timeout".into());
            }
        }
        peer = Peer { conn, control, req_send: rs, qenc: None, qdec: None, session: sid, held: vec![Box::new(rr)], local_control: None };
        _keep = Box::new((client_ep, raw_ep));
    }
    let mut labels: Vec<&'static str> = vec![if case.wt_is_server { "role:server" } else { "role:client" }];
    // --- the control-stream opening itself
    if let Reaction::Close(codes) = &pre_react {
        labels.push("pre:closing");
        let seen = tokio::time::timeout(Duration::from_secs(4), peer.conn.closed()).await;
        return match seen {
            Ok(e) => match close_seen(&e) {
                CloseSeen::Application(c, _) if codes.contains(&c) => {
                    // local API error names the same code
                    match &establish_err {
                        Some(err) if codes.iter().any(|c| err == &format!("LocalH3Error({})", h3_display(*c))) || err == "LocallyClosed" => CaseResult::Pass { nontrivial: true, labels },
                        other => viol("C12:e2e:local-error", format!("control stream opened with {:?}, response {:?}: peer saw close {c:#x} but the local API reported {:?}", case.pre, resp, other)),
                    }
                }
                other => viol(format!("C12:e2e:pre:{:?}:{}", case.pre, resp_name(resp)), format!("control stream opened with {:?}, response {:?}: peer saw {:?}, prescribed CONNECTION_CLOSE with one of {:x?}", case.pre, resp, other, codes)),
            },
            Err(_) => viol(format!("C12:e2e:pre:{:?}:{}", case.pre, resp_name(resp)), format!("control stream opened with {:?}, response {:?}: the endpoint did not close the connection (prescribed {:x?}); establishment result {:?}", case.pre, resp, codes, establish_err)),
        };
    }
    let Some(app) = app else {
        return viol("C12:e2e:valid-rejected", format!("a valid exchange was not established: {:?}", establish_err));
    };
    // pending peer-waiting call to observe the local error
    let local = {
        let a = app.clone();
        tokio::spawn(async move {
            loop {
                match a.accept_bi().await {
                    Ok(_) => continue,
                    Err(e) => return conn_err(&e),
                }
            }
        })
    };
    // the application also keeps draining uni streams so that valid WT streams are consumed
    let drain = {
        let a = app.clone();
        tokio::spawn(async move { while a.accept_uni().await.is_ok() {} })
    };
    let mut model = Model::default();
    let mut nontrivial = false;
    for (i, ev) in case.events.iter().enumerate() {
        if peer.req_send.is_none() && matches!(ev, Ev::SessionSettings | Ev::SessionHeaders | Ev::SessionWtSignal | Ev::SessionGrease | Ev::SessionTruncated(..)) {
            continue;
        }
        let react = model.react(ev, case.wt_is_server);
        let own = peer.play(ev, &authority).await;
        match react {
            Reaction::Continue => {
                tokio::time::sleep(Duration::from_millis(25)).await;
                if let Some(e) = peer.conn.close_reason() {
                    return viol(format!("C12:e2e:closed-on:{}", ev_name(ev)), format!("event #{i} {:?} is permitted but the endpoint closed the connection: {:?} (history {:?})", ev, close_seen(&e), &case.events[..=i]));
                }
                if let Some(s) = own {
                    peer.held.push(Box::new(s));
                }
            }
            Reaction::Refuse(codes) => {
                nontrivial = true;
                labels.push("reaction:refuse-stream");
                let mut s = own.expect("request stream");
                match tokio::time::timeout(Duration::from_secs(4), s.stopped()).await {
                    Ok(Ok(Some(c))) if codes.contains(&c.into_inner()) => {}
                    other => {
                        return viol(format!("C12:e2e:refusal:{}", ev_name(ev)), format!("event #{i} {:?}: the request stream was answered with {:?}, prescribed STOP_SENDING with one of {:x?}; connection {:?}", ev, other.map(|r| r.map(|c| c.map(|v| v.into_inner()))), codes, peer.conn.close_reason().map(|e| close_seen(&e))));
                    }
                }
                if let Some(e) = peer.conn.close_reason() {
                    return viol(format!("C12:e2e:closed-on:{}", ev_name(ev)), format!("refusing {:?} must not close the connection, peer saw {:?}", ev, close_seen(&e)));
                }
                peer.held.push(Box::new(s));
            }
            Reaction::Close(codes) => {
                labels.push("reaction:close");
                let seen = tokio::time::timeout(Duration::from_secs(4), peer.conn.closed()).await;
                let code = match seen {
                    Ok(e) => match close_seen(&e) {
                        CloseSeen::Application(c, _) if codes.contains(&c) => c,
                        other => return viol(format!("C12:e2e:code:{}", ev_name(ev)), format!("event #{i} {:?}: peer saw {:?}, prescribed CONNECTION_CLOSE with one of {:x?} (history {:?})", ev, other, codes, &case.events[..=i])),
                    },
                    Err(_) => return viol(format!("C12:e2e:accepted:{}", ev_name(ev)), format!("event #{i} {:?} is prohibited (prescribed {:x?}) but the connection stays open (history {:?})", ev, codes, &case.events[..=i])),
                };
                match tokio::time::timeout(Duration::from_secs(4), local).await {
                    Ok(Ok(err)) => {
                        if err != format!("LocalH3Error({})", h3_display(code)) && err != "LocallyClosed" {
                            return viol("C12:e2e:local-error", format!("event {:?}: wire code {code:#x} but the local API reported {err}", ev));
                        }
                    }
                    _ => return CaseResult::Timeout("pending accept_bi did not fail after the protocol error".into()),
                }
                drain.abort();
                return CaseResult::Pass { nontrivial: true, labels };
            }
        }
    }
    // no closing event: the session is still usable
    let echo = async {
        let mut s = raw_open_wt_bi(&peer.conn, peer.session).await?;
        s.0.write_all(b"fresh-exchange").await.map_err(|e| e.to_string())?;
        let _ = s.0.finish();
        Ok::<_, String>(s)
    };
    let sent = echo.await;
    drain.abort();
    tokio::time::sleep(Duration::from_millis(60)).await;
    if let Some(e) = peer.conn.close_reason() {
        return viol("C12:e2e:closed-late", format!("history {:?} contains no prohibited event but the connection ended: {:?}", case.events, close_seen(&e)));
    }
    if sent.is_err() {
        return viol("C12:e2e:unusable", "a fresh stream could not be opened after a permitted history".to_string());
    }
    local.abort();
    CaseResult::Pass { nontrivial, labels }
}

fn resp_name(r: Resp) -> String {
    let s = format!("{r:?}");
    s.split('(').next().unwrap_or("").to_string()
}

fn ev_name(e: &Ev) -> String {
    let s = format!("{e:?}");
    s.split('(').next().unwrap_or("").to_string()
}

pub fn exec(case: &Case) -> CaseResult {
    let c = Arc::new(case.clone());
    match run_on(case.flavor, Duration::from_secs(40), exec_async(c)) {
        Some(r) => r,
        None => CaseResult::Timeout("case did not finish in 40 s".into()),
    }
}

pub fn run(run: &Run) {
    run.set_rule(RULE);
    run.trust("reaction table in echecks/src/c12.rs transcribed from RFC 9114 §4.1, §6.2, §6.2.1, §7.2.x, RFC 9204 §4.2 and draft-ietf-webtrans-http3 (sets where the specifications overlap)");
    // every single event once, on both roles
    let singles = [
        Ev::DuplicateControl, Ev::QpackEnc, Ev::QpackDec, Ev::UnknownUni(0x3f), Ev::FinControl, Ev::ResetControl, Ev::StopLocalControl, Ev::UniFinInsideType, Ev::UniResetInsideType, Ev::UniFinBeforeAnyByte,
        Ev::ControlData, Ev::ControlHeaders, Ev::ControlSecondSettings, Ev::ControlOversize, Ev::ControlGrease, Ev::ControlTruncatedThenFin, Ev::RequestDataFirst, Ev::RequestSettingsFirst,
        Ev::RequestGet, Ev::RequestNoProtocol, Ev::WtUniValid, Ev::WtUniInvalid(1), Ev::WtUniInvalid(2), Ev::WtUniInvalid(3), Ev::WtBiValid, Ev::WtBiInvalid(1), Ev::WtBiInvalid(2), Ev::WtBiInvalid(3),
        Ev::BiGreaseThenWt, Ev::SessionSettings, Ev::SessionHeaders, Ev::SessionWtSignal, Ev::SessionGrease,
    ];
    let mut table: Vec<Case> = Vec::new();
    // every (frame type, cut point) of a frame truncated by FIN, on each of the three stream roles
    for wt_is_server in [true, false] {
        for sel in 0..9u8 {
            for cut in 0..4u8 {
                let k = (sel + cut) % 3;
                table.push(Case { flavor: k, wt_is_server, pre: Pre::Valid, events: vec![Ev::RequestTruncated(sel, cut)], resp: Resp::Normal });
                if (sel + cut) % 2 == 0 {
                    table.push(Case { flavor: k, wt_is_server, pre: Pre::Valid, events: vec![Ev::ControlTruncated(sel, cut)], resp: Resp::Normal });
                } else {
                    table.push(Case { flavor: k, wt_is_server, pre: Pre::Valid, events: vec![Ev::SessionTruncated(sel, cut)], resp: Resp::Normal });
                }
            }
        }
    }
    for wt_is_server in [true, false] {
        for (i, e) in singles.iter().enumerate() {
            table.push(Case { flavor: (i % 3) as u8, wt_is_server, pre: Pre::Valid, events: vec![e.clone()], resp: Resp::Normal });
            table.push(Case { flavor: (i % 3) as u8, wt_is_server, pre: Pre::Valid, events: vec![Ev::QpackEnc, e.clone()], resp: Resp::Normal });
        }
        for pre in [Pre::DataFirst, Pre::HeadersFirst, Pre::GreaseFirst, Pre::ReservedSetting(0), Pre::ReservedSetting(1), Pre::ReservedSetting(2), Pre::ReservedSetting(3), Pre::ReservedSetting(4), Pre::DuplicateSetting] {
            table.push(Case { flavor: 0, wt_is_server, pre, events: vec![Ev::ControlGrease], resp: Resp::Normal });
        }
    }
    // the QPACK streams: duplicates and closures of each of them
    for wt_is_server in [true, false] {
        for (i, evs) in [vec![Ev::QpackDec, Ev::QpackDec], vec![Ev::QpackEnc, Ev::QpackEnc], vec![Ev::QpackEnc, Ev::FinQpackEnc], vec![Ev::QpackDec, Ev::FinQpackDec], vec![Ev::QpackDec, Ev::ResetQpackDec], vec![Ev::QpackEnc, Ev::ResetQpackEnc], vec![Ev::QpackEnc, Ev::QpackDec, Ev::FinQpackDec], vec![Ev::FinQpackDec, Ev::ResetQpackEnc, Ev::ControlGrease]].into_iter().enumerate() {
            table.push(Case { flavor: (i % 3) as u8, wt_is_server, pre: Pre::Valid, events: evs, resp: Resp::Normal });
        }
    }
    // every answer the raw server can give to the client's CONNECT
    for (i, resp) in [Resp::GreaseFirst, Resp::UnknownFirst, Resp::DataFirst, Resp::SettingsFirst, Resp::WtSignalFirst].into_iter().enumerate() {
        table.push(Case { flavor: (i % 3) as u8, wt_is_server: false, pre: Pre::Valid, events: vec![Ev::ControlGrease], resp });
    }
    for sel in 0..9u8 {
        for cut in 0..4u8 {
            table.push(Case { flavor: (sel + cut) % 3, wt_is_server: false, pre: Pre::Valid, events: vec![Ev::WtUniValid], resp: Resp::Truncated(sel, cut) });
        }
    }
    for case in &table {
        match judge(|| exec(case), false, "C12:e2e:hang") {
            Outcome::Pass { nontrivial, labels } => {
                run.eval("event-table", nontrivial, vcore::hash64(&format!("{case:?}")));
                for l in labels {
                    run.label(l);
                }
                if nontrivial && run.wants_sample("event-table") {
                    run.sample("event-table", || serde_json::to_value(case).unwrap());
                }
            }
            Outcome::Fail { signature, message } => {
                run.eval("event-table", false, 0);
                run.fail("histories-e2e", &signature, &message, serde_json::to_value(case).unwrap());
            }
            Outcome::Inconclusive(w) => run.inconclusive(&w),
        }
    }
    run.section_exhaustive("event-table", true, "every single event (alone and after a QPACK encoder stream), every (frame type, cut point) truncation on the three stream roles and every control-stream opening variant, on both roles");
    prop_search(
        run,
        Search { check: "histories-e2e", cases: run.tier.pick(800, 40000), workers: 8, max_shrink_iters: 80 },
        case_strategy,
        |c| judge(|| exec(c), false, "C12:e2e:hang"),
        |c| serde_json::to_value(c).unwrap(),
    );
    for l in ["role:server", "role:client", "pre:closing", "reaction:refuse-stream", "reaction:close"] {
        run.essential(l);
    }
}

pub fn replay(run: &Run, doc: &Value) -> bool {
    if doc["check"].as_str() != Some("histories-e2e") {
        return false;
    }
    let Ok(case) = serde_json::from_value::<Case>(doc["case"].clone()) else {
        return false;
    };
    run.eval("histories-e2e", true, 1);
    for _ in 0..3 {
        if let Outcome::Fail { signature, message } = judge(|| exec(&case), false, "C12:e2e:hang") {
            run.fail("histories-e2e", &signature, &message, doc["case"].clone());
            break;
        }
    }
    true
}
