//! C06 — stream termination signals carry their codes end to end.

use crate::common::*;
use proptest::prelude::*;
use serde::{Deserialize, Serialize};
use serde_json::Value;
use std::sync::Arc;
use std::time::Duration;
use vcore::{prop_search, Outcome, Run, Search};
use wire::*;
use wtransport::error::{StreamReadError, StreamWriteError};
use wtransport::{Connection, RecvStream, SendStream, VarInt};

const RULE: &str = "case = runtime flavour x peer pair in {wtransport<->wtransport, raw peer signals / wtransport observes, wtransport signals / raw peer observes} x opener role x stream kind x direction of a bidirectional stream x signal in {reset(c), stop(c), finish (SendStream::finish, or tokio AsyncWriteExt::shutdown on the SendStream or on the joined BiStream that stays alive)} x phase in {before any data, after k bytes, after finish} x the reader's method in {read into 512 bytes, read into 1..7 bytes, read_exact into 1..701 bytes} x code c in {0, 63, 64, 16383, 16384, 2^30-1, 2^30, 2^62-1, random 62-bit}; plus 'finish only once acknowledged' through the UDP relay (black hole before writing). Oracle: reset(c) -> the peer's reads yield a prefix of the written bytes then Reset(c); stop(c) -> the peer's write (retried until the signal arrived), finish and stopped report Stopped(c); finish -> all bytes then end-of-stream and finish() returns Ok; codes on the wire equal c. Non-trivial: code >= 64 or phase other than 'before any data'; distinct = distinct case";

#[derive(Clone, Copy, Debug, Serialize, Deserialize, PartialEq)]
pub enum Signal {
    Reset,
    Stop,
    Finish,
}

#[derive(Clone, Debug, Serialize, Deserialize)]
pub struct Case {
    pub flavor: u8,
    /// 0 wt<->wt, 1 raw signals / wt observes, 2 wt signals / raw observes, 3 finish-needs-ack (relay)
    pub pair: u8,
    pub opener_is_client: bool,
    pub bidi: bool,
    /// for bidi streams: exercise the direction from the accepting side to the opener
    pub reverse: bool,
    pub signal: Signal,
    pub code: u64,
    pub phase: u8,
    pub k: u16,
    /// how a wtransport sender finishes (pair 0, signal Finish): 0 `SendStream::finish`, 1
    /// `tokio::io::AsyncWriteExt::shutdown` on the `SendStream`, 2 the same on the joined
    /// `BiStream` of a bidirectional stream, which is kept alive afterwards
    #[serde(default)]
    pub finish_via: u8,
}

fn code_strategy() -> impl Strategy<Value = u64> {
    prop_oneof![
        4 => proptest::sample::select(vec![0u64, 63, 64, 16383, 16384, (1 << 30) - 1, 1 << 30, (1u64 << 62) - 1]),
        3 => 0u64..(1u64 << 62),
        1 => any::<u32>().prop_map(|v| v as u64),
    ]
}

pub fn case_strategy() -> impl Strategy<Value = Case> {
    (0u8..3, prop_oneof![4 => Just(0u8), 3 => Just(1u8), 3 => Just(2u8), 2 => Just(3u8)], any::<bool>(), any::<bool>(), any::<bool>(), prop_oneof![Just(Signal::Reset), Just(Signal::Stop), Just(Signal::Finish)], code_strategy(), 0u8..3, (1u16..3000, prop_oneof![2 => Just(0u8), 1 => Just(1u8), 1 => Just(2u8)]))
        .prop_map(|(flavor, pair, opener_is_client, bidi, reverse, signal, code, phase, (k, finish_via))| Case { flavor, pair, opener_is_client, bidi, reverse: reverse && bidi, signal, code, phase, k, finish_via })
}

fn data(k: usize) -> Vec<u8> {
    payload(4242, k, &[])
}

/// A pair of application-level halves: the writer's send half and the reader's recv half of the
/// direction under test.
async fn open_wt_wt(case: &Case) -> Res<(SendStream, RecvStream, Box<dyn std::any::Any + Send>)> {
    let p = wt_pair(&Tuning::default(), &Tuning::default()).await?;
    let (opener, acceptor) = if case.opener_is_client { (p.client.clone(), p.server.clone()) } else { (p.server.clone(), p.client.clone()) };
    if case.bidi {
        let (mut os, or) = opener.open_bi().await.map_err(|e| conn_err(&e))?.await.map_err(|e| e.to_string())?;
        // make the stream visible to the acceptor
        os.write_all(b"!").await.map_err(|e| e.to_string())?;
        let (acs, mut acr) = tokio::time::timeout(Duration::from_secs(5), acceptor.accept_bi()).await.map_err(|_| "accept_bi timeout")?.map_err(|e| conn_err(&e))?;
        let mut b = [0u8; 1];
        acr.read_exact(&mut b).await.map_err(|e| e.to_string())?;
        if case.reverse {
            Ok((acs, or, Box::new((p, os, acr))))
        } else {
            Ok((os, acr, Box::new((p, acs, or))))
        }
    } else {
        let mut os = opener.open_uni().await.map_err(|e| conn_err(&e))?.await.map_err(|e| e.to_string())?;
        os.write_all(b"!").await.map_err(|e| e.to_string())?;
        let mut acr = tokio::time::timeout(Duration::from_secs(5), acceptor.accept_uni()).await.map_err(|_| "accept_uni timeout")?.map_err(|e| conn_err(&e))?;
        let mut b = [0u8; 1];
        acr.read_exact(&mut b).await.map_err(|e| e.to_string())?;
        Ok((os, acr, Box::new(p)))
    }
}

/// Reads to the end of the stream the way `how` says: 0 (mod 3) `read` into 512 bytes, 1 `read`
/// into a tiny buffer, 2 `read_exact` into a buffer that is usually larger than what is available
/// when the signal arrives (a reset must then be reported as the read error of `read_exact`, not
/// as an early end-of-stream).
async fn read_until_end(r: &mut RecvStream, how: u16) -> (Vec<u8>, Result<(), StreamReadError>) {
    let mut out = Vec::new();
    let size = match how % 3 {
        0 => 512,
        1 => 1 + (how as usize / 3) % 7,
        _ => 1 + (how as usize / 3) % 701,
    };
    let mut buf = vec![0u8; size];
    loop {
        if how % 3 == 2 {
            match r.read_exact(&mut buf).await {
                Ok(()) => out.extend_from_slice(&buf),
                Err(wtransport::error::StreamReadExactError::FinishedEarly(n)) => {
                    out.extend_from_slice(&buf[..n.min(size)]);
                    return (out, Ok(()));
                }
                Err(wtransport::error::StreamReadExactError::Read(e)) => return (out, Err(e)),
            }
            continue;
        }
        match r.read(&mut buf).await {
            Ok(Some(n)) => out.extend_from_slice(&buf[..n]),
            Ok(None) => return (out, Ok(())),
            Err(e) => return (out, Err(e)),
        }
    }
}

/// The sender finishes through tokio's `AsyncWrite::shutdown` (on the send half or on the joined
/// `BiStream`, which stays alive): the reader must still see all bytes and then end-of-stream.
async fn exec_finish_tokio(case: Arc<Case>) -> CaseResult {
    use tokio::io::AsyncWriteExt;
    let p = match wt_pair(&Tuning::default(), &Tuning::default()).await {
        Ok(p) => p,
        Err(e) => return CaseResult::Skip(e),
    };
    let (opener, acceptor) = if case.opener_is_client { (p.client.clone(), p.server.clone()) } else { (p.server.clone(), p.client.clone()) };
    let bound = Duration::from_secs(5);
    let written = if case.phase >= 1 { data(case.k as usize) } else { b"!".to_vec() };
    let joined = case.finish_via % 3 == 2 && case.bidi;
    type Kept = Box<dyn std::any::Any + Send>;
    let res: Res<(Vec<u8>, Result<(), StreamReadError>, Kept)> = async {
        if case.bidi {
            let (os, or) = opener.open_bi().await.map_err(|e| conn_err(&e))?.await.map_err(|e| e.to_string())?;
            let keep: Kept = if joined {
                let mut bi = wtransport::stream::BiStream::join((os, or));
                bi.write_all(&written).await.map_err(|e| e.to_string())?;
                tokio::time::timeout(bound, bi.shutdown()).await.map_err(|_| "shutdown() never returned")?.map_err(|e| e.to_string())?;
                Box::new(bi)
            } else {
                let mut os = os;
                os.write_all(&written).await.map_err(|e| e.to_string())?;
                tokio::time::timeout(bound, AsyncWriteExt::shutdown(&mut os)).await.map_err(|_| "shutdown() never returned")?.map_err(|e| e.to_string())?;
                Box::new((os, or))
            };
            let (acs, mut acr) = tokio::time::timeout(bound, acceptor.accept_bi()).await.map_err(|_| "accept_bi timeout")?.map_err(|e| conn_err(&e))?;
            let (got, end) = tokio::time::timeout(bound, read_until_end(&mut acr, 0)).await.map_err(|_| "NO-EOF")?;
            Ok((got, end, Box::new((keep, acs, acr)) as Kept))
        } else {
            let mut os = opener.open_uni().await.map_err(|e| conn_err(&e))?.await.map_err(|e| e.to_string())?;
            os.write_all(&written).await.map_err(|e| e.to_string())?;
            tokio::time::timeout(bound, AsyncWriteExt::shutdown(&mut os)).await.map_err(|_| "shutdown() never returned")?.map_err(|e| e.to_string())?;
            let mut acr = tokio::time::timeout(bound, acceptor.accept_uni()).await.map_err(|_| "accept_uni timeout")?.map_err(|e| conn_err(&e))?;
            let (got, end) = tokio::time::timeout(bound, read_until_end(&mut acr, 0)).await.map_err(|_| "NO-EOF")?;
            Ok((got, end, Box::new((os, acr)) as Kept))
        }
    }
    .await;
    let how = if joined { "AsyncWriteExt::shutdown on the joined BiStream" } else { "AsyncWriteExt::shutdown on the SendStream" };
    match res {
        Ok((got, Ok(()), _keep)) => {
            if got != written {
                return viol("C06:finish:bytes", format!("finished through {how}: reader got {} bytes, writer wrote {}", got.len(), written.len()));
            }
        }
        Ok((_, Err(e), _)) => return viol("C06:finish:reader-error", format!("finished through {how}: reader got {e:?} instead of end-of-stream")),
        Err(e) if e == "NO-EOF" => return CaseResult::Timeout(format!("finished through {how}: the reader never saw end-of-stream")),
        Err(e) if e.contains("never returned") => return CaseResult::Timeout(format!("{how}: {e}")),
        Err(e) => return CaseResult::Skip(e),
    }
    drop(p);
    CaseResult::Pass { nontrivial: case.phase != 0, labels: vec!["signal:finish", "pair:wt-wt", if joined { "finish-via:tokio-shutdown:bistream" } else { "finish-via:tokio-shutdown:sendstream" }] }
}

async fn exec_wt_wt(case: Arc<Case>) -> CaseResult {
    if case.signal == Signal::Finish && case.finish_via % 3 != 0 {
        return exec_finish_tokio(case).await;
    }
    let (mut w, mut r, _keep) = match open_wt_wt(&case).await {
        Ok(x) => x,
        Err(e) => return CaseResult::Skip(e),
    };
    let code = VarInt::try_from_u64(case.code).unwrap();
    let written = if case.phase >= 1 { data(case.k as usize) } else { Vec::new() };
    let bound = Duration::from_secs(5);
    match case.signal {
        Signal::Finish => {
            if w.write_all(&written).await.is_err() {
                return viol("C06:finish:write", "write failed on a healthy stream");
            }
            let how = case.k.wrapping_add(case.code as u16);
            let reader = tokio::spawn(async move { read_until_end(&mut r, how).await });
            match tokio::time::timeout(bound, w.finish()).await {
                Ok(Ok(())) => {}
                Ok(Err(e)) => return viol("C06:finish:error", format!("finish() = {e:?} on a healthy stream")),
                Err(_) => return CaseResult::Timeout("finish() never returned".into()),
            }
            match tokio::time::timeout(bound, reader).await {
                Ok(Ok((got, Ok(())))) => {
                    if got != written {
                        return viol("C06:finish:bytes", format!("reader got {} bytes, writer wrote {}", got.len(), written.len()));
                    }
                }
                Ok(Ok((_, Err(e)))) => return viol("C06:finish:reader-error", format!("reader got {e:?} instead of end-of-stream")),
                _ => return CaseResult::Timeout("reader never saw end-of-stream".into()),
            }
            // finish twice / write after finish must not succeed silently
            if w.write_all(b"x").await.is_ok() {
                return viol("C06:finish:write-after", "write succeeded after finish");
            }
        }
        Signal::Reset => {
            if w.write_all(&written).await.is_err() {
                return viol("C06:reset:write", "write failed before reset");
            }
            let mut finished = false;
            if case.phase == 2 {
                let reader_done = tokio::time::timeout(bound, w.finish()).await;
                if !matches!(reader_done, Ok(Ok(()))) {
                    return viol("C06:finish:error", format!("finish() before reset = {:?}", reader_done.map(|r| r.map_err(|e| format!("{e:?}")))));
                }
                finished = true;
            }
            let reset_res = w.reset(code);
            if !finished && reset_res.is_err() {
                return viol("C06:reset:refused", "reset() failed on an open stream");
            }
            let (got, end) = match tokio::time::timeout(bound, read_until_end(&mut r, case.k.wrapping_add(case.code as u16))).await {
                Ok(x) => x,
                Err(_) => return CaseResult::Timeout("reader never saw the reset".into()),
            };
            if !written.starts_with(&got) {
                return viol("C06:reset:bytes", format!("reader got bytes that are not a prefix of what was written ({} bytes)", got.len()));
            }
            match (finished && reset_res.is_err(), end) {
                (true, Ok(())) => {
                    if got != written {
                        return viol("C06:finish:bytes", "stream finished before the refused reset but bytes are missing");
                    }
                }
                (_, Err(StreamReadError::Reset(c))) => {
                    if c.into_inner() != case.code {
                        return viol("C06:reset:code", format!("reader saw Reset({c}), sender reset with {}", case.code));
                    }
                }
                (_, other) => return viol("C06:reset:not-reported", format!("after reset({}) the reader ended with {:?}", case.code, other)),
            }
        }
        Signal::Stop => {
            if case.phase >= 1 {
                if w.write_all(&written).await.is_err() {
                    return viol("C06:stop:write", "write failed before stop");
                }
            }
            let mut finished = false;
            if case.phase == 2 {
                match tokio::time::timeout(bound, w.finish()).await {
                    Ok(Ok(())) => finished = true,
                    other => return viol("C06:finish:error", format!("finish() before stop = {:?}", other.map(|r| r.map_err(|e| format!("{e:?}"))))),
                }
            } else if case.phase == 1 {
                // the receiver reads some bytes before stopping
                let mut b = vec![0u8; (case.k as usize).min(7).max(1)];
                let _ = tokio::time::timeout(bound, r.read(&mut b)).await;
            }
            r.stop(code);
            if finished {
                match tokio::time::timeout(bound, w.stopped()).await {
                    Ok(StreamWriteError::Closed) => {}
                    Ok(other) => return viol("C06:stop:after-finish", format!("stopped() after a completed finish reported {other:?}")),
                    Err(_) => return CaseResult::Timeout("stopped() hangs after finish".into()),
                }
            } else {
                match tokio::time::timeout(bound, w.stopped()).await {
                    Ok(StreamWriteError::Stopped(c)) if c.into_inner() == case.code => {}
                    Ok(other) => return viol("C06:stop:code", format!("stopped() reported {other:?}, receiver stopped with {}", case.code)),
                    Err(_) => return CaseResult::Timeout("stopped() never reported the stop".into()),
                }
                match w.write_all(b"after").await {
                    Err(StreamWriteError::Stopped(c)) if c.into_inner() == case.code => {}
                    other => return viol("C06:stop:write", format!("write after stop({}) = {:?}", case.code, other)),
                }
                match tokio::time::timeout(bound, w.finish()).await {
                    Ok(Err(StreamWriteError::Stopped(c))) if c.into_inner() == case.code => {}
                    Ok(other) => return viol("C06:stop:finish", format!("finish after stop({}) = {:?}", case.code, other)),
                    Err(_) => return CaseResult::Timeout("finish hangs after stop".into()),
                }
            }
        }
    }
    pass(&case)
}

fn pass(case: &Case) -> CaseResult {
    let label = match (case.pair % 4, case.signal) {
        (3, _) => "finish-needs-ack",
        (_, Signal::Reset) => "signal:reset",
        (_, Signal::Stop) => "signal:stop",
        (_, Signal::Finish) => "signal:finish",
    };
    let pair = match case.pair % 4 {
        0 => "pair:wt-wt",
        1 => "pair:raw-signals",
        2 => "pair:wt-signals",
        _ => "pair:relay",
    };
    let mut labels = vec![label, pair];
    if case.pair % 4 == 3 && case.phase % 3 != 0 {
        labels.push("finish-reissued-after-cancel");
    }
    CaseResult::Pass { nontrivial: case.code >= 64 || case.phase != 0, labels }
}

/// The raw peer raises the signal, the wtransport application observes it.
async fn exec_raw_signals(case: Arc<Case>) -> CaseResult {
    let wt_is_server = !case.opener_is_client; // the raw peer is the other role
    let bound = Duration::from_secs(5);
    let (conn, raw_conn, session, _keep): (Connection, quinn::Connection, u64, Box<dyn std::any::Any + Send>) = if wt_is_server {
        match raw_client_vs_wt_server(&Tuning::default(), &Tuning::default()).await {
            Ok(p) => (p.server.clone(), p.raw.conn.clone(), p.raw.session_id, Box::new(p)),
            Err(e) => return CaseResult::Skip(e),
        }
    } else {
        match wt_client_vs_raw_server(&Tuning::default(), &Tuning::default()).await {
            Ok(p) => (p.client.clone(), p.raw.conn.clone(), p.raw.session_id, Box::new(p)),
            Err(e) => return CaseResult::Skip(e),
        }
    };
    let code = vi(case.code);
    let written = if case.phase >= 1 { data(case.k as usize) } else { Vec::new() };
    match case.signal {
        Signal::Reset | Signal::Finish => {
            // raw opens a WT stream towards the application, writes, then resets / finishes
            let mut s = if case.bidi {
                match raw_open_wt_bi(&raw_conn, session).await {
                    Ok((s, _r)) => s,
                    Err(e) => return CaseResult::Skip(e),
                }
            } else {
                match raw_open_wt_uni(&raw_conn, session).await {
                    Ok(s) => s,
                    Err(e) => return CaseResult::Skip(e),
                }
            };
            let _ = s.write_all(&written).await;
            let mut r = if case.bidi {
                match tokio::time::timeout(bound, conn.accept_bi()).await {
                    Ok(Ok((_s, r))) => r,
                    _ => return CaseResult::Timeout("stream not delivered".into()),
                }
            } else {
                match tokio::time::timeout(bound, conn.accept_uni()).await {
                    Ok(Ok(r)) => r,
                    _ => return CaseResult::Timeout("stream not delivered".into()),
                }
            };
            if case.signal == Signal::Reset {
                let _ = s.reset(code);
            } else {
                let _ = s.finish();
            }
            let (got, end) = match tokio::time::timeout(bound, read_until_end(&mut r, case.k.wrapping_add(case.code as u16))).await {
                Ok(x) => x,
                Err(_) => return CaseResult::Timeout("reader never saw the end of the stream".into()),
            };
            if !written.starts_with(&got) {
                return viol("C06:reset:bytes", "application read bytes that are not a prefix of what the peer wrote");
            }
            match (case.signal, end) {
                (Signal::Reset, Err(StreamReadError::Reset(c))) if c.into_inner() == case.code => {}
                (Signal::Finish, Ok(())) if got == written => {}
                (sig, other) => return viol(format!("C06:{}:observed", if sig == Signal::Reset { "reset" } else { "finish" }), format!("peer raised {:?}({}), application's read ended with {:?} after {} of {} bytes", sig, case.code, other, got.len(), written.len())),
            }
        }
        Signal::Stop => {
            // the application opens a stream, the raw peer stops it
            let (mut w, raw_recv): (SendStream, quinn::RecvStream) = if case.bidi {
                let (w, _r) = match conn.open_bi().await {
                    Ok(o) => match o.await {
                        Ok(x) => x,
                        Err(e) => return CaseResult::Skip(e.to_string()),
                    },
                    Err(e) => return CaseResult::Skip(conn_err(&e)),
                };
                match tokio::time::timeout(bound, raw_conn.accept_bi()).await {
                    Ok(Ok((_s, r))) => (w, r),
                    _ => return CaseResult::Skip("raw accept_bi".into()),
                }
            } else {
                let w = match conn.open_uni().await {
                    Ok(o) => match o.await {
                        Ok(x) => x,
                        Err(e) => return CaseResult::Skip(e.to_string()),
                    },
                    Err(e) => return CaseResult::Skip(conn_err(&e)),
                };
                // the endpoint's control stream is also a uni stream: pick the WT one
                let mut found = None;
                for _ in 0..3 {
                    match tokio::time::timeout(bound, raw_conn.accept_uni()).await {
                        Ok(Ok(mut r)) => {
                            let mut b = [0u8; 1];
                            match r.read_exact(&mut b).await {
                                Ok(()) if b[0] == 0x40 => {
                                    found = Some(r);
                                    break;
                                }
                                _ => {
                                    // control / other stream: keep it open
                                    std::mem::forget(r);
                                }
                            }
                        }
                        _ => break,
                    }
                }
                match found {
                    Some(r) => (w, r),
                    None => return CaseResult::Skip("raw peer did not find the WT uni stream".into()),
                }
            };
            let mut raw_recv = raw_recv;
            if case.phase >= 1 {
                if w.write_all(&written).await.is_err() {
                    return viol("C06:stop:write", "write failed before stop");
                }
            }
            if raw_recv.stop(code).is_err() {
                return CaseResult::Skip("raw stop failed".into());
            }
            match tokio::time::timeout(bound, w.stopped()).await {
                Ok(StreamWriteError::Stopped(c)) if c.into_inner() == case.code => {}
                Ok(other) => return viol("C06:stop:code", format!("stopped() reported {other:?}, peer stopped with {}", case.code)),
                Err(_) => return CaseResult::Timeout("stopped() never reported the peer's stop".into()),
            }
            match w.write_all(b"after").await {
                Err(StreamWriteError::Stopped(c)) if c.into_inner() == case.code => {}
                other => return viol("C06:stop:write", format!("write after the peer's stop({}) = {:?}", case.code, other)),
            }
            match tokio::time::timeout(bound, w.finish()).await {
                Ok(Err(StreamWriteError::Stopped(c))) if c.into_inner() == case.code => {}
                Ok(other) => return viol("C06:stop:finish", format!("finish after the peer's stop({}) = {:?}", case.code, other)),
                Err(_) => return CaseResult::Timeout("finish hangs after stop".into()),
            }
        }
    }
    pass(&case)
}

/// The wtransport application raises the signal, the raw peer observes the code on the wire.
async fn exec_wt_signals(case: Arc<Case>) -> CaseResult {
    let wt_is_server = !case.opener_is_client;
    let bound = Duration::from_secs(5);
    let (conn, raw_conn, session, _keep): (Connection, quinn::Connection, u64, Box<dyn std::any::Any + Send>) = if wt_is_server {
        match raw_client_vs_wt_server(&Tuning::default(), &Tuning::default()).await {
            Ok(p) => (p.server.clone(), p.raw.conn.clone(), p.raw.session_id, Box::new(p)),
            Err(e) => return CaseResult::Skip(e),
        }
    } else {
        match wt_client_vs_raw_server(&Tuning::default(), &Tuning::default()).await {
            Ok(p) => (p.client.clone(), p.raw.conn.clone(), p.raw.session_id, Box::new(p)),
            Err(e) => return CaseResult::Skip(e),
        }
    };
    let code = VarInt::try_from_u64(case.code).unwrap();
    let written = if case.phase >= 1 { data(case.k as usize) } else { Vec::new() };
    match case.signal {
        Signal::Stop => {
            // raw opens a stream and writes; the application accepts and stops it
            let mut s = if case.bidi {
                match raw_open_wt_bi(&raw_conn, session).await {
                    Ok((s, _)) => s,
                    Err(e) => return CaseResult::Skip(e),
                }
            } else {
                match raw_open_wt_uni(&raw_conn, session).await {
                    Ok(s) => s,
                    Err(e) => return CaseResult::Skip(e),
                }
            };
            let _ = s.write_all(&written).await;
            let r = if case.bidi {
                match tokio::time::timeout(bound, conn.accept_bi()).await {
                    Ok(Ok((_s, r))) => r,
                    _ => return CaseResult::Timeout("stream not delivered".into()),
                }
            } else {
                match tokio::time::timeout(bound, conn.accept_uni()).await {
                    Ok(Ok(r)) => r,
                    _ => return CaseResult::Timeout("stream not delivered".into()),
                }
            };
            r.stop(code);
            match tokio::time::timeout(bound, s.stopped()).await {
                Ok(Ok(Some(c))) if c.into_inner() == case.code => {}
                Ok(other) => return viol("C06:stop:wire-code", format!("application stopped with {}, the peer saw {:?}", case.code, other)),
                Err(_) => return CaseResult::Timeout("the peer never saw STOP_SENDING".into()),
            }
        }
        Signal::Reset | Signal::Finish => {
            let mut w = if case.bidi {
                match conn.open_bi().await {
                    Ok(o) => match o.await {
                        Ok((w, _r)) => w,
                        Err(e) => return CaseResult::Skip(e.to_string()),
                    },
                    Err(e) => return CaseResult::Skip(conn_err(&e)),
                }
            } else {
                match conn.open_uni().await {
                    Ok(o) => match o.await {
                        Ok(w) => w,
                        Err(e) => return CaseResult::Skip(e.to_string()),
                    },
                    Err(e) => return CaseResult::Skip(conn_err(&e)),
                }
            };
            let rec = Recorder::start(&raw_conn);
            if w.write_all(&written).await.is_err() {
                return viol("C06:reset:write", "write failed before the signal");
            }
            let id = w.id().into_u64();
            if case.signal == Signal::Reset {
                if w.reset(code).is_err() {
                    return viol("C06:reset:refused", "reset() failed on an open stream");
                }
                let seen = rec.wait(bound, |log| log.streams.get(&id).map(|s| s.reset.is_some() || s.fin).unwrap_or(false)).await;
                rec.stop();
                if !seen {
                    return CaseResult::Timeout("the peer never saw RESET_STREAM".into());
                }
                let (streams, _) = rec.snapshot();
                let st = &streams[&id];
                if st.reset != Some(case.code) {
                    return viol("C06:reset:wire-code", format!("application reset with {}, the peer saw reset={:?} fin={}", case.code, st.reset, st.fin));
                }
            } else {
                match tokio::time::timeout(bound, w.finish()).await {
                    Ok(Ok(())) => {}
                    other => return viol("C06:finish:error", format!("finish() = {:?}", other.map(|r| r.map_err(|e| format!("{e:?}"))))),
                }
                let seen = rec.wait(bound, |log| log.streams.get(&id).map(|s| s.fin).unwrap_or(false)).await;
                rec.stop();
                if !seen {
                    return CaseResult::Timeout("the peer never saw FIN".into());
                }
                let (streams, _) = rec.snapshot();
                let mut expect = if case.bidi { refcodec::enc_bi_header_wt(session) } else { refcodec::enc_uni_header_wt(session) };
                expect.extend_from_slice(&written);
                if streams[&id].bytes != expect {
                    return viol("C06:finish:bytes", "bytes seen by the peer differ from preamble + written bytes");
                }
            }
        }
    }
    pass(&case)
}

/// finish() succeeds only once the peer has acknowledged everything.
async fn exec_finish_needs_ack(case: Arc<Case>) -> CaseResult {
    let t = Tuning { initial_rtt_ms: Some(10), ..Default::default() };
    let server_ep = wt_server(&t);
    let addr = server_ep.local_addr().unwrap();
    let relay = Relay::start(addr, case.code).await;
    let client_ep = wt_client(&t);
    let accept = async {
        let incoming = server_ep.accept().await;
        let req = incoming.await.map_err(|e| format!("incoming: {e}"))?;
        req.accept().await.map_err(|e| format!("accept: {e}"))
    };
    let connect = async { client_ep.connect(url_for(relay.addr, "/")).await.map_err(|e| format!("connect: {e}")) };
    let (s, c) = tokio::join!(accept, connect);
    let (server, client) = match (s, c) {
        (Ok(s), Ok(c)) => (s, c),
        (Err(e), _) | (_, Err(e)) => return CaseResult::Skip(e),
    };
    let mut w = match client.open_uni().await {
        Ok(o) => match o.await {
            Ok(w) => w,
            Err(e) => return CaseResult::Skip(e.to_string()),
        },
        Err(e) => return CaseResult::Skip(conn_err(&e)),
    };
    // make sure the stream exists on both sides, then cut the client -> server direction
    if w.write_all(b"!").await.is_err() {
        return CaseResult::Skip("write".into());
    }
    let mut r = match tokio::time::timeout(Duration::from_secs(5), server.accept_uni()).await {
        Ok(Ok(r)) => r,
        _ => return CaseResult::Skip("accept_uni".into()),
    };
    let mut b = [0u8; 1];
    let _ = r.read_exact(&mut b).await;
    tokio::time::sleep(Duration::from_millis(30)).await;
    relay.blackhole(true, false);
    let body = data(case.k as usize);
    if w.write_all(&body).await.is_err() {
        return viol("C06:finish:write", "write failed");
    }
    // a first finish() is cancelled (after 0..3 polls or a short timeout) and re-issued: the
    // re-issued call must still wait for the acknowledgement
    match case.phase % 3 {
        0 => {}
        1 => {
            // polled exactly once, then dropped (no wake-up can arrive while the black hole is on)
            if let Some(r) = cancel_after(w.finish(), 1).await {
                return viol("C06:finish:before-ack", format!("finish() = {r:?} on its first poll while every packet towards the peer is dropped"));
            }
        }
        _ => {
            if let Ok(r) = tokio::time::timeout(Duration::from_millis(40), w.finish()).await {
                return viol("C06:finish:before-ack", format!("finish() = {r:?} within 40 ms while every packet towards the peer is dropped"));
            }
        }
    }
    let fin = tokio::spawn(async move { w.finish().await });
    tokio::time::sleep(Duration::from_millis(300)).await;
    if fin.is_finished() {
        return viol("C06:finish:before-ack", "finish() returned while every packet towards the peer was being dropped (nothing can have been acknowledged)");
    }
    relay.blackhole(false, false);
    match tokio::time::timeout(Duration::from_secs(8), fin).await {
        Ok(Ok(Ok(()))) => {}
        Ok(other) => return viol("C06:finish:error", format!("finish() after the black hole was lifted = {other:?}")),
        Err(_) => return CaseResult::Timeout("finish() did not return after the black hole was lifted".into()),
    }
    match tokio::time::timeout(Duration::from_secs(5), read_until_end(&mut r, case.k.wrapping_add(case.code as u16))).await {
        Ok((got, Ok(()))) if got == body => {}
        Ok((got, end)) => return viol("C06:finish:bytes", format!("after finish() = Ok the reader has {} of {} bytes, end {:?}", got.len(), body.len(), end)),
        Err(_) => return CaseResult::Timeout("reader did not reach end-of-stream".into()),
    }
    pass(&case)
}

pub fn exec(case: &Case) -> CaseResult {
    let c = Arc::new(case.clone());
    let fut = async move {
        match c.pair % 4 {
            0 => exec_wt_wt(c).await,
            1 => exec_raw_signals(c).await,
            2 => exec_wt_signals(c).await,
            _ => exec_finish_needs_ack(c).await,
        }
    };
    match run_on(case.flavor, Duration::from_secs(40), fut) {
        Some(r) => r,
        None => CaseResult::Timeout("case did not finish in 40 s".into()),
    }
}

pub fn run(run: &Run) {
    run.set_rule(RULE);
    run.assume("one terminal signal per stream direction; a stop raised after the sender's finish completed has no effect (stopped() then reports Closed)");
    prop_search(
        run,
        Search { check: "signals", cases: run.tier.pick(1500, 50000), workers: 8, max_shrink_iters: 60 },
        case_strategy,
        |c| judge(|| exec(c), true, "C06:signal-lost"),
        |c| serde_json::to_value(c).unwrap(),
    );
    for l in ["signal:reset", "signal:stop", "signal:finish", "finish-needs-ack", "finish-reissued-after-cancel", "pair:wt-wt", "pair:raw-signals", "pair:wt-signals", "finish-via:tokio-shutdown:bistream", "finish-via:tokio-shutdown:sendstream"] {
        run.essential(l);
    }
}

pub fn replay(run: &Run, doc: &Value) -> bool {
    let Ok(case) = serde_json::from_value::<Case>(doc["case"].clone()) else {
        return false;
    };
    run.eval("signals", true, 1);
    for _ in 0..3 {
        if let Outcome::Fail { signature, message } = judge(|| exec(&case), true, "C06:signal-lost") {
            run.fail("signals", &signature, &message, doc["case"].clone());
            break;
        }
    }
    true
}
