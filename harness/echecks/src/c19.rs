//! C19 — identities, PEM files and digests round-trip; generated certificates are W3C-conformant.
//!
//! Sub-checks: `identity` (self-signed builder paths x SAN lists, judged by parsing the DER with
//! x509-parser), `pem-roundtrip` (store-then-load through files), `pem-corrupt` / `der-corrupt`
//! (malformed input is an error, never a panic), `digest-table` / `digest-random` (format-then-parse),
//! `digest-malformed`.

use proptest::prelude::*;
use rustls_pki_types::{CertificateDer, ServerName, UnixTime};
use serde::{Deserialize, Serialize};
use serde_json::{json, Value};
use sha2::{Digest, Sha256};
use std::net::{IpAddr, Ipv4Addr, Ipv6Addr};
use std::str::FromStr;
use std::sync::OnceLock;
use std::time::{Duration, SystemTime, UNIX_EPOCH};
use vcore::{prop_search, Outcome, Run, Search};
use wtransport::tls::client::ServerHashVerification;
use wtransport::tls::error::PemLoadError;
use wtransport::tls::rustls::client::danger::ServerCertVerifier;
use wtransport::tls::self_signed::time as wtime;
use wtransport::tls::{Certificate, CertificateChain, PrivateKey, Sha256Digest, Sha256DigestFmt};
use wtransport::Identity;
use x509_parser::prelude::{FromDer, GeneralName, X509Certificate, X509Version};

const RULE: &str = "identity: SAN list of 0..8 entries drawn from {DNS names (1-4 labels, mixed case, wildcard, xn-- punycode), IPv4, IPv6 in canonical / fully expanded / upper-case / IPv4-mapped text, non-ASCII names (must be refused with InvalidSan), odd ASCII text (empty, spaces, bracketed or zoned IPv6, zero-padded IPv4: either refused or carried verbatim as dNSName)} x builder path {Identity::self_signed, from_now_utc+validity_days, from_now_utc+offset_from_not_before, not_before+not_after, validity_period, not_before+validity_days, not_before+offset_from_not_before, with UTC and non-UTC offsets of the same instants}; oracle on the DER parsed with x509-parser: v3, id-ecPublicKey/prime256v1 with an uncompressed 65-byte point that matches the PKCS#8 private key, SAN general names == requested multiset with dNSName/iPAddress typing, requested validity to the second, valid now and <= 14 days on the default path, accepted by ServerHashVerification pinned to its own hash() when 1 s <= validity <= 14 days. pem-roundtrip: chains of 0..5 pooled certificates + a key (P-256 / P-384 / Ed25519 PKCS#8) stored with the library and loaded back through every load function, separate or shared files, overwrite of a longer file; PEM text decoded independently. pem-corrupt / der-corrupt: truncation at any byte, bit flips, foreign labels, garbage DER inside a well-formed section, illegal base64, missing END line, no section, arbitrary bytes, missing file; truncated / garbage / non-certificate DER. digest: every byte value at every position (exhaustive table) + random 32-byte values x both formats x from_str_fmt / FromStr / Display; malformed text: wrong element count, out-of-range or negative elements, junk elements, wrong separators, the other format, random edits (no panic). Non-trivial: SAN list with >= 1 DNS and >= 1 IP entry / chain length >= 2 / digest containing 0x00 and 0xff / every corrupt input; distinct = distinct case";

const DAY: i64 = 86_400;

type R = Result<Vec<&'static str>, (String, String)>;

macro_rules! ensure {
    ($cond:expr, $sig:expr, $($arg:tt)*) => {
        if !$cond {
            return Err(($sig.to_string(), format!($($arg)*)));
        }
    };
}

fn sha256(b: &[u8]) -> [u8; 32] {
    let mut out = [0u8; 32];
    out.copy_from_slice(&Sha256::digest(b)[..]);
    out
}

fn unix_now() -> i64 {
    SystemTime::now().duration_since(UNIX_EPOCH).map(|d| d.as_secs() as i64).unwrap_or(0)
}

/// Runs `f`; a panic becomes a failure with signature `sig`.
fn no_panic<T>(sig: &str, what: &str, f: impl FnOnce() -> T) -> Result<T, (String, String)> {
    vcore::catch(f).map_err(|p| (sig.to_string(), format!("{what} panicked: {p}")))
}

fn to_outcome(r: Result<R, String>, nontrivial: bool) -> Outcome {
    match r {
        Ok(Ok(labels)) => Outcome::pass_l(nontrivial, labels),
        Ok(Err((s, m))) => Outcome::fail(s, m),
        Err(p) => Outcome::fail("C19:panic", format!("panicked: {p}")),
    }
}

// ---------------------------------------------------------------------------------------------
// identity
// ---------------------------------------------------------------------------------------------

#[derive(Clone, Debug, Serialize, Deserialize, Hash, PartialEq, Eq)]
pub enum San {
    /// host-name-like ASCII text: must be carried verbatim as dNSName
    Dns(String),
    /// textual IP address every parser agrees on: must be carried as iPAddress with these bytes
    Ip { text: String, bytes: Vec<u8> },
    /// contains a non-ASCII character: the build must fail with InvalidSan
    NonAscii(String),
    /// ASCII text that is neither a host name nor a plain IP: refused, or carried verbatim as dNSName
    Odd(String),
}

impl San {
    fn text(&self) -> &str {
        match self {
            San::Dns(s) | San::NonAscii(s) | San::Odd(s) => s,
            San::Ip { text, .. } => text,
        }
    }
}

#[derive(Clone, Debug, Serialize, Deserialize, Hash, PartialEq, Eq)]
pub enum Validity {
    /// `Identity::self_signed(sans)`
    Default,
    /// `.from_now_utc().validity_days(days)`
    FromNowDays { days: u32 },
    /// `.from_now_utc().offset_from_not_before(secs)`
    FromNowOffset { secs: i64 },
    /// `.not_before(nb).not_after(nb + len)`
    NotBeforeNotAfter { nb: i64, len: i64, off_min: i16 },
    /// `.validity_period(nb, nb + len)`
    Period { nb: i64, len: i64, off_min: i16 },
    /// `.not_before(nb).validity_days(days)`
    NotBeforeDays { nb: i64, days: u32, off_min: i16 },
    /// `.not_before(nb).offset_from_not_before(secs)`
    NotBeforeOffset { nb: i64, secs: i64, off_min: i16 },
}

#[derive(Clone, Debug, Serialize, Deserialize, Hash)]
pub struct IdCase {
    pub sans: Vec<San>,
    pub validity: Validity,
}

fn odt(unix: i64, off_min: i16) -> Option<wtime::OffsetDateTime> {
    let t = wtime::OffsetDateTime::from_unix_timestamp(unix).ok()?;
    let off = wtime::UtcOffset::from_whole_seconds(off_min as i32 * 60).ok()?;
    Some(t.to_offset(off))
}

fn build(case: &IdCase) -> Option<Result<Identity, wtransport::tls::error::InvalidSan>> {
    let texts: Vec<String> = case.sans.iter().map(|s| s.text().to_string()).collect();
    let b = || Identity::self_signed_builder().subject_alt_names(texts.iter());
    Some(match &case.validity {
        Validity::Default => Identity::self_signed(texts.iter()),
        Validity::FromNowDays { days } => b().from_now_utc().validity_days(*days).build(),
        Validity::FromNowOffset { secs } => b().from_now_utc().offset_from_not_before(wtime::Duration::seconds(*secs)).build(),
        Validity::NotBeforeNotAfter { nb, len, off_min } => b().not_before(odt(*nb, *off_min)?).not_after(odt(nb + len, -*off_min)?).build(),
        Validity::Period { nb, len, off_min } => b().validity_period(odt(*nb, *off_min)?, odt(nb + len, *off_min)?).build(),
        Validity::NotBeforeDays { nb, days, off_min } => b().not_before(odt(*nb, *off_min)?).validity_days(*days).build(),
        Validity::NotBeforeOffset { nb, secs, off_min } => b().not_before(odt(*nb, *off_min)?).offset_from_not_before(wtime::Duration::seconds(*secs)).build(),
    })
}

/// X.509 switches from UTCTime to GeneralizedTime outside 1950..2050; true when one of the requested
/// instants falls on different sides of that rule in UTC and in the offset it is handed over with.
fn encoding_boundary(v: &Validity) -> bool {
    let differs = |unix: i64, off_min: i16| match (odt(unix, 0), odt(unix, off_min)) {
        (Some(u), Some(l)) => (1950..2050).contains(&u.year()) != (1950..2050).contains(&l.year()),
        _ => false,
    };
    match v {
        Validity::NotBeforeNotAfter { nb, len, off_min } => differs(*nb, *off_min) || differs(nb + len, -*off_min),
        Validity::Period { nb, len, off_min } => differs(*nb, *off_min) || differs(nb + len, *off_min),
        Validity::NotBeforeDays { nb, days, off_min } => differs(*nb, *off_min) || differs(nb + *days as i64 * DAY, *off_min),
        Validity::NotBeforeOffset { nb, secs, off_min } => differs(*nb, *off_min) || differs(nb + secs, *off_min),
        _ => false,
    }
}

fn pin_accepts(cert: &Certificate, now: i64) -> Result<bool, (String, String)> {
    let v = ServerHashVerification::new([cert.hash()]);
    let der = CertificateDer::from(cert.der());
    let name = ServerName::try_from("localhost").unwrap();
    no_panic("C19:verifier-panic", "verify_server_cert", || v.verify_server_cert(&der, &[], &name, &[], UnixTime::since_unix_epoch(Duration::from_secs(now.max(0) as u64))).is_ok())
}

pub fn test_identity(case: &IdCase) -> R {
    let must_fail = case.sans.iter().any(|s| matches!(s, San::NonAscii(_)));
    let may_fail = case.sans.iter().any(|s| matches!(s, San::Odd(_)));
    let t0 = unix_now();
    let built = vcore::catch(|| build(case));
    let t1 = unix_now();
    let built = match built {
        Ok(b) => b,
        Err(p) if encoding_boundary(&case.validity) => {
            // outside the statement (no identity is produced, no text input is involved): recorded, not judged
            observe(&format!("the self-signed builder panics ({}) when a non-UTC not_before/not_after lies in 1950..2050 by its local year but not by its UTC year (or vice versa), e.g. Period {{ nb: 2524608000 (2050-01-01T00:00:00Z), len: 86400, off_min: -720 }}", p.split(" @ ").next().unwrap_or(&p)));
            return Ok(vec!["id:build-panic-at-utctime-boundary"]);
        }
        Err(p) => return Err(("C19:identity-build-panic".into(), format!("building an identity for SANs {:?} / {:?} panicked: {p}", case.sans, case.validity))),
    };
    let Some(built) = built else {
        return Err(("harness".into(), format!("dates of {:?} are outside the time crate's range", case.validity)));
    };
    let identity = match built {
        Err(_invalid_san) => {
            ensure!(must_fail || may_fail, "C19:valid-sans-refused", "SAN list {:?} (host names and IP addresses only) was refused with InvalidSan", case.sans);
            return Ok(vec![if must_fail { "id:non-ascii-refused" } else { "id:odd-refused" }]);
        }
        Ok(i) => i,
    };
    ensure!(!must_fail, "C19:non-ascii-san-accepted", "SAN list {:?} contains a non-ASCII name but an identity was generated", case.sans);
    let chain = identity.certificate_chain().as_slice();
    ensure!(chain.len() == 1, "C19:chain-length", "self-signed identity has a chain of {} certificates", chain.len());
    let cert = &chain[0];
    let der = cert.der();
    let (rem, x) = X509Certificate::from_der(der).map_err(|e| ("C19:generated-der-unparsable".to_string(), format!("x509-parser rejects the generated certificate: {e}")))?;
    ensure!(rem.is_empty(), "C19:generated-der-trailing", "{} bytes after the certificate", rem.len());
    ensure!(x.version() == X509Version::V3, "C19:not-x509v3", "certificate version is {:?}", x.version());
    // key: id-ecPublicKey with prime256v1, uncompressed point
    let spki = x.public_key();
    let alg = spki.algorithm.algorithm.to_id_string();
    let curve = spki.algorithm.parameters.as_ref().and_then(|p| p.as_oid().ok()).map(|o| o.to_id_string());
    ensure!(alg == "1.2.840.10045.2.1" && curve.as_deref() == Some("1.2.840.10045.3.1.7"), "C19:key-not-p256", "subject public key algorithm {alg} with parameters {curve:?}, expected id-ecPublicKey / prime256v1");
    let point = spki.subject_public_key.data.as_ref();
    ensure!(point.len() == 65 && point[0] == 4, "C19:key-not-p256", "public key is {} bytes starting with {:#x}", point.len(), point.first().copied().unwrap_or(0));
    let sig_alg = x.signature_algorithm.algorithm.to_id_string();
    ensure!(sig_alg == "1.2.840.10045.4.3.2", "C19:signature-algorithm", "signature algorithm {sig_alg}, expected ecdsa-with-SHA256");
    // the private key belongs to the certificate
    let kp = rcgen::KeyPair::try_from(identity.private_key().secret_der()).map_err(|e| ("C19:private-key-unusable".to_string(), format!("PKCS#8 private key of the identity does not load: {e}")))?;
    ensure!(kp.algorithm() == &rcgen::PKCS_ECDSA_P256_SHA256, "C19:key-not-p256", "private key algorithm is not ECDSA P-256");
    ensure!(kp.public_key_raw() == point, "C19:key-mismatch", "private key does not match the certificate's public key");
    // subject alternative names
    let mut want: Vec<(u8, Vec<u8>)> = case
        .sans
        .iter()
        .map(|s| match s {
            San::Ip { bytes, .. } => (1u8, bytes.clone()),
            other => (0u8, other.text().as_bytes().to_vec()),
        })
        .collect();
    let mut got: Vec<(u8, Vec<u8>)> = Vec::new();
    let san_ext = x.subject_alternative_name().map_err(|e| ("C19:san-extension".to_string(), format!("SAN extension does not parse: {e}")))?;
    if let Some(ext) = san_ext {
        for n in &ext.value.general_names {
            match n {
                GeneralName::DNSName(s) => got.push((0, s.as_bytes().to_vec())),
                GeneralName::IPAddress(b) => got.push((1, b.to_vec())),
                GeneralName::Invalid(tag, b) if tag.0 == 2 => got.push((0, b.to_vec())),
                other => got.push((9, format!("{other:?}").into_bytes())),
            }
        }
    }
    let show = |v: &[(u8, Vec<u8>)]| v.iter().map(|(t, b)| if *t == 1 { format!("IP:{}", vcore::hex(b)) } else { format!("{}:{:?}", if *t == 0 { "DNS" } else { "OTHER" }, String::from_utf8_lossy(b)) }).collect::<Vec<_>>().join(", ");
    let in_order = got == want;
    want.sort();
    got.sort();
    ensure!(got == want, "C19:san-mismatch", "requested SANs {:?}; certificate carries [{}], expected [{}]", case.sans.iter().map(|s| s.text()).collect::<Vec<_>>(), show(&got), show(&want));
    // validity
    let (nb, na) = (x.validity().not_before.timestamp(), x.validity().not_after.timestamp());
    let now = unix_now();
    let mut labels: Vec<&'static str> = Vec::new();
    let from_now = |len: i64, labels: &mut Vec<&'static str>| -> Result<(), (String, String)> {
        ensure!(t0 <= nb && nb <= t1, "C19:not-before-not-now", "not_before {nb} is outside the build interval [{t0}, {t1}]");
        ensure!(na - nb == len, "C19:validity-length", "validity is {} s, requested {len} s", na - nb);
        if len >= 60 {
            ensure!(nb <= now && now <= na, "C19:not-valid-now", "now {now} outside [{nb}, {na}]");
            let ok = pin_accepts(cert, now)?;
            ensure!(ok == (len <= 14 * DAY), "C19:pin-own-hash", "hash pinning with the certificate's own hash returned {} now for a validity of {len} s", if ok { "Ok" } else { "Err" });
            labels.push(if ok { "id:pin-own-hash-accepted" } else { "id:pin-own-hash-refused>14d" });
        }
        Ok(())
    };
    let explicit = |want_nb: i64, len: i64, labels: &mut Vec<&'static str>| -> Result<(), (String, String)> {
        ensure!(nb == want_nb && na == want_nb + len, "C19:validity-not-as-requested", "certificate validity [{nb}, {na}], requested [{want_nb}, {}]", want_nb + len);
        if encoding_boundary(&case.validity) {
            // the time encoding of this certificate is unusual (see the assumption); pinning is judged by C10
            labels.push("id:unusual-time-encoding");
        } else if len >= 1 {
            let ok = pin_accepts(cert, want_nb + len / 2)?;
            ensure!(ok == (len <= 14 * DAY), "C19:pin-own-hash", "hash pinning with the certificate's own hash returned {} inside a validity window of {len} s", if ok { "Ok" } else { "Err" });
            labels.push(if ok { "id:pin-own-hash-accepted" } else { "id:pin-own-hash-refused>14d" });
        }
        Ok(())
    };
    match &case.validity {
        Validity::Default => {
            ensure!(na - nb <= 14 * DAY, "C19:default-validity-over-14-days", "default validity is {} s = 14 d {:+} s", na - nb, na - nb - 14 * DAY);
            ensure!(t0 <= nb && nb <= t1, "C19:not-before-not-now", "not_before {nb} is outside the build interval [{t0}, {t1}]");
            ensure!(nb <= now && now <= na, "C19:not-valid-now", "now {now} outside [{nb}, {na}]");
            ensure!(pin_accepts(cert, now)?, "C19:pin-own-hash", "hash pinning configured with the certificate's own hash refuses the default self-signed identity now (validity {} s)", na - nb);
            labels.push("id:path:self_signed");
            labels.push("id:pin-own-hash-accepted");
        }
        Validity::FromNowDays { days } => {
            from_now(*days as i64 * DAY, &mut labels)?;
            labels.push("id:path:from_now+validity_days");
        }
        Validity::FromNowOffset { secs } => {
            from_now(*secs, &mut labels)?;
            labels.push("id:path:from_now+offset");
        }
        Validity::NotBeforeNotAfter { nb: w, len, off_min } => {
            explicit(*w, *len, &mut labels)?;
            labels.push("id:path:not_before+not_after");
            if *off_min != 0 {
                labels.push("id:non-utc-offset");
            }
        }
        Validity::Period { nb: w, len, off_min } => {
            explicit(*w, *len, &mut labels)?;
            labels.push("id:path:validity_period");
            if *off_min != 0 {
                labels.push("id:non-utc-offset");
            }
        }
        Validity::NotBeforeDays { nb: w, days, off_min } => {
            explicit(*w, *days as i64 * DAY, &mut labels)?;
            labels.push("id:path:not_before+validity_days");
            if *off_min != 0 {
                labels.push("id:non-utc-offset");
            }
        }
        Validity::NotBeforeOffset { nb: w, secs, off_min } => {
            explicit(*w, *secs, &mut labels)?;
            labels.push("id:path:not_before+offset");
            if *off_min != 0 {
                labels.push("id:non-utc-offset");
            }
        }
    }
    // the library's digest is the SHA-256 of the DER
    ensure!(*cert.hash().as_ref() == sha256(der), "C19:hash-not-sha256", "Certificate::hash() differs from SHA-256(DER)");
    let n_dns = case.sans.iter().filter(|s| matches!(s, San::Dns(_))).count();
    let n_ip = case.sans.iter().filter(|s| matches!(s, San::Ip { .. })).count();
    if n_dns >= 1 && n_ip >= 1 {
        labels.push("id:dns+ip");
    }
    if case.sans.is_empty() {
        labels.push("id:no-san");
    }
    if case.sans.iter().any(|s| matches!(s, San::Ip { bytes, .. } if bytes.len() == 16)) {
        labels.push("id:ipv6");
    }
    if case.sans.iter().any(|s| matches!(s, San::Ip { bytes, .. } if bytes.len() == 4)) {
        labels.push("id:ipv4");
    }
    if case.sans.iter().any(|s| matches!(s, San::Dns(t) if t.starts_with("*."))) {
        labels.push("id:wildcard");
    }
    if case.sans.iter().any(|s| matches!(s, San::Dns(t) if t.contains("xn--"))) {
        labels.push("id:punycode");
    }
    if may_fail {
        labels.push("id:odd-carried-verbatim");
    }
    if case.sans.len() >= 2 {
        labels.push(if in_order { "id:san-order-preserved" } else { "id:san-order-changed" });
    }
    Ok(labels)
}

fn id_nontrivial(c: &IdCase) -> bool {
    c.sans.iter().any(|s| matches!(s, San::Dns(_))) && c.sans.iter().any(|s| matches!(s, San::Ip { .. }))
}

fn v6_text(a: Ipv6Addr, form: u8) -> String {
    let s = a.segments();
    match form % 4 {
        0 => a.to_string(),
        1 => s.iter().map(|g| format!("{g:04x}")).collect::<Vec<_>>().join(":"),
        2 => a.to_string().to_uppercase(),
        _ => s.iter().map(|g| format!("{g:X}")).collect::<Vec<_>>().join(":"),
    }
}

fn san_strategy() -> impl Strategy<Value = San> {
    let dns = prop_oneof![
        4 => "[a-z][a-z0-9-]{0,10}[a-z0-9](\\.[a-z0-9][a-z0-9-]{0,8}[a-z0-9]){0,2}\\.[a-z]{2,6}",
        2 => proptest::sample::select(vec!["localhost", "example.org", "a.b.c.d.e.f.example", "Example.COM", "MiXeD.Case.Example", "host-1.internal", "x.io"]).prop_map(String::from),
        2 => "\\*\\.[a-z][a-z0-9-]{0,8}\\.[a-z]{2,5}",
        2 => "xn--[a-z0-9]{3,10}(-[a-z0-9]{2,4})?\\.[a-z]{2,5}",
        1 => "[a-z]{1,12}",
    ]
    .prop_map(San::Dns);
    let v4 = prop_oneof![any::<[u8; 4]>(), proptest::sample::select(vec![[127u8, 0, 0, 1], [0, 0, 0, 0], [255, 255, 255, 255], [10, 0, 0, 1], [192, 168, 1, 254]])].prop_map(|b| San::Ip { text: Ipv4Addr::from(b).to_string(), bytes: b.to_vec() });
    let v6 = (
        prop_oneof![
            2 => any::<[u8; 16]>(),
            2 => proptest::sample::select(vec![Ipv6Addr::LOCALHOST.octets(), Ipv6Addr::UNSPECIFIED.octets(), "2001:db8::1".parse::<Ipv6Addr>().unwrap().octets(), "fe80::1:2:3:4".parse::<Ipv6Addr>().unwrap().octets(), "::ffff:192.0.2.1".parse::<Ipv6Addr>().unwrap().octets(), "2001:db8:0:0:1::".parse::<Ipv6Addr>().unwrap().octets(), [0xff; 16]]),
            1 => (any::<[u8; 4]>(), any::<[u8; 4]>()).prop_map(|(a, b)| { let mut o = [0u8; 16]; o[..4].copy_from_slice(&a); o[12..].copy_from_slice(&b); o }),
        ],
        0u8..4,
    )
        .prop_map(|(b, form)| San::Ip { text: v6_text(Ipv6Addr::from(b), form), bytes: b.to_vec() });
    let non_ascii = prop_oneof![
        proptest::sample::select(vec!["❤️", "bücher.example", "例え.jp", "café", "a\u{80}", "ｌocalhost", "exam\u{00ad}ple.org", "пример.рф", "\u{feff}example.org"]).prop_map(String::from),
        ("[a-z]{0,5}", "[\u{80}-\u{2fff}]", "[a-z.]{0,6}").prop_map(|(a, b, c)| format!("{a}{b}{c}")),
    ]
    .prop_map(San::NonAscii);
    let odd = proptest::sample::select(vec!["", " ", "a b", "under_score.example", "trailing.dot.", "-lead.example", "a..b", ".", "[::1]", "fe80::1%eth0", "127.000.000.001", "1.2.3", "1.2.3.4.5", "0x7f.0.0.1", "256.1.1.1", "1.2.3.4/24", "::1 ", "host\tname", "a\u{0}b", "https://example.org", "user@example.org", "this-label-is-longer-than-sixty-three-characters-which-dns-does-not-allow-at-all.example"]).prop_map(|s| San::Odd(s.to_string()));
    prop_oneof![8 => dns, 3 => v4, 4 => v6, 1 => non_ascii, 1 => odd]
}

fn validity_strategy() -> impl Strategy<Value = Validity> {
    let nb = || prop_oneof![2 => 1_600_000_000i64..1_900_000_000, 1 => 1i64..7_000_000_000, 1 => (2_524_608_000i64 - 20 * DAY)..(2_524_608_000 + DAY), 1 => (2_147_483_647i64 - 20 * DAY)..(2_147_483_647 + DAY)];
    let len = || prop_oneof![3 => 0i64..=14 * DAY, 2 => proptest::sample::select(vec![0i64, 1, 14 * DAY - 1, 14 * DAY, 14 * DAY + 1, 15 * DAY, 365 * DAY, 7 * DAY]), 1 => (14 * DAY + 1)..400 * DAY, 1 => -10 * DAY..0i64];
    let days = || prop_oneof![3 => 0u32..=14, 2 => proptest::sample::select(vec![0u32, 1, 13, 14, 15, 16, 30, 365, 3650, 36500]), 1 => 15u32..4000];
    let off = || prop_oneof![3 => Just(0i16), 2 => proptest::sample::select(vec![60i16, -300, 345, 840, -720, 1, -1, 570]), 1 => -1000i16..1000];
    prop_oneof![
        3 => Just(Validity::Default),
        3 => days().prop_map(|days| Validity::FromNowDays { days }),
        2 => len().prop_map(|secs| Validity::FromNowOffset { secs }),
        2 => (nb(), len(), off()).prop_map(|(nb, len, off_min)| Validity::NotBeforeNotAfter { nb, len, off_min }),
        2 => (nb(), len(), off()).prop_map(|(nb, len, off_min)| Validity::Period { nb, len, off_min }),
        2 => (nb(), days(), off()).prop_map(|(nb, days, off_min)| Validity::NotBeforeDays { nb, days, off_min }),
        2 => (nb(), len(), off()).prop_map(|(nb, secs, off_min)| Validity::NotBeforeOffset { nb, secs, off_min }),
    ]
}

fn id_strategy() -> impl Strategy<Value = IdCase> {
    (proptest::collection::vec(san_strategy(), 0..=8), validity_strategy()).prop_map(|(sans, validity)| IdCase { sans, validity })
}

// ---------------------------------------------------------------------------------------------
// PEM store / load
// ---------------------------------------------------------------------------------------------

struct Pool {
    /// DER certificates: library-generated P-256 leaves with SAN lists of growing size, then
    /// rcgen P-384 / Ed25519 self-signed, then a CA and a leaf signed by it
    certs: Vec<Vec<u8>>,
    /// PKCS#8 keys: P-256 (library), P-384, Ed25519
    keys: Vec<Vec<u8>>,
}

fn pool() -> &'static Pool {
    static POOL: OnceLock<Pool> = OnceLock::new();
    POOL.get_or_init(|| {
        let mut certs = Vec::new();
        let mut keys = Vec::new();
        for i in 0..10usize {
            let mut sans: Vec<String> = vec!["localhost".into(), "127.0.0.1".into()];
            for k in 0..i {
                sans.push(format!("{}.host{k}.example", "a".repeat(1 + (i * 7 + k) % 11)));
            }
            let id = Identity::self_signed(sans.iter()).expect("pool identity");
            certs.push(id.certificate_chain().as_slice()[0].der().to_vec());
            if i == 0 {
                keys.push(id.private_key().secret_der().to_vec());
            }
        }
        // slot 9 is guaranteed to have a DER length divisible by 3 (its base64 has no padding)
        for extra in 0..300usize {
            if certs[9].len() % 3 == 0 {
                break;
            }
            let id = Identity::self_signed(["localhost".to_string(), format!("{}.example", "b".repeat(1 + extra % 40))].iter()).expect("pool identity");
            certs[9] = id.certificate_chain().as_slice()[0].der().to_vec();
        }
        for alg in [&rcgen::PKCS_ECDSA_P384_SHA384, &rcgen::PKCS_ED25519] {
            let key = rcgen::KeyPair::generate_for(alg).expect("pool key");
            let p = rcgen::CertificateParams::new(vec!["pool.example".to_string()]).expect("params");
            certs.push(p.self_signed(&key).expect("pool cert").der().to_vec());
            keys.push(key.serialize_der());
        }
        let ca_key = rcgen::KeyPair::generate_for(&rcgen::PKCS_ECDSA_P256_SHA256).expect("ca key");
        let mut ca = rcgen::CertificateParams::new(Vec::<String>::new()).expect("params");
        ca.is_ca = rcgen::IsCa::Ca(rcgen::BasicConstraints::Unconstrained);
        ca.distinguished_name.push(rcgen::DnType::CommonName, "verif C19 pool CA");
        certs.push(ca.self_signed(&ca_key).expect("ca").der().to_vec());
        let leaf_key = rcgen::KeyPair::generate_for(&rcgen::PKCS_ECDSA_P256_SHA256).expect("leaf key");
        let leaf = rcgen::CertificateParams::new(vec!["leaf.pool.example".to_string(), "2001:db8::7".to_string()]).expect("params");
        certs.push(leaf.signed_by(&leaf_key, &rcgen::Issuer::from_params(&ca, &ca_key)).expect("leaf").der().to_vec());
        Pool { certs, keys }
    })
}

/// Keeps the runtime's (single-threaded) blocking pool busy while alive, so that a file write
/// that a store function leaves to tokio's background machinery is still queued when the store
/// future completes: "returns before the data is written" becomes deterministic instead of a race.
struct BusyPool(tokio::task::JoinHandle<()>);

impl BusyPool {
    fn start() -> Self {
        BusyPool(tokio::spawn(async {
            loop {
                let a = tokio::task::spawn_blocking(|| std::thread::sleep(Duration::from_millis(5)));
                let b = tokio::task::spawn_blocking(|| std::thread::sleep(Duration::from_millis(5)));
                let _ = a.await;
                let _ = b.await;
            }
        }))
    }
}

impl Drop for BusyPool {
    fn drop(&mut self) {
        self.0.abort();
    }
}

fn block_on<T>(f: impl std::future::Future<Output = T>) -> T {
    let rt = tokio::runtime::Builder::new_current_thread().max_blocking_threads(1).enable_all().build().expect("runtime");
    let out = rt.block_on(f);
    rt.shutdown_timeout(Duration::from_millis(100));
    out
}

const B64: &[u8; 64] = b"ABCDEFGHIJKLMNOPQRSTUVWXYZabcdefghijklmnopqrstuvwxyz0123456789+/";

fn b64_encode(data: &[u8]) -> String {
    let mut out = String::new();
    for ch in data.chunks(3) {
        let n = (ch[0] as u32) << 16 | (*ch.get(1).unwrap_or(&0) as u32) << 8 | *ch.get(2).unwrap_or(&0) as u32;
        out.push(B64[(n >> 18) as usize & 63] as char);
        out.push(B64[(n >> 12) as usize & 63] as char);
        out.push(if ch.len() > 1 { B64[(n >> 6) as usize & 63] as char } else { '=' });
        out.push(if ch.len() > 2 { B64[n as usize & 63] as char } else { '=' });
    }
    out
}

/// Strict base64 (RFC 4648 §4, canonical padding); `None` on any other character.
fn b64_decode(text: &[u8]) -> Option<Vec<u8>> {
    if text.len() % 4 != 0 {
        return None;
    }
    let mut out = Vec::new();
    for (i, q) in text.chunks(4).enumerate() {
        let last = (i + 1) * 4 == text.len();
        let mut n = 0u32;
        let mut pad = 0;
        for (k, c) in q.iter().enumerate() {
            let v = if *c == b'=' && last && k >= 2 {
                pad += 1;
                0
            } else {
                if pad > 0 {
                    return None;
                }
                B64.iter().position(|b| b == c)? as u32
            };
            n = n << 6 | v;
        }
        out.push((n >> 16) as u8);
        if pad < 2 {
            out.push((n >> 8) as u8);
        }
        if pad < 1 {
            out.push(n as u8);
        }
    }
    Some(out)
}

/// Harness-side PEM writer (RFC 7468 layout: 64 characters per line).
fn pem_section(label: &str, der: &[u8], eol: &str) -> String {
    let b = b64_encode(der);
    let mut s = format!("-----BEGIN {label}-----{eol}");
    for line in b.as_bytes().chunks(64) {
        s.push_str(std::str::from_utf8(line).unwrap());
        s.push_str(eol);
    }
    s.push_str(&format!("-----END {label}-----{eol}"));
    s
}

/// Independent reader for files the library wrote: (label, DER) per section; `Err` describes the
/// first deviation from RFC 7468 text (line length, characters, matching labels).
fn pem_decode_strict(text: &[u8]) -> Result<Vec<(String, Vec<u8>)>, String> {
    let text = std::str::from_utf8(text).map_err(|_| "not UTF-8".to_string())?;
    let mut out = Vec::new();
    let mut cur: Option<(String, Vec<String>)> = None;
    for raw in text.split('\n') {
        let line = raw.strip_suffix('\r').unwrap_or(raw);
        if let Some(rest) = line.strip_prefix("-----BEGIN ") {
            if cur.is_some() {
                return Err("BEGIN inside a section".into());
            }
            let label = rest.strip_suffix("-----").ok_or("malformed BEGIN line")?;
            cur = Some((label.to_string(), Vec::new()));
        } else if let Some(rest) = line.strip_prefix("-----END ") {
            let label = rest.strip_suffix("-----").ok_or("malformed END line")?;
            let (l, lines) = cur.take().ok_or("END without BEGIN")?;
            if l != label {
                return Err(format!("END {label} closes BEGIN {l}"));
            }
            for (i, b) in lines.iter().enumerate() {
                if b.len() > 64 || (i + 1 < lines.len() && b.len() != 64) {
                    return Err(format!("base64 line {} has {} characters", i, b.len()));
                }
            }
            let der = b64_decode(lines.concat().as_bytes()).ok_or("body is not canonical base64")?;
            out.push((l, der));
        } else if let Some((_, lines)) = cur.as_mut() {
            if line.is_empty() {
                return Err("empty line inside a section".into());
            }
            lines.push(line.to_string());
        } else if !line.is_empty() {
            return Err(format!("text outside sections: {line:?}"));
        }
    }
    if cur.is_some() {
        return Err("missing END line".into());
    }
    Ok(out)
}

#[derive(Clone, Debug, Serialize, Deserialize, Hash)]
pub struct PemCase {
    /// indices into the certificate pool, 0..=5 entries (taken modulo the pool size)
    pub chain: Vec<u8>,
    pub key: u8,
    /// 0 files written by the library, 1 one shared file key+chain, 2 one shared file chain+key with
    /// explanatory text between sections, 3 library overwrites longer existing files, 4 LF line endings
    pub layout: u8,
    /// exact material (hex DER) of the pooled certificates / key used, embedded when a case is saved so
    /// that a replay re-executes the same bytes (the pool is regenerated by every process)
    #[serde(default, skip_serializing_if = "Vec::is_empty")]
    pub certs_der: Vec<String>,
    #[serde(default, skip_serializing_if = "Option::is_none")]
    pub key_der: Option<String>,
}

/// Certificates and key of a case: embedded material if present, the pool otherwise.
fn material(chain: &[u8], key: u8, certs_der: &[String], key_der: &Option<String>) -> Result<(Vec<Vec<u8>>, Vec<u8>), (String, String)> {
    let pool = pool();
    let bad = || ("harness".to_string(), "embedded material is not hex".to_string());
    let certs = if certs_der.is_empty() { chain.iter().map(|i| pool.certs[*i as usize % pool.certs.len()].clone()).collect() } else { certs_der.iter().map(|h| vcore::unhex(h).ok_or_else(bad)).collect::<Result<Vec<_>, _>>()? };
    let key = match key_der {
        Some(h) => vcore::unhex(h).ok_or_else(bad)?,
        None => pool.keys[key as usize % pool.keys.len()].clone(),
    };
    Ok((certs, key))
}

fn embed(chain: &[u8], key: u8) -> (Vec<String>, Option<String>) {
    let pool = pool();
    (chain.iter().map(|i| vcore::hex(&pool.certs[*i as usize % pool.certs.len()])).collect(), Some(vcore::hex(&pool.keys[key as usize % pool.keys.len()])))
}

impl PemCase {
    fn saved(&self) -> Value {
        let mut c = self.clone();
        if c.certs_der.is_empty() && c.key_der.is_none() {
            (c.certs_der, c.key_der) = embed(&c.chain, c.key);
        }
        serde_json::to_value(&c).unwrap()
    }
}

impl CorruptCase {
    fn saved(&self) -> Value {
        let mut c = self.clone();
        c.chain.truncate(4);
        if c.certs_der.is_empty() && c.key_der.is_none() {
            (c.certs_der, c.key_der) = embed(&c.chain, c.key);
        }
        serde_json::to_value(&c).unwrap()
    }
}

impl DerCase {
    fn saved(&self) -> Value {
        let mut c = self.clone();
        if c.certs_der.is_empty() && c.key_der.is_none() {
            (c.certs_der, c.key_der) = embed(&[c.cert], c.cert);
        }
        serde_json::to_value(&c).unwrap()
    }
}

fn pem_err(e: &PemLoadError) -> String {
    format!("{e:?}")
}

pub fn test_pem(case: &PemCase) -> R {
    let pool = pool();
    let (ders, key_der) = material(&case.chain, case.key, &case.certs_der, &case.key_der)?;
    let key_der = &key_der;
    let mut certs = Vec::new();
    for d in &ders {
        let c = no_panic("C19:from_der-panic", "Certificate::from_der", || Certificate::from_der(d.clone()))?;
        let c = c.map_err(|e| ("C19:valid-der-refused".to_string(), format!("Certificate::from_der refuses a valid certificate: {e}")))?;
        ensure!(c.der() == d.as_slice(), "C19:der-altered", "Certificate::der() differs from the bytes given to from_der");
        certs.push(c);
    }
    let chain = CertificateChain::new(certs.clone());
    ensure!(chain.as_slice().len() == certs.len(), "C19:chain-length", "CertificateChain::new kept {} of {} certificates", chain.as_slice().len(), certs.len());
    let key = PrivateKey::from_der_pkcs8(key_der.clone());
    ensure!(key.secret_der() == key_der.as_slice(), "C19:key-altered", "PrivateKey::secret_der() differs from the bytes given");
    // the PEM text itself, decoded independently
    for c in &certs {
        let pem = no_panic("C19:to_pem-panic", "to_pem", || c.to_pem())?;
        let secs = pem_decode_strict(pem.as_bytes()).map_err(|e| ("C19:pem-text-shape".to_string(), format!("Certificate::to_pem() is not RFC 7468 text ({e}): {pem:?}")))?;
        ensure!(secs.len() == 1 && secs[0].0 == "CERTIFICATE" && secs[0].1 == c.der(), "C19:pem-text-content", "Certificate::to_pem() decodes to {:?} sections with label {:?}; DER equal: {}", secs.len(), secs.first().map(|s| s.0.clone()), secs.first().map(|s| s.1 == c.der()).unwrap_or(false));
    }
    {
        let pem = key.to_secret_pem();
        let secs = pem_decode_strict(pem.as_bytes()).map_err(|e| ("C19:pem-text-shape".to_string(), format!("PrivateKey::to_secret_pem() is not RFC 7468 text ({e})")))?;
        ensure!(secs.len() == 1 && secs[0].0 == "PRIVATE KEY" && secs[0].1 == key.secret_der(), "C19:pem-text-content", "PrivateKey::to_secret_pem() decodes to {} sections with label {:?}", secs.len(), secs.first().map(|s| s.0.clone()));
    }
    let dir = tempfile::tempdir().map_err(|e| ("harness".to_string(), format!("tempdir: {e}")))?;
    let cf = dir.path().join("chain.pem");
    let kf = if matches!(case.layout % 5, 1 | 2) { cf.clone() } else { dir.path().join("key.pem") };
    let sf = dir.path().join("single.pem");
    let io = |e: std::io::Error| ("C19:store-failed".to_string(), format!("store failed: {e}"));
    let hio = |e: std::io::Error| ("harness".to_string(), format!("harness file write: {e}"));
    let layout = case.layout % 5;
    let r: Result<Vec<&'static str>, (String, String)> = block_on(async {
        let mut labels = Vec::new();
        let mut late: Option<(String, String)> = None;
        match layout {
            0 | 3 => {
                if layout == 3 {
                    let long: String = pool.certs.iter().take(6).map(|d| pem_section("CERTIFICATE", d, "\r\n")).collect();
                    std::fs::write(&cf, &long).map_err(hio)?;
                    std::fs::write(&kf, format!("{}{}", pem_section("PRIVATE KEY", &pool.keys[1], "\n"), "x".repeat(5000))).map_err(hio)?;
                    std::fs::write(&sf, &long).map_err(hio)?;
                    labels.push("pem:overwrite");
                }
                let _busy = BusyPool::start();
                tokio::task::yield_now().await;
                chain.store_pemfile(&cf).await.map_err(io)?;
                // what is on disk at the moment the store future has completed, read independently
                // and synchronously (nothing is awaited in between)
                let at_return = std::fs::read(&cf).map_err(hio)?;
                key.store_secret_pemfile(&kf).await.map_err(io)?;
                let key_at_return = std::fs::read(&kf).map_err(hio)?;
                let chain_on_disk = |bytes: &[u8]| -> Result<(), (String, String)> {
                    let secs = pem_decode_strict(bytes).map_err(|e| ("C19:pem-text-shape".to_string(), format!("stored chain file is not RFC 7468 text: {e}")))?;
                    ensure!(secs.len() == certs.len() && secs.iter().zip(&certs).all(|(s, c)| s.0 == "CERTIFICATE" && s.1 == c.der()), "C19:stored-chain-content", "stored chain file holds {} sections {:?} for a chain of {}", secs.len(), secs.iter().map(|s| s.0.clone()).collect::<Vec<_>>(), certs.len());
                    Ok(())
                };
                if let Err(first_view) = chain_on_disk(&at_return) {
                    // is the data merely late (written by a background operation after the future completed)?
                    let mut settled = Err(first_view);
                    for _ in 0..200 {
                        tokio::time::sleep(Duration::from_millis(5)).await;
                        settled = chain_on_disk(&std::fs::read(&cf).map_err(hio)?);
                        if settled.is_ok() {
                            break;
                        }
                    }
                    settled?;
                    late = Some(("C19:store-returns-before-data-written".to_string(), format!("CertificateChain::store_pemfile({} certificates) returned Ok while the file held only {} of its final bytes ({} complete sections); the rest appeared later, so an immediate load sees a shorter chain or no certificate (the tokio file is dropped without flush)", certs.len(), at_return.len(), pem_decode_strict(&at_return).map(|s| s.len()).unwrap_or(0))));
                }
                let secs = pem_decode_strict(&key_at_return).map_err(|e| ("C19:pem-text-shape".to_string(), format!("stored key file is not RFC 7468 text when store_secret_pemfile returns: {e}")))?;
                ensure!(secs.len() == 1 && secs[0].0 == "PRIVATE KEY" && secs[0].1 == key.secret_der(), "C19:stored-key-content", "stored key file holds {} sections {:?}", secs.len(), secs.iter().map(|s| s.0.clone()).collect::<Vec<_>>());
                if let Some(first) = certs.first() {
                    first.store_pemfile(&sf).await.map_err(io)?;
                    let single_ok = |bytes: &[u8]| matches!(pem_decode_strict(bytes), Ok(secs) if secs.len() == 1 && secs[0].0 == "CERTIFICATE" && secs[0].1 == first.der());
                    let at_return = std::fs::read(&sf).map_err(hio)?;
                    if !single_ok(&at_return) {
                        let mut ok = false;
                        for _ in 0..200 {
                            tokio::time::sleep(Duration::from_millis(5)).await;
                            if single_ok(&std::fs::read(&sf).map_err(hio)?) {
                                ok = true;
                                break;
                            }
                        }
                        ensure!(ok, "C19:stored-cert-content", "file written by Certificate::store_pemfile never held the certificate ({} bytes on disk)", at_return.len());
                        late.get_or_insert(("C19:store-returns-before-data-written".to_string(), format!("Certificate::store_pemfile returned Ok while the file held {} bytes; the certificate appeared later, so an immediate Certificate::load_pemfile fails with NoCertificateSection (the tokio file is dropped without flush)", at_return.len())));
                    }
                    let back = Certificate::load_pemfile(&sf).await.map_err(|e| ("C19:cert-roundtrip".to_string(), format!("Certificate store then load failed: {}", pem_err(&e))))?;
                    ensure!(back.der() == first.der(), "C19:cert-roundtrip", "Certificate store then load changed the DER ({} -> {} bytes)", first.der().len(), back.der().len());
                    let as_chain = CertificateChain::load_pemfile(&sf).await.map_err(|e| ("C19:cert-roundtrip".to_string(), format!("chain load of a single-certificate file failed: {}", pem_err(&e))))?;
                    ensure!(as_chain.as_slice().len() == 1 && as_chain.as_slice()[0].der() == first.der(), "C19:cert-roundtrip", "single-certificate file loads as a chain of {}", as_chain.as_slice().len());
                }
            }
            1 | 2 | 4 => {
                let eol = if layout == 4 { "\n" } else { "\r\n" };
                let cert_text: String = certs.iter().map(|c| pem_section("CERTIFICATE", c.der(), eol)).collect();
                let key_text = pem_section("PRIVATE KEY", key.secret_der(), eol);
                match layout {
                    1 => std::fs::write(&cf, format!("{key_text}{cert_text}")).map_err(hio)?,
                    2 => {
                        let mut t = String::from("Bag Attributes\n    friendlyName: verif\nsubject=CN = wtransport self-signed\n\n");
                        for c in &certs {
                            t.push_str(&pem_section("CERTIFICATE", c.der(), eol));
                            t.push_str("# next section\n\n");
                        }
                        t.push_str(&key_text);
                        t.push_str("trailing words\n");
                        std::fs::write(&cf, t).map_err(hio)?
                    }
                    _ => {
                        std::fs::write(&cf, cert_text).map_err(hio)?;
                        std::fs::write(&kf, key_text).map_err(hio)?;
                    }
                }
                labels.push(match layout {
                    1 => "pem:shared-file-key-first",
                    2 => "pem:shared-file-with-text",
                    _ => "pem:lf-line-endings",
                });
            }
            _ => unreachable!(),
        }
        let back = CertificateChain::load_pemfile(&cf).await.map_err(|e| ("C19:chain-roundtrip".to_string(), format!("chain of {} stored then loaded (layout {layout}): {}", certs.len(), pem_err(&e))))?;
        ensure!(back.as_slice().len() == certs.len(), "C19:chain-roundtrip", "chain of {} loads back with {} certificates (layout {layout})", certs.len(), back.as_slice().len());
        for (i, (a, b)) in back.as_slice().iter().zip(&certs).enumerate() {
            ensure!(a.der() == b.der(), "C19:chain-roundtrip", "certificate #{i} of the chain changed through store/load (layout {layout}); order preserved: {}", back.as_slice().iter().any(|x| x.der() == b.der()));
        }
        match Certificate::load_pemfile(&cf).await {
            Ok(c) => {
                ensure!(!certs.is_empty(), "C19:first-cert", "Certificate::load_pemfile found a certificate in a file without certificates");
                ensure!(c.der() == certs[0].der(), "C19:first-cert", "Certificate::load_pemfile did not return the first certificate of the file");
            }
            Err(PemLoadError::NoCertificateSection) => ensure!(certs.is_empty(), "C19:first-cert", "Certificate::load_pemfile reports NoCertificateSection for a file with {} certificates", certs.len()),
            Err(e) => return Err(("C19:first-cert".into(), format!("Certificate::load_pemfile on a file with {} certificates: {}", certs.len(), pem_err(&e)))),
        }
        let kback = PrivateKey::load_pemfile(&kf).await.map_err(|e| ("C19:key-roundtrip".to_string(), format!("private key stored then loaded (layout {layout}): {}", pem_err(&e))))?;
        ensure!(kback.secret_der() == key.secret_der(), "C19:key-roundtrip", "private key changed through store/load: {} -> {} bytes", key.secret_der().len(), kback.secret_der().len());
        ensure!(kback.clone_key().secret_der() == key.secret_der(), "C19:key-roundtrip", "clone_key changed the key");
        let id = Identity::load_pemfiles(&cf, &kf).await.map_err(|e| ("C19:identity-roundtrip".to_string(), format!("Identity::load_pemfiles: {}", pem_err(&e))))?;
        ensure!(id.certificate_chain().as_slice().len() == certs.len() && id.certificate_chain().as_slice().iter().zip(&certs).all(|(a, b)| a.der() == b.der()) && id.private_key().secret_der() == key.secret_der(), "C19:identity-roundtrip", "Identity::load_pemfiles returned different material");
        // every other expectation held once the data had arrived: report the late write itself
        if let Some(l) = late {
            return Err(l);
        }
        Ok(labels)
    });
    let mut labels = r?;
    labels.push(match certs.len() {
        0 => "pem:chain=0",
        1 => "pem:chain=1",
        _ => "pem:chain>=2",
    });
    labels.push(match case.key as usize % pool.keys.len() {
        0 => "pem:key:p256",
        1 => "pem:key:p384",
        _ => "pem:key:ed25519",
    });
    if layout == 0 {
        labels.push("pem:library-files");
    }
    Ok(labels)
}

fn pem_strategy() -> impl Strategy<Value = PemCase> {
    (proptest::collection::vec(0u8..14, 0..=5), 0u8..3, prop_oneof![4 => Just(0u8), 1 => Just(1u8), 1 => Just(2u8), 1 => Just(3u8), 1 => Just(4u8)]).prop_map(|(chain, key, layout)| PemCase { chain, key, layout, certs_der: vec![], key_der: None })
}

// ---------------------------------------------------------------------------------------------
// corrupt PEM
// ---------------------------------------------------------------------------------------------

/// Behaviour that the statement leaves open but is worth showing in the evidence.
static OBS: std::sync::Mutex<std::collections::BTreeMap<String, u64>> = std::sync::Mutex::new(std::collections::BTreeMap::new());

fn observe(what: &str) {
    *OBS.lock().unwrap().entry(what.to_string()).or_insert(0) += 1;
}

fn observations() -> Value {
    json!(OBS.lock().unwrap().clone())
}

#[derive(Clone, Debug, Serialize, Deserialize, Hash, PartialEq, Eq)]
pub enum Mutation {
    /// chain file cut after 1 + at % (len - 1) bytes
    Truncate { at: u32 },
    /// key file cut likewise
    TruncateKey { at: u32 },
    /// bit `bit` of byte at % len of the chain file flipped
    BitFlip { at: u32, bit: u8 },
    /// every CERTIFICATE label replaced by another label
    Relabel { label: u8 },
    /// the PKCS#8 key under a CERTIFICATE label
    KeyAsCert,
    /// section `at` holds well-formed base64 of random bytes
    GarbageBody { at: u8, len: u16, seed: u64 },
    /// section `at` holds characters outside the base64 alphabet / misplaced padding / a missing character
    BadBase64 { at: u8, kind: u8 },
    /// END line of section `at` removed
    MissingEnd { at: u8 },
    /// printable text without any section
    NoSection { seed: u64, len: u16 },
    /// arbitrary bytes
    RawBytes { seed: u64, len: u16 },
    MissingFile,
}

#[derive(Clone, Debug, Serialize, Deserialize, Hash)]
pub struct CorruptCase {
    /// 1..=4 pool indices
    pub chain: Vec<u8>,
    pub key: u8,
    pub lf: bool,
    pub m: Mutation,
    /// exact material (hex DER) of the pooled certificates / key used, embedded when a case is saved so
    /// that a replay re-executes the same bytes (the pool is regenerated by every process)
    #[serde(default, skip_serializing_if = "Vec::is_empty")]
    pub certs_der: Vec<String>,
    #[serde(default, skip_serializing_if = "Option::is_none")]
    pub key_der: Option<String>,
}

const FOREIGN_LABELS: [&str; 9] = ["CERTIFICATE REQUEST", "X509 CRL", "PUBLIC KEY", "TRUSTED CERTIFICATE", "NEW CERTIFICATE REQUEST", "FOO", "PRIVATE KEY", "RSA PRIVATE KEY", "EC PRIVATE KEY"];

fn prng_bytes(seed: u64, len: usize) -> Vec<u8> {
    let mut out = Vec::with_capacity(len + 8);
    let mut i = 0u64;
    while out.len() < len {
        out.extend_from_slice(&vcore::hash64(&("C19-bytes", seed, i)).to_le_bytes());
        i += 1;
    }
    out.truncate(len);
    out
}

struct Span {
    bstart: usize,
    bend: usize,
    eend: usize,
}

/// Concatenates sections and returns their spans (BEGIN line start, BEGIN line end, END line end; ends exclude the line terminator).
fn layout_sections(parts: &[(String, Vec<u8>)], eol: &str) -> (String, Vec<Span>) {
    let mut text = String::new();
    let mut spans = Vec::new();
    for (label, der) in parts {
        let s = pem_section(label, der, eol);
        let bstart = text.len();
        let bend = bstart + format!("-----BEGIN {label}-----").len();
        let eend = bstart + s.len() - eol.len();
        spans.push(Span { bstart, bend, eend });
        text.push_str(&s);
    }
    (text, spans)
}

#[derive(Debug, PartialEq)]
enum Cut {
    /// the prefix is a well-formed file with `k` sections
    Clean(usize),
    /// the cut falls inside a BEGIN line after `k` complete sections
    InBegin(usize),
    /// a section is open (BEGIN line complete, END line incomplete) after `k` complete sections
    Open(usize),
}

fn classify_cut(spans: &[Span], p: usize) -> Cut {
    let k = spans.iter().filter(|s| s.eend <= p).count();
    match spans.get(k) {
        None => Cut::Clean(k),
        Some(s) if p <= s.bstart => Cut::Clean(k),
        Some(s) if p < s.bend => Cut::InBegin(k),
        Some(_) => Cut::Open(k),
    }
}

struct Loads {
    chain: Result<Vec<Vec<u8>>, PemLoadError>,
    first: Result<Vec<u8>, PemLoadError>,
    key: Result<Vec<u8>, PemLoadError>,
}

fn load_all(cf: &std::path::Path, kf: &std::path::Path) -> Result<Loads, (String, String)> {
    no_panic("C19:pem-load-panic", "loading a PEM file", || {
        block_on(async {
            let chain = CertificateChain::load_pemfile(cf).await.map(|c| c.as_slice().iter().map(|c| c.der().to_vec()).collect());
            let first = Certificate::load_pemfile(cf).await.map(|c| c.der().to_vec());
            let key = PrivateKey::load_pemfile(kf).await.map(|k| k.secret_der().to_vec());
            let _ = Identity::load_pemfiles(cf, kf).await;
            Loads { chain, first, key }
        })
    })
}

fn show<T>(r: &Result<Vec<T>, PemLoadError>) -> String {
    match r {
        Ok(v) => format!("Ok({} item(s)/bytes)", v.len()),
        Err(e) => format!("Err({e:?})"),
    }
}

pub fn test_corrupt(case: &CorruptCase) -> R {
    let pool = pool();
    let (mut ders, key_der) = material(&case.chain[..case.chain.len().min(4)], case.key, &case.certs_der, &case.key_der)?;
    ders.truncate(4);
    if ders.is_empty() {
        return Err(("harness".into(), "corrupt case needs at least one certificate".into()));
    }
    let n = ders.len();
    let eol = if case.lf { "\n" } else { "\r\n" };
    let dir = tempfile::tempdir().map_err(|e| ("harness".to_string(), format!("tempdir: {e}")))?;
    let cf = dir.path().join("chain.pem");
    let kf = dir.path().join("key.pem");
    let cert_parts: Vec<(String, Vec<u8>)> = ders.iter().map(|d| ("CERTIFICATE".to_string(), d.clone())).collect();
    let (chain_text, spans) = layout_sections(&cert_parts, eol);
    let (key_text, key_spans) = layout_sections(&[("PRIVATE KEY".to_string(), key_der.clone())], eol);
    let hio = |e: std::io::Error| ("harness".to_string(), format!("harness file write: {e}"));
    let mut chain_bytes = chain_text.clone().into_bytes();
    let mut key_bytes = key_text.clone().into_bytes();
    let mut labels: Vec<&'static str> = Vec::new();
    let original = |d: &Vec<u8>| ders.iter().any(|o| o == d);
    let is_no_cert = |r: &Result<Vec<u8>, PemLoadError>| matches!(r, Err(PemLoadError::NoCertificateSection));
    let is_no_key = |r: &Result<Vec<u8>, PemLoadError>| matches!(r, Err(PemLoadError::NoPrivateKeySection));
    match &case.m {
        Mutation::Truncate { at } => {
            let p = 1 + *at as usize % (chain_bytes.len() - 1);
            chain_bytes.truncate(p);
            std::fs::write(&cf, &chain_bytes).map_err(hio)?;
            std::fs::write(&kf, &key_bytes).map_err(hio)?;
            let l = load_all(&cf, &kf)?;
            let cut = classify_cut(&spans, p);
            let prefix_ok = |v: &Vec<Vec<u8>>, k: usize| v.len() == k && v.iter().zip(&ders).all(|(a, b)| a == b);
            match cut {
                Cut::Clean(k) => {
                    ensure!(matches!(&l.chain, Ok(v) if prefix_ok(v, k)), "C19:pem-prefix-refused", "file cut at byte {p} (exactly after {k} complete sections of {n}) loads as {}", show(&l.chain));
                    labels.push("corrupt:truncate:clean");
                }
                Cut::InBegin(k) => {
                    ensure!(l.chain.as_ref().map(|v| prefix_ok(v, k)).unwrap_or(true), "C19:pem-truncated-wrong-content", "file cut at byte {p} inside a BEGIN line after {k} sections loads as {}", show(&l.chain));
                    labels.push("corrupt:truncate:in-begin-line");
                }
                Cut::Open(k) => {
                    ensure!(l.chain.is_err(), "C19:pem-truncated-accepted", "chain file of {n} certificates cut at byte {p} of {} (inside section #{k}, END line missing) loads as {}", chain_text.len(), show(&l.chain));
                    labels.push("corrupt:truncate:open-section");
                }
            }
            let k = match cut {
                Cut::Clean(k) | Cut::InBegin(k) | Cut::Open(k) => k,
            };
            if k >= 1 {
                ensure!(matches!(&l.first, Ok(d) if *d == ders[0]), "C19:first-cert", "Certificate::load_pemfile on a file whose first section is intact returned {}", show(&l.first));
            } else {
                ensure!(l.first.is_err(), "C19:pem-truncated-accepted", "Certificate::load_pemfile on a file cut at byte {p} inside its first section returned {}", show(&l.first));
            }
        }
        Mutation::TruncateKey { at } => {
            let p = 1 + *at as usize % (key_bytes.len() - 1);
            key_bytes.truncate(p);
            std::fs::write(&cf, &chain_bytes).map_err(hio)?;
            std::fs::write(&kf, &key_bytes).map_err(hio)?;
            let l = load_all(&cf, &kf)?;
            match classify_cut(&key_spans, p) {
                Cut::Clean(1) => ensure!(matches!(&l.key, Ok(k) if *k == key_der), "C19:pem-prefix-refused", "complete key section without its final line terminator loads as {}", show(&l.key)),
                _ => ensure!(l.key.is_err(), "C19:pem-truncated-accepted", "key file cut at byte {p} of {} loads as {}", key_text.len(), show(&l.key)),
            }
            labels.push("corrupt:truncate:key");
        }
        Mutation::BitFlip { at, bit } => {
            let p = *at as usize % chain_bytes.len();
            chain_bytes[p] ^= 1 << (bit % 8);
            std::fs::write(&cf, &chain_bytes).map_err(hio)?;
            std::fs::write(&kf, &key_bytes).map_err(hio)?;
            let l = load_all(&cf, &kf)?;
            if let Ok(v) = &l.chain {
                for d in v {
                    // whatever was accepted went through Certificate::from_der: its accessors must work
                    let c = Certificate::from_der(d.clone()).map_err(|e| ("C19:loaded-cert-invalid".to_string(), format!("a certificate loaded from a bit-flipped file is refused by from_der: {e}")))?;
                    no_panic("C19:accessor-panic", "serial()/hash()/to_pem() of a loaded certificate", || (c.serial(), c.hash(), c.to_pem(), format!("{c:?}")))?;
                }
                labels.push("corrupt:bitflip:loaded");
            } else {
                labels.push("corrupt:bitflip:refused");
            }
        }
        Mutation::Relabel { label } => {
            let lab = FOREIGN_LABELS[*label as usize % FOREIGN_LABELS.len()];
            let parts: Vec<(String, Vec<u8>)> = ders.iter().map(|d| (lab.to_string(), d.clone())).collect();
            let (t, _) = layout_sections(&parts, eol);
            std::fs::write(&cf, &t).map_err(hio)?;
            std::fs::write(&kf, &t).map_err(hio)?;
            let l = load_all(&cf, &kf)?;
            ensure!(is_no_cert(&l.first), "C19:foreign-label-as-certificate", "Certificate::load_pemfile on a file whose sections are labelled {lab:?} returned {} (documented: NoCertificateSection)", show(&l.first));
            ensure!(matches!(&l.chain, Ok(v) if v.is_empty()), "C19:foreign-label-as-certificate", "CertificateChain::load_pemfile on a file whose sections are labelled {lab:?} returned {} (documented: empty chain)", show(&l.chain));
            if lab.ends_with("PRIVATE KEY") {
                ensure!(l.key.as_ref().map(|k| *k == ders[0]).unwrap_or(true), "C19:key-load-content", "PrivateKey::load_pemfile returned bytes that are not the first key section");
            } else {
                ensure!(is_no_key(&l.key), "C19:foreign-label-as-key", "PrivateKey::load_pemfile on a file whose sections are labelled {lab:?} returned {} (documented: NoPrivateKeySection)", show(&l.key));
            }
            labels.push("corrupt:foreign-label");
        }
        Mutation::KeyAsCert => {
            let (t, _) = layout_sections(&[("CERTIFICATE".to_string(), key_der.clone())], eol);
            std::fs::write(&cf, &t).map_err(hio)?;
            std::fs::write(&kf, &t).map_err(hio)?;
            let l = load_all(&cf, &kf)?;
            ensure!(matches!(&l.first, Err(PemLoadError::InvalidCertificateChain { index: 0, .. })), "C19:non-certificate-der-accepted", "a PKCS#8 key under a CERTIFICATE label: Certificate::load_pemfile returned {}", show(&l.first));
            ensure!(matches!(&l.chain, Err(PemLoadError::InvalidCertificateChain { index: 0, .. })), "C19:non-certificate-der-accepted", "a PKCS#8 key under a CERTIFICATE label: CertificateChain::load_pemfile returned {}", show(&l.chain));
            ensure!(is_no_key(&l.key), "C19:foreign-label-as-key", "PrivateKey::load_pemfile on a CERTIFICATE-only file returned {}", show(&l.key));
            labels.push("corrupt:key-as-cert");
        }
        Mutation::GarbageBody { at, len, seed } => {
            let at = *at as usize % n;
            let garbage = prng_bytes(*seed, *len as usize % 1500);
            if X509Certificate::from_der(&garbage).is_ok() {
                return Err(("harness".into(), "random bytes parse as a certificate".into()));
            }
            let mut parts = cert_parts.clone();
            parts[at].1 = garbage;
            let (t, _) = layout_sections(&parts, eol);
            std::fs::write(&cf, &t).map_err(hio)?;
            std::fs::write(&kf, &key_bytes).map_err(hio)?;
            let l = load_all(&cf, &kf)?;
            ensure!(matches!(&l.chain, Err(PemLoadError::InvalidCertificateChain { index, .. }) if *index == at), "C19:garbage-der-in-chain", "chain of {n} whose section #{at} holds {} random bytes loads as {} (documented: InvalidCertificateChain with that index)", parts[at].1.len(), show(&l.chain));
            if at == 0 {
                ensure!(matches!(&l.first, Err(PemLoadError::InvalidCertificateChain { index: 0, .. })), "C19:garbage-der-in-chain", "Certificate::load_pemfile on garbage DER returned {}", show(&l.first));
            } else {
                ensure!(matches!(&l.first, Ok(d) if *d == ders[0]), "C19:first-cert", "Certificate::load_pemfile with an intact first section returned {}", show(&l.first));
            }
            ensure!(matches!(&l.key, Ok(k) if *k == key_der), "C19:key-roundtrip", "intact key file loads as {}", show(&l.key));
            labels.push("corrupt:garbage-der");
        }
        Mutation::BadBase64 { at, kind } => {
            let at = *at as usize % n;
            let body_start = spans[at].bend + eol.len();
            let mid = body_start + (spans[at].eend - body_start) / 3;
            // keep clear of line terminators
            let mid = (mid..chain_bytes.len()).find(|i| chain_bytes[*i].is_ascii_alphanumeric() && chain_bytes[i + 1].is_ascii_alphanumeric()).unwrap_or(mid);
            match kind % 4 {
                0 => {
                    chain_bytes.splice(mid..mid, *b"!!!!");
                }
                1 => {
                    chain_bytes[mid] = b'*';
                    chain_bytes[mid + 1] = b'*';
                }
                2 => {
                    chain_bytes.remove(mid);
                }
                _ => {
                    chain_bytes[mid] = b'=';
                }
            }
            std::fs::write(&cf, &chain_bytes).map_err(hio)?;
            std::fs::write(&kf, &key_bytes).map_err(hio)?;
            let l = load_all(&cf, &kf)?;
            ensure!(l.chain.is_err(), "C19:bad-base64-accepted", "chain of {n} whose section #{at} has a corrupt base64 body (kind {}) loads as {}", kind % 4, show(&l.chain));
            if at == 0 {
                ensure!(l.first.is_err(), "C19:bad-base64-accepted", "Certificate::load_pemfile on a corrupt base64 body (kind {}) returned {}", kind % 4, show(&l.first));
            } else {
                ensure!(matches!(&l.first, Ok(d) if *d == ders[0]), "C19:first-cert", "Certificate::load_pemfile with an intact first section returned {}", show(&l.first));
            }
            labels.push("corrupt:bad-base64");
        }
        Mutation::MissingEnd { at } => {
            let at = *at as usize % n;
            let end_len = "-----END CERTIFICATE-----".len() + eol.len();
            let from = spans[at].eend + eol.len() - end_len;
            chain_bytes.drain(from..from + end_len);
            std::fs::write(&cf, &chain_bytes).map_err(hio)?;
            std::fs::write(&kf, &key_bytes).map_err(hio)?;
            let l = load_all(&cf, &kf)?;
            if let Ok(v) = &l.chain {
                let fabricated = v.iter().filter(|d| !original(d)).count();
                return Err(("C19:pem-missing-end-accepted".into(), format!("chain file of {n} certificates whose section #{at} has no END line (DER length {} = {} mod 3) loads as Ok with {} certificate(s), {} of which are not byte-equal to any stored certificate (lengths {:?}, stored {:?})", ders[at].len(), ders[at].len() % 3, v.len(), fabricated, v.iter().map(|d| d.len()).collect::<Vec<_>>(), ders.iter().map(|d| d.len()).collect::<Vec<_>>())));
            }
            if at == 0 {
                ensure!(l.first.is_err(), "C19:pem-missing-end-accepted", "Certificate::load_pemfile on a first section without END line returned {}", show(&l.first));
            } else {
                ensure!(matches!(&l.first, Ok(d) if *d == ders[0]), "C19:first-cert", "Certificate::load_pemfile with an intact first section returned {}", show(&l.first));
            }
            labels.push("corrupt:missing-end");
            if at + 1 < n && ders[at].len() % 3 == 0 {
                labels.push("corrupt:missing-end:unpadded-body-followed-by-section");
            }
        }
        Mutation::NoSection { seed, len } | Mutation::RawBytes { seed, len } => {
            let raw = matches!(case.m, Mutation::RawBytes { .. });
            let mut bytes = prng_bytes(*seed, *len as usize % 3000);
            if !raw {
                for b in bytes.iter_mut() {
                    *b = match *b % 48 {
                        0 => b'\n',
                        1 => b' ',
                        2 => b'-',
                        x => B64[(x as usize + *b as usize) % 64],
                    };
                }
            }
            if bytes.windows(11).any(|w| w == b"-----BEGIN ") {
                return Err(("harness".into(), "random text contains a BEGIN marker".into()));
            }
            std::fs::write(&cf, &bytes).map_err(hio)?;
            std::fs::write(&kf, &bytes).map_err(hio)?;
            let l = load_all(&cf, &kf)?;
            ensure!(is_no_cert(&l.first), "C19:no-section", "Certificate::load_pemfile on a file without sections returned {}", show(&l.first));
            ensure!(matches!(&l.chain, Ok(v) if v.is_empty()), "C19:no-section", "CertificateChain::load_pemfile on a file without sections returned {}", show(&l.chain));
            ensure!(is_no_key(&l.key), "C19:no-section", "PrivateKey::load_pemfile on a file without sections returned {}", show(&l.key));
            labels.push(if raw { "corrupt:raw-bytes" } else { "corrupt:no-section" });
        }
        Mutation::MissingFile => {
            let l = load_all(&cf, &kf)?;
            let fe = |e: &PemLoadError| matches!(e, PemLoadError::FileError { .. });
            ensure!(matches!(&l.chain, Err(e) if fe(e)) && matches!(&l.first, Err(e) if fe(e)) && matches!(&l.key, Err(e) if fe(e)), "C19:missing-file", "loading a missing file: chain {}, first {}, key {}", show(&l.chain), show(&l.first), show(&l.key));
            labels.push("corrupt:missing-file");
        }
    }
    Ok(labels)
}

fn corrupt_strategy() -> impl Strategy<Value = CorruptCase> {
    let m = prop_oneof![
        6 => (0u32..100_000).prop_map(|at| Mutation::Truncate { at }),
        2 => (0u32..100_000).prop_map(|at| Mutation::TruncateKey { at }),
        4 => (0u32..100_000, 0u8..8).prop_map(|(at, bit)| Mutation::BitFlip { at, bit }),
        3 => (0u8..9).prop_map(|label| Mutation::Relabel { label }),
        1 => Just(Mutation::KeyAsCert),
        3 => (0u8..4, prop_oneof![Just(0u16), 1u16..40, 40u16..1500], any::<u64>()).prop_map(|(at, len, seed)| Mutation::GarbageBody { at, len, seed }),
        3 => (0u8..4, 0u8..4).prop_map(|(at, kind)| Mutation::BadBase64 { at, kind }),
        4 => (0u8..4).prop_map(|at| Mutation::MissingEnd { at }),
        1 => (any::<u64>(), 0u16..3000).prop_map(|(seed, len)| Mutation::NoSection { seed, len }),
        1 => (any::<u64>(), 0u16..3000).prop_map(|(seed, len)| Mutation::RawBytes { seed, len }),
        1 => Just(Mutation::MissingFile),
    ];
    (proptest::collection::vec(0u8..14, 1..=4), 0u8..3, any::<bool>(), m).prop_map(|(chain, key, lf, m)| CorruptCase { chain, key, lf, m, certs_der: vec![], key_der: None })
}

// ---------------------------------------------------------------------------------------------
// corrupt DER
// ---------------------------------------------------------------------------------------------

#[derive(Clone, Debug, Serialize, Deserialize, Hash, PartialEq, Eq)]
pub enum DerMut {
    /// the first at % len bytes
    Truncate { at: u32 },
    /// bit `bit` of byte at % len flipped
    BitFlip { at: u32, bit: u8 },
    Garbage { seed: u64, len: u16 },
    /// a SEQUENCE header announcing `claimed` bytes followed by `len` random bytes
    FramedGarbage { seed: u64, claimed: u16, len: u16 },
    /// a PKCS#8 private key
    KeyBytes,
    /// the certificate followed by 1 + n % 64 extra bytes
    Trailing { n: u8 },
}

#[derive(Clone, Debug, Serialize, Deserialize, Hash)]
pub struct DerCase {
    pub cert: u8,
    pub m: DerMut,
    /// exact material (hex DER) of the pooled certificates / key used, embedded when a case is saved so
    /// that a replay re-executes the same bytes (the pool is regenerated by every process)
    #[serde(default, skip_serializing_if = "Vec::is_empty")]
    pub certs_der: Vec<String>,
    #[serde(default, skip_serializing_if = "Option::is_none")]
    pub key_der: Option<String>,
}

pub fn test_der(case: &DerCase) -> R {
    let pool = pool();
    let (certs, key_bytes) = material(&[case.cert], case.cert, &case.certs_der, &case.key_der)?;
    let base = &certs[0];
    let mut labels = Vec::new();
    let (input, must_fail): (Vec<u8>, Option<bool>) = match &case.m {
        DerMut::Truncate { at } => {
            labels.push("der:truncated");
            (base[..*at as usize % base.len()].to_vec(), Some(true))
        }
        DerMut::BitFlip { at, bit } => {
            let mut v = base.clone();
            let p = *at as usize % v.len();
            v[p] ^= 1 << (bit % 8);
            labels.push("der:bitflip");
            (v, None)
        }
        DerMut::Garbage { seed, len } => {
            labels.push("der:garbage");
            (prng_bytes(*seed, *len as usize % 2000), Some(true))
        }
        DerMut::FramedGarbage { seed, claimed, len } => {
            let mut v = vec![0x30, 0x82, (*claimed >> 8) as u8, *claimed as u8];
            v.extend(prng_bytes(*seed, *len as usize % 2000));
            labels.push("der:framed-garbage");
            (v, Some(true))
        }
        DerMut::KeyBytes => {
            labels.push("der:key-bytes");
            (key_bytes.clone(), Some(true))
        }
        DerMut::Trailing { n } => {
            let mut v = base.clone();
            v.extend(prng_bytes(*n as u64, 1 + *n as usize % 64));
            labels.push("der:trailing-bytes");
            (v, Some(false))
        }
    };
    if must_fail == Some(true) && X509Certificate::from_der(&input).map(|(rem, _)| rem.is_empty()).unwrap_or(false) {
        return Err(("harness".into(), "corrupted input is still a complete certificate".into()));
    }
    let r = no_panic("C19:from_der-panic", &format!("Certificate::from_der on {} bytes ({:?})", input.len(), case.m), || Certificate::from_der(input.clone()))?;
    match r {
        Ok(c) => {
            ensure!(!matches!(case.m, DerMut::Trailing { .. }), "C19:der-trailing-bytes-accepted", "Certificate::from_der accepted pool certificate #{} ({} bytes) followed by {} extra bytes; der() and hash() of the result cover the extra bytes: ...{}", case.cert as usize % pool.certs.len(), base.len(), input.len() - base.len(), vcore::hex_short(&input[base.len().saturating_sub(4)..]));
            ensure!(must_fail != Some(true), "C19:malformed-der-accepted", "Certificate::from_der accepted {:?} of pool certificate #{} ({} of {} bytes): {}", case.m, case.cert as usize % pool.certs.len(), input.len(), base.len(), vcore::hex_short(&input));
            ensure!(c.der() == input.as_slice(), "C19:der-altered", "Certificate::der() differs from the accepted input");
            let (serial, hash, pem, _dbg) = no_panic("C19:accessor-panic", "serial()/hash()/to_pem()/Debug of an accepted certificate", || (c.serial(), c.hash(), c.to_pem(), format!("{c:?}")))?;
            ensure!(*hash.as_ref() == sha256(&input), "C19:hash-not-sha256", "hash() of an accepted certificate is not SHA-256 of its DER");
            ensure!(!serial.is_empty() && pem.starts_with("-----BEGIN CERTIFICATE-----"), "C19:accessor-output", "serial {serial:?} / PEM head {:?}", &pem[..pem.len().min(30)]);
            labels.push("der:accepted");
        }
        Err(_) => {
            labels.push("der:refused");
        }
    }
    Ok(labels)
}

fn der_strategy() -> impl Strategy<Value = DerCase> {
    let m = prop_oneof![
        4 => (0u32..100_000).prop_map(|at| DerMut::Truncate { at }),
        4 => (0u32..100_000, 0u8..8).prop_map(|(at, bit)| DerMut::BitFlip { at, bit }),
        2 => (any::<u64>(), prop_oneof![0u16..8, 8u16..2000]).prop_map(|(seed, len)| DerMut::Garbage { seed, len }),
        2 => (any::<u64>(), 0u16..2000, 0u16..2000).prop_map(|(seed, claimed, len)| DerMut::FramedGarbage { seed, claimed, len }),
        1 => Just(DerMut::KeyBytes),
        1 => (0u8..255).prop_map(|n| DerMut::Trailing { n }),
    ];
    (0u8..14, m).prop_map(|(cert, m)| DerCase { cert, m, certs_der: vec![], key_der: None })
}

// ---------------------------------------------------------------------------------------------
// digests
// ---------------------------------------------------------------------------------------------

const HEXD: &[u8; 16] = b"0123456789abcdef";

/// The documented shapes, rendered by the harness: "x0:x1:...:x31" (two lower-case hex digits per
/// byte) and "[b0, b1, ..., b31]" (decimal).
fn ref_hex(b: &[u8]) -> String {
    b.iter().map(|x| format!("{}{}", HEXD[(*x >> 4) as usize] as char, HEXD[(*x & 15) as usize] as char)).collect::<Vec<_>>().join(":")
}
fn ref_array(b: &[u8]) -> String {
    format!("[{}]", b.iter().map(|x| (*x as u32).to_string()).collect::<Vec<_>>().join(", "))
}

fn arr32(b: &[u8]) -> Option<[u8; 32]> {
    b.try_into().ok()
}

pub fn test_digest(bytes: &[u8]) -> R {
    let Some(a) = arr32(bytes) else { return Err(("harness".into(), "digest case needs 32 bytes".into())) };
    let d = Sha256Digest::new(a);
    ensure!(*d.as_ref() == a && Sha256Digest::from(a) == d, "C19:digest-bytes", "Sha256Digest::new / From / as_ref disagree for {}", vcore::hex(&a));
    for (f, name, want, other) in [(Sha256DigestFmt::BytesArray, "BytesArray", ref_array(&a), Sha256DigestFmt::DottedHex), (Sha256DigestFmt::DottedHex, "DottedHex", ref_hex(&a), Sha256DigestFmt::BytesArray)] {
        let text = no_panic("C19:digest-panic", "Sha256Digest::fmt", || d.fmt(f))?;
        ensure!(text == want, "C19:digest-text-shape", "fmt({name}) of {} = {text:?}, documented shape gives {want:?}", vcore::hex(&a));
        let back = no_panic("C19:digest-panic", "Sha256Digest::from_str_fmt", || Sha256Digest::from_str_fmt(&text, f))?;
        ensure!(matches!(&back, Ok(x) if *x == d), "C19:digest-roundtrip", "from_str_fmt(fmt({name})) of {} = {:?}", vcore::hex(&a), back.map(|x| vcore::hex(x.as_ref())));
        let parsed = no_panic("C19:digest-panic", "Sha256Digest::from_str", || Sha256Digest::from_str(&text))?;
        ensure!(matches!(&parsed, Ok(x) if *x == d), "C19:digest-roundtrip", "{name} text {text:?} parsed with FromStr gives {:?}", parsed.map(|x| vcore::hex(x.as_ref())));
        let cross = no_panic("C19:digest-panic", "Sha256Digest::from_str_fmt", || Sha256Digest::from_str_fmt(&text, other))?;
        ensure!(cross.is_err(), "C19:digest-cross-format", "{name} text {text:?} accepted when parsed as the other format");
    }
    let shown = no_panic("C19:digest-panic", "Display", || d.to_string())?;
    ensure!(shown == ref_hex(&a) || shown == ref_array(&a), "C19:digest-text-shape", "Display of {} = {shown:?}, neither documented shape", vcore::hex(&a));
    let back = no_panic("C19:digest-panic", "FromStr", || shown.parse::<Sha256Digest>())?;
    ensure!(matches!(&back, Ok(x) if *x == d), "C19:digest-roundtrip", "to_string().parse() of {} = {:?}", vcore::hex(&a), back.map(|x| vcore::hex(x.as_ref())));
    let mut labels = Vec::new();
    if a.contains(&0) && a.contains(&0xff) {
        labels.push("digest:00+ff");
    }
    if a.iter().any(|b| *b < 16) {
        labels.push("digest:byte<16");
    }
    Ok(labels)
}

#[derive(Clone, Debug, Serialize, Deserialize, Hash, PartialEq, Eq)]
pub enum BadDigest {
    /// `n` != 32 well-formed elements
    Count { n: u8 },
    /// element `at` is 256..=70000
    OutOfRange { at: u8, value: u32 },
    /// element `at` is negative
    Negative { at: u8 },
    /// element `at` is not a number of the format
    Junk { at: u8, junk: u8 },
    /// 32 well-formed elements joined by another separator
    Separator { sep: u8 },
    /// well-formed text with random character edits (op 0 delete, 1 insert, 2 replace): only "no panic" and self-consistency are judged
    Edited { edits: Vec<(u16, u8, u8)> },
    /// arbitrary text: likewise
    Raw { text: String },
}

#[derive(Clone, Debug, Serialize, Deserialize, Hash)]
pub struct BadDigestCase {
    pub bytes: Vec<u8>,
    /// false: "[b0, b1, ...]" ; true: "x0:x1:..."
    pub hex: bool,
    pub m: BadDigest,
}

const JUNK_DEC: [&str; 10] = ["", "x", "1.5", "0x1f", "1 2", "١٢", "１２", "ff", "1e1", "²"];
const JUNK_HEX: [&str; 10] = ["", "g1", "0x1f", "1 f", "١٢", "ｆｆ", "zz", "1.0", "f_f", "²"];
const SEP_DEC: [&str; 5] = ["; ", " ", ":", ",,", "|"];
const SEP_HEX: [&str; 6] = ["-", " ", ",", "", "::", "."];

pub fn test_bad_digest(c: &BadDigestCase) -> R {
    let Some(a) = arr32(&c.bytes) else { return Err(("harness".into(), "digest case needs 32 bytes".into())) };
    let f = if c.hex { Sha256DigestFmt::DottedHex } else { Sha256DigestFmt::BytesArray };
    let el = |b: u8| if c.hex { format!("{b:02x}") } else { b.to_string() };
    let wrap = |els: Vec<String>, sep: &str| if c.hex { els.join(sep) } else { format!("[{}]", els.join(sep)) };
    let sep = if c.hex { ":" } else { ", " };
    let mut els: Vec<String> = a.iter().map(|b| el(*b)).collect();
    let mut labels = Vec::new();
    // (text, must be refused by from_str_fmt, must be refused by FromStr)
    let (text, firm, firm_from_str) = match &c.m {
        BadDigest::Count { n } => {
            let n = if *n % 41 == 32 { 31 } else { *n as usize % 41 };
            let v: Vec<String> = (0..n).map(|i| el(a[i % 32])).collect();
            labels.push("bad-digest:count");
            (wrap(v, sep), true, true)
        }
        BadDigest::OutOfRange { at, value } => {
            let v = 256 + value % 69_745;
            els[*at as usize % 32] = if c.hex { format!("{v:x}") } else { v.to_string() };
            labels.push("bad-digest:out-of-range");
            (wrap(els, sep), true, true)
        }
        BadDigest::Negative { at } => {
            els[*at as usize % 32] = format!("-{}", el(a[*at as usize % 32].max(1)));
            labels.push("bad-digest:negative");
            (wrap(els, sep), true, true)
        }
        BadDigest::Junk { at, junk } => {
            els[*at as usize % 32] = if c.hex { JUNK_HEX[*junk as usize % JUNK_HEX.len()] } else { JUNK_DEC[*junk as usize % JUNK_DEC.len()] }.to_string();
            labels.push("bad-digest:junk-element");
            (wrap(els, sep), true, true)
        }
        BadDigest::Separator { sep } => {
            let s = if c.hex { SEP_HEX[*sep as usize % SEP_HEX.len()] } else { SEP_DEC[*sep as usize % SEP_DEC.len()] };
            labels.push("bad-digest:separator");
            // FromStr also tries the other format, where e.g. "12,34,..." may be a legitimate reading
            (wrap(els, s), true, false)
        }
        BadDigest::Edited { edits } => {
            let mut t: Vec<char> = wrap(els, sep).chars().collect();
            for (pos, op, ch) in edits {
                if t.is_empty() {
                    break;
                }
                let p = *pos as usize % t.len();
                const EDIT_CHARS: &[u8] = b" ,:[]0123456789abcdefABCDEFxX+-_.\n\t\"'{}";
                let ch = EDIT_CHARS[*ch as usize % EDIT_CHARS.len()] as char;
                match op % 3 {
                    0 => {
                        t.remove(p);
                    }
                    1 => t.insert(p, ch),
                    _ => t[p] = ch,
                }
            }
            labels.push("bad-digest:edited");
            (t.into_iter().collect(), false, false)
        }
        BadDigest::Raw { text } => {
            labels.push("bad-digest:raw");
            (text.clone(), false, false)
        }
    };
    let r = no_panic("C19:digest-panic", &format!("from_str_fmt({text:?})"), || Sha256Digest::from_str_fmt(&text, f))?;
    let r2 = no_panic("C19:digest-panic", &format!("from_str({text:?})"), || Sha256Digest::from_str(&text))?;
    let r3 = no_panic("C19:digest-panic", &format!("from_str_fmt({text:?})"), || Sha256Digest::from_str_fmt(&text, if c.hex { Sha256DigestFmt::BytesArray } else { Sha256DigestFmt::DottedHex }))?;
    if firm {
        ensure!(r.is_err(), "C19:malformed-digest-accepted", "from_str_fmt accepted {:?} text {text:?} ({:?}) as {}", f, c.m, r.as_ref().map(|d| vcore::hex(d.as_ref())).unwrap_or_default());
    }
    if firm_from_str {
        ensure!(r2.is_err(), "C19:malformed-digest-accepted", "FromStr accepted {text:?} ({:?}) as {}", c.m, r2.as_ref().map(|d| vcore::hex(d.as_ref())).unwrap_or_default());
    }
    for d in [&r, &r2, &r3].into_iter().flatten() {
        // whatever was accepted is a digest that formats and parses back to itself
        for g in [Sha256DigestFmt::BytesArray, Sha256DigestFmt::DottedHex] {
            let t = d.fmt(g);
            ensure!(matches!(Sha256Digest::from_str_fmt(&t, g), Ok(x) if x == *d), "C19:digest-roundtrip", "digest accepted from {text:?} does not round-trip");
        }
        labels.push("bad-digest:lenient-accept");
    }
    Ok(labels)
}

fn digest_strategy() -> impl Strategy<Value = Vec<u8>> {
    prop_oneof![
        3 => any::<[u8; 32]>().prop_map(|a| a.to_vec()),
        3 => proptest::collection::vec(prop_oneof![Just(0u8), Just(0xffu8), 0u8..16, any::<u8>(), Just(0x0a), Just(100), Just(0x7f), Just(0x80)], 32),
        1 => any::<u8>().prop_map(|b| vec![b; 32]),
    ]
}

fn bad_digest_strategy() -> impl Strategy<Value = BadDigestCase> {
    let m = prop_oneof![
        3 => (0u8..41).prop_map(|n| BadDigest::Count { n }),
        3 => (0u8..32, prop_oneof![0u32..4, 0u32..69_745, Just(65_535 - 256), Just(65_536 - 256)]).prop_map(|(at, value)| BadDigest::OutOfRange { at, value }),
        1 => (0u8..32).prop_map(|at| BadDigest::Negative { at }),
        3 => (0u8..32, 0u8..10).prop_map(|(at, junk)| BadDigest::Junk { at, junk }),
        2 => (0u8..6).prop_map(|sep| BadDigest::Separator { sep }),
        3 => proptest::collection::vec((any::<u16>(), 0u8..3, 0u8..40), 1..4).prop_map(|edits| BadDigest::Edited { edits }),
        2 => prop_oneof!["\\PC{0,40}", "[\\[\\]0-9a-f:, ]{0,120}", "(\\[)?([0-9]{1,3}, ){20,40}[0-9]{1,3}(\\])?", "([0-9a-fA-F]{1,3}:){20,40}[0-9a-f]{1,2}"].prop_map(|text| BadDigest::Raw { text }),
    ];
    (digest_strategy(), any::<bool>(), m).prop_map(|(bytes, hex, m)| BadDigestCase { bytes, hex, m })
}

// ---------------------------------------------------------------------------------------------
// SEC1 key through store/load (observation; the stated byte-for-byte oracle is still judged)
// ---------------------------------------------------------------------------------------------

/// (tag, content, rest) of the first DER TLV in `b` (definite lengths only).
fn tlv(b: &[u8]) -> Option<(u8, &[u8], &[u8])> {
    let tag = *b.first()?;
    let l0 = *b.get(1)? as usize;
    let (len, hdr) = if l0 < 0x80 {
        (l0, 2)
    } else {
        let n = l0 & 0x7f;
        if n == 0 || n > 3 {
            return None;
        }
        let mut v = 0usize;
        for i in 0..n {
            v = v << 8 | *b.get(2 + i)? as usize;
        }
        (v, 2 + n)
    };
    Some((tag, b.get(hdr..hdr + len)?, &b[hdr + len..]))
}

/// The SEC1 ECPrivateKey carried inside a PKCS#8 PrivateKeyInfo.
fn sec1_of_pkcs8(p8: &[u8]) -> Option<Vec<u8>> {
    let (t, body, _) = tlv(p8)?;
    if t != 0x30 {
        return None;
    }
    let (_, _, rest) = tlv(body)?; // version
    let (_, _, rest) = tlv(rest)?; // algorithm
    let (t, key, _) = tlv(rest)?;
    (t == 0x04).then(|| key.to_vec())
}

fn test_sec1_roundtrip() -> R {
    let pool = pool();
    let sec1 = sec1_of_pkcs8(&pool.keys[0]).ok_or(("harness".to_string(), "cannot unwrap the PKCS#8 key".to_string()))?;
    let dir = tempfile::tempdir().map_err(|e| ("harness".to_string(), e.to_string()))?;
    let (f1, f2) = (dir.path().join("sec1.pem"), dir.path().join("stored.pem"));
    std::fs::write(&f1, pem_section("EC PRIVATE KEY", &sec1, "\n")).map_err(|e| ("harness".to_string(), e.to_string()))?;
    let (loaded, back) = block_on(async {
        let loaded = PrivateKey::load_pemfile(&f1).await;
        let back = match &loaded {
            Ok(k) => match k.store_secret_pemfile(&f2).await {
                Ok(()) => Some(PrivateKey::load_pemfile(&f2).await),
                Err(_) => None,
            },
            Err(_) => None,
        };
        (loaded, back)
    });
    let loaded = loaded.map_err(|e| ("C19:sec1-key-refused".to_string(), format!("PrivateKey::load_pemfile refuses an 'EC PRIVATE KEY' section: {}", pem_err(&e))))?;
    ensure!(loaded.secret_der() == sec1.as_slice(), "C19:key-roundtrip", "SEC1 key bytes changed on load");
    let back = back.ok_or(("C19:store-failed".to_string(), "store_secret_pemfile failed".to_string()))?.map_err(|e| ("C19:key-roundtrip".to_string(), format!("SEC1 key stored then loaded: {}", pem_err(&e))))?;
    ensure!(back.secret_der() == sec1.as_slice(), "C19:key-roundtrip", "SEC1 key bytes changed through store/load");
    // usability before / after (beyond the byte-for-byte statement: recorded only)
    let cert = Certificate::from_der(pool.certs[0].clone()).map_err(|e| ("harness".to_string(), e.to_string()))?;
    let usable = |k: &PrivateKey| vcore::catch(|| wtransport::tls::server::build_default_tls_config(Identity::new(CertificateChain::single(cert.clone()), k.clone_key()))).is_ok();
    let (before, after) = (usable(&loaded), usable(&back));
    observe(&format!("a SEC1 'EC PRIVATE KEY' loaded with PrivateKey::load_pemfile is {} for tls::server::build_default_tls_config; after store_secret_pemfile + load_pemfile (bytes identical, but written under the PKCS#8 label 'PRIVATE KEY') it is {}", if before { "usable" } else { "unusable (panic)" }, if after { "usable" } else { "unusable (panic)" }));
    Ok(vec!["pem:sec1-key"])
}

// ---------------------------------------------------------------------------------------------

fn record(run: &Run, check: &str, case: Value, fp: u64, o: Outcome) {
    match o {
        Outcome::Pass { nontrivial, labels } => {
            run.eval(check, nontrivial, fp);
            for l in labels {
                run.label(l);
            }
            if nontrivial && run.wants_sample(check) {
                run.sample(check, || vcore::abbreviate(case));
            }
        }
        Outcome::Fail { signature, message } => {
            run.eval(check, false, 0);
            if signature == "harness" {
                run.inconclusive(&format!("{check}: {message}"));
            } else {
                run.fail(check, &signature, &message, case);
            }
        }
        Outcome::Inconclusive(w) => run.inconclusive(&format!("{check}: {w}")),
    }
}

fn harness_guard(o: Outcome) -> Outcome {
    match o {
        Outcome::Fail { signature, message } if signature == "harness" => Outcome::Inconclusive(message),
        o => o,
    }
}

fn run_identity(c: &IdCase) -> Outcome {
    harness_guard(to_outcome(vcore::catch(|| test_identity(c)), id_nontrivial(c)))
}
fn run_pem(c: &PemCase) -> Outcome {
    harness_guard(to_outcome(vcore::catch(|| test_pem(c)), c.chain.len() >= 2))
}
fn run_corrupt(c: &CorruptCase) -> Outcome {
    harness_guard(to_outcome(vcore::catch(|| test_corrupt(c)), true))
}
fn run_der(c: &DerCase) -> Outcome {
    harness_guard(to_outcome(vcore::catch(|| test_der(c)), true))
}
fn run_digest(b: &Vec<u8>) -> Outcome {
    harness_guard(to_outcome(vcore::catch(|| test_digest(b)), b.contains(&0) && b.contains(&0xff)))
}
fn run_bad_digest(c: &BadDigestCase) -> Outcome {
    harness_guard(to_outcome(vcore::catch(|| test_bad_digest(c)), true))
}

fn dns(s: &str) -> San {
    San::Dns(s.to_string())
}
fn ip(s: &str) -> San {
    let a: IpAddr = s.parse().expect("table IP");
    San::Ip {
        text: s.to_string(),
        bytes: match a {
            IpAddr::V4(v) => v.octets().to_vec(),
            IpAddr::V6(v) => v.octets().to_vec(),
        },
    }
}

pub fn run(run: &Run) {
    run.set_rule(RULE);
    run.assume("'valid now' is judged against the wall clock read immediately before and after the build (whole seconds); from-now validity shorter than 60 s is not judged for 'valid now'");
    run.assume("SAN text that is ASCII but neither a host name nor an unambiguous IP literal (empty string, spaces, '[::1]', zone ids, zero-padded octets) may be refused or carried verbatim as dNSName: the rustdoc only promises an error for non-IA5 names");
    run.assume("when a non-UTC not_before/not_after straddles the 1950/2050 UTCTime/GeneralizedTime switch the generated certificate uses an unusual time encoding; its acceptance by hash pinning is left to C10");
    run.assume("a panic of the builder for exotic date inputs (non-UTC offsets around the 1950/2050 encoding switch) produces no identity and involves no text input, so it is outside the statement: recorded under 'observations', not judged");
    run.assume("digest text: only wrong element count, out-of-range / negative / non-numeric elements and foreign separators are treated as malformed; leniencies of the parser (missing brackets, extra spaces, upper-case or one-digit hex) are left open and only checked for self-consistency");
    run.trust("x509-parser for reading the generated DER; rcgen/ring for pool certificates and for matching the private key to the certificate; sha2 for reference digests; harness-side PEM/base64 codec; tempfile + tokio current-thread runtime for the async file functions");
    run.extra("verifier_access", json!("wtransport::tls::client::ServerHashVerification::new([cert.hash()]) through rustls ServerCertVerifier::verify_server_cert (public API)"));
    let workers = run.workers();
    let _ = pool();

    // identity: fixed table first (documented examples and one case per builder path)
    let san_lists: Vec<Vec<San>> = vec![
        vec![dns("localhost"), ip("127.0.0.1"), ip("::1")],
        vec![],
        vec![dns("example.org")],
        vec![ip("192.0.2.7")],
        vec![ip("2001:db8::1"), dns("*.example.org"), dns("xn--bcher-kva.example"), ip("10.0.0.1")],
        vec![dns("a.example"), dns("a.example"), ip("::ffff:192.0.2.1"), San::Ip { text: "2001:0DB8:0000:0000:0000:0000:0000:0001".into(), bytes: "2001:db8::1".parse::<Ipv6Addr>().unwrap().octets().to_vec() }],
        vec![San::NonAscii("❤️".into())],
        vec![dns("ok.example"), San::NonAscii("bücher.example".into()), ip("127.0.0.1")],
        vec![San::Odd(String::new())],
        vec![dns("h1.example"), dns("h2.example"), dns("h3.example"), dns("h4.example"), ip("1.1.1.1"), ip("2.2.2.2"), ip("::2"), ip("::3")],
    ];
    let now = unix_now();
    let validities = vec![
        Validity::Default,
        Validity::FromNowDays { days: 14 },
        Validity::FromNowDays { days: 15 },
        Validity::FromNowDays { days: 1 },
        Validity::FromNowDays { days: 0 },
        Validity::FromNowOffset { secs: 14 * DAY },
        Validity::FromNowOffset { secs: 14 * DAY + 1 },
        Validity::FromNowOffset { secs: 3600 },
        Validity::NotBeforeNotAfter { nb: now - 3600, len: 14 * DAY, off_min: 0 },
        Validity::NotBeforeNotAfter { nb: now - 3600, len: 14 * DAY + 1, off_min: 120 },
        Validity::Period { nb: 2_524_608_000 - DAY, len: 2 * DAY, off_min: -300 },
        Validity::Period { nb: 1_000_000_000, len: 1, off_min: 0 },
        Validity::Period { nb: 2_524_608_000, len: DAY, off_min: -720 },
        Validity::NotBeforeDays { nb: now, days: 14, off_min: 345 },
        Validity::NotBeforeDays { nb: 2_147_483_647 - DAY, days: 7, off_min: 0 },
        Validity::NotBeforeOffset { nb: now - 10 * DAY, secs: 9 * DAY, off_min: 0 },
        Validity::NotBeforeOffset { nb: now, secs: 365 * DAY, off_min: -720 },
    ];
    let table: Vec<IdCase> = san_lists.iter().flat_map(|s| validities.iter().map(move |v| IdCase { sans: s.clone(), validity: v.clone() })).collect();
    vcore::par_ranges(workers, table.len() as u64, |_w, range| {
        for i in range {
            let c = &table[i as usize];
            record(run, "identity-table", serde_json::to_value(c).unwrap(), vcore::hash64(c), run_identity(c));
        }
    });
    run.section_exhaustive("identity-table", true, "10 SAN lists (documented examples, empty, DNS only, IP only, mixed, duplicates, non-ASCII, odd) x 17 validity settings covering every builder path");
    prop_search(run, Search { check: "identity", cases: run.tier.pick(12_000, 80_000), workers, max_shrink_iters: 300 }, id_strategy, run_identity, |c| serde_json::to_value(c).unwrap());

    // PEM round trip: full table chain length x key x layout, then random
    let pem_table: Vec<PemCase> = (0..=5usize).flat_map(|n| (0..3u8).flat_map(move |key| (0..5u8).map(move |layout| PemCase { chain: (0..n).map(|i| ((i * 5 + n + key as usize * 3 + layout as usize) % 14) as u8).collect(), key, layout, certs_der: vec![], key_der: None }))).collect();
    vcore::par_ranges(workers, pem_table.len() as u64, |_w, range| {
        for i in range {
            let c = &pem_table[i as usize];
            record(run, "pem-table", c.saved(), vcore::hash64(c), run_pem(c));
        }
    });
    run.section_exhaustive("pem-table", true, "chain length 0..=5 x key algorithm x 5 file layouts");
    prop_search(run, Search { check: "pem-roundtrip", cases: run.tier.pick(4_000, 30_000), workers, max_shrink_iters: 200 }, pem_strategy, run_pem, |c| c.saved());
    record(run, "pem-sec1", json!({"key": "pool key 0 as SEC1"}), 1, harness_guard(to_outcome(vcore::catch(test_sec1_roundtrip), true)));

    // corrupt PEM: cut a two-certificate file at every byte, drop each END line, then random
    let cut_len = {
        let p = pool();
        let parts: Vec<(String, Vec<u8>)> = [0usize, 9].iter().map(|i| ("CERTIFICATE".to_string(), p.certs[*i].clone())).collect();
        layout_sections(&parts, "\r\n").0.len() as u64
    };
    let stride = run.tier.pick(3u64, 1);
    vcore::par_ranges(workers, (cut_len - 1) / stride, |_w, range| {
        for i in range {
            let c = CorruptCase { chain: vec![0, 9], key: 0, lf: false, m: Mutation::Truncate { at: (i * stride) as u32 }, certs_der: vec![], key_der: None };
            record(run, "pem-cut-table", c.saved(), vcore::hash64(&c), run_corrupt(&c));
        }
    });
    run.section_exhaustive("pem-cut-table", stride == 1, "a chain file of pool certificates #0 and #9 cut after every byte (quick: every third byte)");
    let mut fixed: Vec<CorruptCase> = Vec::new();
    for first in 0..14u8 {
        for lf in [false, true] {
            fixed.push(CorruptCase { chain: vec![first, 0], key: 0, lf, m: Mutation::MissingEnd { at: 0 }, certs_der: vec![], key_der: None });
            fixed.push(CorruptCase { chain: vec![0, first], key: 0, lf, m: Mutation::MissingEnd { at: 1 }, certs_der: vec![], key_der: None });
        }
    }
    for label in 0..FOREIGN_LABELS.len() as u8 {
        fixed.push(CorruptCase { chain: vec![1, 2], key: 1, lf: true, m: Mutation::Relabel { label }, certs_der: vec![], key_der: None });
    }
    for kind in 0..4u8 {
        for at in 0..2u8 {
            fixed.push(CorruptCase { chain: vec![3, 4], key: 2, lf: false, m: Mutation::BadBase64 { at, kind }, certs_der: vec![], key_der: None });
        }
    }
    fixed.push(CorruptCase { chain: vec![0], key: 0, lf: false, m: Mutation::KeyAsCert, certs_der: vec![], key_der: None });
    fixed.push(CorruptCase { chain: vec![0], key: 0, lf: false, m: Mutation::MissingFile, certs_der: vec![], key_der: None });
    for at in 0..200u32 {
        fixed.push(CorruptCase { chain: vec![0], key: (at % 3) as u8, lf: at % 2 == 0, m: Mutation::TruncateKey { at: at * 7 }, certs_der: vec![], key_der: None });
    }
    // cuts exactly at and around the section boundaries of a three-certificate file
    for lf in [false, true] {
        let eol = if lf { "\n" } else { "\r\n" };
        let chain = vec![2u8, 10, 5];
        let parts: Vec<(String, Vec<u8>)> = chain.iter().map(|i| ("CERTIFICATE".to_string(), pool().certs[*i as usize].clone())).collect();
        let (text, spans) = layout_sections(&parts, eol);
        for s in &spans {
            for p in [s.bstart, s.bstart + 1, s.bstart + 10, s.bstart + 11, s.bend - 1, s.bend, s.bend + 1, s.eend - 1, s.eend, s.eend + 1, s.eend + eol.len()] {
                if p >= 1 && p < text.len() {
                    fixed.push(CorruptCase { chain: chain.clone(), key: 0, lf, m: Mutation::Truncate { at: (p - 1) as u32 }, certs_der: vec![], key_der: None });
                }
            }
        }
    }
    vcore::par_ranges(workers, fixed.len() as u64, |_w, range| {
        for i in range {
            let c = &fixed[i as usize];
            record(run, "pem-corrupt-table", c.saved(), vcore::hash64(c), run_corrupt(c));
        }
    });
    run.section_exhaustive("pem-corrupt-table", true, "missing END line for every pool certificate as first / second section, every foreign label, every base64 corruption kind x position, key as certificate, missing file, 200 key-file cuts, cuts at and around every section boundary of a three-certificate file (CRLF and LF)");
    prop_search(run, Search { check: "pem-corrupt", cases: run.tier.pick(4_000, 40_000), workers, max_shrink_iters: 200 }, corrupt_strategy, run_corrupt, |c| c.saved());

    // corrupt DER: every prefix and every single-bit flip of pool certificate #0, then random
    let n0 = pool().certs[0].len() as u64;
    vcore::par_ranges(workers, n0 * 9, |_w, range| {
        for i in range {
            let c = if i < n0 { DerCase { cert: 0, m: DerMut::Truncate { at: i as u32 }, certs_der: vec![], key_der: None } } else { DerCase { cert: 0, m: DerMut::BitFlip { at: ((i - n0) / 8) as u32, bit: ((i - n0) % 8) as u8 }, certs_der: vec![], key_der: None } };
            record(run, "der-table", c.saved(), vcore::hash64(&c), run_der(&c));
        }
    });
    for cert in [0u8, 9, 10, 11, 13] {
        for n in [0u8, 1, 2, 15, 63] {
            let c = DerCase { cert, m: DerMut::Trailing { n }, certs_der: vec![], key_der: None };
            record(run, "der-table", c.saved(), vcore::hash64(&c), run_der(&c));
        }
        let c = DerCase { cert, m: DerMut::KeyBytes, certs_der: vec![], key_der: None };
        record(run, "der-table", c.saved(), vcore::hash64(&c), run_der(&c));
        for k in 0..8u64 {
            for m in [DerMut::Garbage { seed: k, len: [0u16, 1, 2, 5, 64, 300, 1000, 1999][k as usize] }, DerMut::FramedGarbage { seed: k, claimed: [0u16, 4, 300, 300, 1000, 65535, 2, 500][k as usize], len: [0u16, 4, 300, 200, 1500, 10, 600, 500][k as usize] }] {
                let c = DerCase { cert, m, certs_der: vec![], key_der: None };
                record(run, "der-table", c.saved(), vcore::hash64(&c), run_der(&c));
            }
        }
    }
    run.section_exhaustive("der-table", true, "every proper prefix and every single-bit flip of pool certificate #0; 5 pool certificates followed by 1, 2, 3, 16, 64 extra bytes; PKCS#8 keys as certificate; random and SEQUENCE-framed garbage of 8 sizes");
    prop_search(run, Search { check: "der-corrupt", cases: run.tier.pick(6_000, 60_000), workers, max_shrink_iters: 300 }, der_strategy, run_der, |c| c.saved());

    // digests: every byte value at every position, then random
    vcore::par_ranges(workers, 32 * 256, |_w, range| {
        for i in range {
            let mut b = vec![(i % 251) as u8 ^ 0x5a; 32];
            b[(i / 256) as usize] = (i % 256) as u8;
            b[((i / 256 + 7) % 32) as usize] = 0;
            b[((i / 256 + 13) % 32) as usize] = 0xff;
            record(run, "digest-table", json!({ "bytes": b }), vcore::hash64(&b), run_digest(&b));
        }
    });
    for b in [vec![0u8; 32], vec![0xff; 32], (0..32u8).collect::<Vec<_>>(), (0..32u8).map(|i| 255 - i).collect(), vec![0x0f; 32], vec![0xf0; 32], [vec![0u8; 16], vec![0xff; 16]].concat()] {
        record(run, "digest-table", json!({ "bytes": b }), vcore::hash64(&b), run_digest(&b));
    }
    run.section_exhaustive("digest-table", true, "every byte value at every position (32 x 256) plus constant / ramp digests");
    prop_search(run, Search { check: "digest-random", cases: run.tier.pick(60_000, 600_000), workers, max_shrink_iters: 500 }, digest_strategy, run_digest, |b| json!({ "bytes": b }));
    let mut bad: Vec<BadDigestCase> = Vec::new();
    for hex in [false, true] {
        for n in 0..41u8 {
            bad.push(BadDigestCase { bytes: (0..32u8).map(|i| i.wrapping_mul(37) ^ n).collect(), hex, m: BadDigest::Count { n } });
        }
        for at in [0u8, 15, 31] {
            for value in [0u32, 1, 44, 744, 65_279, 65_280] {
                bad.push(BadDigestCase { bytes: vec![at; 32], hex, m: BadDigest::OutOfRange { at, value } });
            }
            for junk in 0..10u8 {
                bad.push(BadDigestCase { bytes: vec![200; 32], hex, m: BadDigest::Junk { at, junk } });
            }
            bad.push(BadDigestCase { bytes: vec![9; 32], hex, m: BadDigest::Negative { at } });
        }
        for sep in 0..6u8 {
            bad.push(BadDigestCase { bytes: (100..132u8).collect(), hex, m: BadDigest::Separator { sep } });
            bad.push(BadDigestCase { bytes: vec![0x12; 32], hex, m: BadDigest::Separator { sep } });
        }
        for text in ["", "[]", "invalid_digest", "[", "]", ":", ",", "[,]", "::", "0", "[0]", "\u{0}", "[1, 2, 3", "ff:ff"] {
            bad.push(BadDigestCase { bytes: vec![1; 32], hex, m: BadDigest::Raw { text: text.to_string() } });
        }
    }
    for c in &bad {
        record(run, "digest-malformed-table", serde_json::to_value(c).unwrap(), vcore::hash64(c), run_bad_digest(c));
    }
    run.section_exhaustive("digest-malformed-table", true, "both formats x {element counts 0..=40 except 32, out-of-range values at first/middle/last position, every junk element, negative element, every foreign separator, fixed junk texts}");
    prop_search(run, Search { check: "digest-malformed", cases: run.tier.pick(40_000, 400_000), workers, max_shrink_iters: 500 }, bad_digest_strategy, run_bad_digest, |c| serde_json::to_value(c).unwrap());

    run.extra("observations", observations());
    for l in [
        "id:dns+ip", "id:ipv4", "id:ipv6", "id:wildcard", "id:punycode", "id:no-san", "id:non-ascii-refused", "id:non-utc-offset", "id:pin-own-hash-accepted", "id:pin-own-hash-refused>14d",
        "id:path:self_signed", "id:path:from_now+validity_days", "id:path:from_now+offset", "id:path:not_before+not_after", "id:path:validity_period", "id:path:not_before+validity_days", "id:path:not_before+offset",
        "pem:chain=0", "pem:chain=1", "pem:chain>=2", "pem:key:p256", "pem:key:p384", "pem:key:ed25519", "pem:library-files", "pem:overwrite", "pem:shared-file-key-first", "pem:shared-file-with-text", "pem:lf-line-endings",
        "corrupt:truncate:clean", "corrupt:truncate:in-begin-line", "corrupt:truncate:open-section", "corrupt:truncate:key", "corrupt:foreign-label", "corrupt:key-as-cert", "corrupt:garbage-der", "corrupt:bad-base64", "corrupt:missing-end", "corrupt:no-section", "corrupt:raw-bytes", "corrupt:missing-file",
        "der:truncated", "der:bitflip", "der:garbage", "der:framed-garbage", "der:key-bytes", "der:refused",
        "digest:00+ff", "digest:byte<16", "bad-digest:count", "bad-digest:out-of-range", "bad-digest:negative", "bad-digest:junk-element", "bad-digest:separator", "bad-digest:edited", "bad-digest:raw",
    ] {
        run.essential(l);
    }
}

pub fn replay(run: &Run, doc: &Value) -> bool {
    let check = doc["check"].as_str().unwrap_or("");
    let case = doc["case"].clone();
    fn de<T: serde::de::DeserializeOwned>(v: &Value) -> Option<T> {
        serde_json::from_value(v.clone()).ok()
    }
    let o = match check {
        "identity" | "identity-table" => de::<IdCase>(&case).map(|c| run_identity(&c)),
        // the store functions race with a background write: give the race 40 chances
        "pem-roundtrip" | "pem-table" => de::<PemCase>(&case).map(|c| {
            let mut o = run_pem(&c);
            for _ in 0..40 {
                if matches!(o, Outcome::Fail { .. }) {
                    break;
                }
                o = run_pem(&c);
            }
            o
        }),
        "pem-sec1" => Some(harness_guard(to_outcome(vcore::catch(test_sec1_roundtrip), true))),
        "pem-corrupt" | "pem-corrupt-table" | "pem-cut-table" => de::<CorruptCase>(&case).map(|c| run_corrupt(&c)),
        "der-corrupt" | "der-table" => de::<DerCase>(&case).map(|c| run_der(&c)),
        "digest-random" | "digest-table" => de::<Vec<u8>>(&case["bytes"]).map(|b| run_digest(&b)),
        "digest-malformed" | "digest-malformed-table" => de::<BadDigestCase>(&case).map(|c| run_bad_digest(&c)),
        _ => None,
    };
    let Some(o) = o else { return false };
    record(run, check, case, 1, o);
    run.extra("observations", observations());
    true
}
