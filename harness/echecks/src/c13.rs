//! C13 (end-to-end half) — unknown and GREASE elements never change the outcome of an exchange.

use crate::common::*;
use proptest::prelude::*;
use refcodec::registry as reg;
use serde::{Deserialize, Serialize};
use serde_json::Value;
use std::sync::Arc;
use std::time::Duration;
use vcore::{prop_search, Outcome, Run, Search};
use wire::*;

const RULE: &str = "end-to-end metamorphic: a valid exchange driven by the raw peer (control stream with SETTINGS, extended CONNECT request / response, an application stream echo, a final close capsule with generated code and reason) is run with generated insertions: GREASE and unknown frames (GOAWAY, MAX_PUSH_ID, CANCEL_PUSH, PRIORITY_UPDATE and random non-reserved types of every varint width; payloads that look like frames) on the control stream after SETTINGS; GREASE and unknown non-reserved frames before the request / response HEADERS and on the established session stream; unknown and GREASE setting identifiers inside SETTINGS; unknown capsule types before the close capsule; unidirectional streams of unknown and GREASE types with arbitrary content (also finished or reset); runs of 1..8 large unknown frames (200..1500 bytes each, payloads that look like frames) on the control or session stream followed by one more delivered in two pieces with 1..3 other connection events (datagrams, GREASE uni streams) in between. Oracle: exactly the outcome of the exchange without insertions — session established, application stream delivered, no CONNECTION_CLOSE caused by an insertion, and the termination value equals the capsule's code and reason. Non-trivial: >= 1 inserted element with a non-empty payload before a known element; distinct = distinct case";

#[derive(Clone, Debug, Serialize, Deserialize)]
pub enum Ins {
    /// frame on the control stream after SETTINGS: (type selector, raw type, payload)
    Control(u8, u64, Vec<u8>),
    /// frame before the request (wt server) / response (wt client) HEADERS
    BeforeHeaders(u64, Vec<u8>),
    /// frame on the established session stream before the close capsule
    Session(u64, Vec<u8>),
    /// unknown capsule (type, value) before the close capsule
    Capsule(u64, Vec<u8>),
    /// extra setting (id, value)
    Setting(u64, u64),
    /// unidirectional stream of an unknown / GREASE type: (type, content, ending 0 open / 1 fin / 2 reset)
    UniStream(u64, Vec<u8>, u8),
    /// a run of `count` large unknown (non-GREASE) frames on the control (false) or session (true)
    /// stream with no known frame in between, followed by one more that is delivered in two pieces
    /// (cut selector) with `events` other connection events (datagrams / GREASE uni streams) in
    /// between; `fill` selects payload bytes that would do harm if they were re-read as frames
    Burst { session_stream: bool, ty: u8, count: u8, size: u16, fill: u8, cut: u16, events: u8 },
}

fn burst_type(sel: u8) -> u64 {
    [0x0fu64, 0x2f, 0x4242, (1 << 32) + 7][(sel % 4) as usize]
}

fn burst_payload(fill: u8, size: usize) -> Vec<u8> {
    let unit: Vec<u8> = match fill % 5 {
        0 => vec![0],
        1 => refcodec::enc_frame(reg::FRAME_SETTINGS, &[]),
        2 => refcodec::enc_frame(reg::FRAME_DATA, &refcodec::enc_close_capsule(9, b"fake")),
        3 => refcodec::enc_bi_header_wt(0),
        _ => (0..251u32).map(|i| (i * 7 + 3) as u8).collect(),
    };
    unit.iter().cycle().take(size).cloned().collect()
}

#[derive(Clone, Debug, Serialize, Deserialize)]
pub struct Case {
    pub flavor: u8,
    pub wt_is_server: bool,
    pub ins: Vec<Ins>,
    pub code: u32,
    pub reason: String,
}

fn unknown_generic() -> impl Strategy<Value = u64> {
    prop_oneof![
        2 => proptest::sample::select(vec![0x0eu64, 0x0f, 0x10, 0x20, 0x22, 0x3f, 0x42, 0x4242, 0x1_0000, 0xfff_ffff, (1 << 32) + 7, (1u64 << 62) - 1]),
        2 => (0x0eu64..(1u64 << 62)),
        2 => (0u64..((1u64 << 62) / 0x1f - 2)).prop_map(refcodec::grease),
    ]
    .prop_filter("not known", |t| !matches!(*t, 0x00..=0x0d | 0x41 | 0xF0700 | 0xF0701))
}

fn tricky() -> impl Strategy<Value = Vec<u8>> {
    prop_oneof![
        3 => proptest::collection::vec(any::<u8>(), 0..40),
        1 => proptest::collection::vec(any::<u8>(), 1000..3000),
        2 => Just(refcodec::enc_frame(reg::FRAME_SETTINGS, &refcodec::enc_settings(&[(1, 0)]))),
        2 => Just(refcodec::enc_bi_header_wt(0)),
        1 => Just(refcodec::enc_frame(reg::FRAME_DATA, &refcodec::enc_close_capsule(1, b"fake"))),
        1 => Just(vec![0x00]),
    ]
}

pub fn case_strategy() -> impl Strategy<Value = Case> {
    let control_ty = prop_oneof![
        2 => (0u8..5).prop_map(|s| (s, 0u64)),
        2 => unknown_generic().prop_map(|t| (9u8, t)),
    ];
    let unknown_stream_ty = prop_oneof![
        2 => proptest::sample::select(vec![0x04u64, 0x05, 0x3f, 0x40, 0x53, 0x55, 0x4242, (1u64 << 62) - 1]),
        1 => (6u64..(1u64 << 62)).prop_filter("not 0x54 / known", |t| *t != 0x54),
        2 => (0u64..1000).prop_map(refcodec::grease),
    ];
    let unknown_setting = prop_oneof![
        2 => (0u64..1000).prop_map(refcodec::grease),
        2 => (0x09u64..(1u64 << 62)).prop_filter("unknown", |t| !matches!(*t, 0x33 | 0x2b603742 | 0xc671706a)),
    ];
    let ins = prop_oneof![
        3 => (control_ty, tricky()).prop_map(|((s, t), p)| Ins::Control(s, t, p)),
        2 => (unknown_generic(), tricky()).prop_map(|(t, p)| Ins::BeforeHeaders(t, p)),
        3 => (unknown_generic(), tricky()).prop_map(|(t, p)| Ins::Session(t, p)),
        2 => (prop_oneof![Just(reg::CAPSULE_DRAIN_WT_SESSION), Just(0u64), (1u64..(1u64 << 62)).prop_filter("not close", |t| *t != 0x2843)], proptest::collection::vec(any::<u8>(), 0..60)).prop_map(|(t, v)| Ins::Capsule(t, v)),
        2 => (unknown_setting, crate::c17_ids()).prop_map(|(i, v)| Ins::Setting(i, v)),
        3 => (unknown_stream_ty, proptest::collection::vec(any::<u8>(), 0..60), 0u8..3).prop_map(|(t, c, e)| Ins::UniStream(t, c, e)),
        2 => (any::<bool>(), 0u8..4, 1u8..9, 200u16..1500, 0u8..5, any::<u16>(), 1u8..4).prop_map(|(session_stream, ty, count, size, fill, cut, events)| Ins::Burst { session_stream, ty, count, size, fill, cut, events }),
    ];
    (0u8..3, any::<bool>(), proptest::collection::vec(ins, 0..7), any::<u32>(), "[ -~]{0,30}").prop_map(|(flavor, wt_is_server, ins, code, reason)| Case { flavor, wt_is_server, ins, code, reason })
}

fn control_type(sel: u8, raw: u64) -> u64 {
    match sel {
        0 => reg::FRAME_GOAWAY,
        1 => reg::FRAME_MAX_PUSH_ID,
        2 => reg::FRAME_CANCEL_PUSH,
        3 => reg::FRAME_PRIORITY_UPDATE_REQ,
        4 => reg::FRAME_PRIORITY_UPDATE_PUSH,
        _ => raw,
    }
}

async fn exec_async(case: Arc<Case>, with_insertions: bool) -> Result<String, CaseResult> {
    let none: Vec<Ins> = Vec::new();
    let ins: &Vec<Ins> = if with_insertions { &case.ins } else { &none };
    // SETTINGS with inserted identifiers (each unknown id once)
    let mut settings = default_settings();
    for i in ins {
        if let Ins::Setting(id, v) = i {
            if !settings.iter().any(|(k, _)| k == id) {
                settings.insert(settings.len() / 2, (*id, *v));
            }
        }
    }
    let before_headers: Vec<u8> = ins.iter().filter_map(|i| if let Ins::BeforeHeaders(t, p) = i { Some(refcodec::enc_frame(*t, p)) } else { None }).flatten().collect();
    let t = Tuning::default();
    let app: wtransport::Connection;
    let raw_conn: quinn::Connection;
    let mut control: quinn::SendStream;
    let mut req_send: quinn::SendStream;
    let session: u64;
    let _keep: Box<dyn std::any::Any + Send>;
    if case.wt_is_server {
        let server_ep = wt_server(&t);
        let addr = server_ep.local_addr().unwrap();
        let accept = async {
            let incoming = server_ep.accept().await;
            let req = incoming.await.map_err(|e| format!("incoming: {}", conn_err(&e)))?;
            req.accept().await.map_err(|e| format!("accept: {}", conn_err(&e)))
        };
        let client = async {
            let (ep, conn) = raw_connect(addr, &t).await?;
            let control = open_control(&conn, &settings).await?;
            let (mut rs, mut rr) = conn.open_bi().await.map_err(|e| e.to_string())?;
            let sid = quinn::VarInt::from(rs.id()).into_inner();
            let mut b = before_headers.clone();
            b.extend(headers_frame(&connect_request_fields(&addr.to_string(), "/c13")));
            rs.write_all(&b).await.map_err(|e| e.to_string())?;
            let mut buf = Vec::new();
            read_frame_of(&mut rr, &mut buf, &[reg::FRAME_HEADERS], Duration::from_secs(5)).await?;
            Ok::<_, String>((ep, conn, control, rs, rr, sid))
        };
        let (s, c) = tokio::join!(tokio::time::timeout(Duration::from_secs(8), accept), client);
        let (ep, conn, ctl, rs, rr, sid) = match c {
            Ok(x) => x,
            Err(e) => return Ok(format!("not-established: raw client: {e}")),
        };
        app = match s {
            Ok(Ok(a)) => a,
            Ok(Err(e)) => return Ok(format!("not-established: {e}")),
            Err(_) => return Ok("not-established: timeout".into()),
        };
        raw_conn = conn;
        control = ctl;
        req_send = rs;
        session = sid;
        _keep = Box::new((server_ep, ep, rr));
    } else {
        let (raw_ep, addr) = raw_server(&t).map_err(CaseResult::Skip)?;
        let client_ep = wt_client(&t);
        let serve = async {
            let mut s = raw_server_accept(&raw_ep, &settings).await?;
            let mut b = before_headers.clone();
            b.extend(response_frame("200", &[]));
            s.req_send.write_all(&b).await.map_err(|e| e.to_string())?;
            Ok::<_, String>(s)
        };
        let (s, c) = tokio::join!(serve, tokio::time::timeout(Duration::from_secs(8), client_ep.connect(url_for(addr, "/c13"))));
        let s = match s {
            Ok(s) => s,
            Err(e) => return Ok(format!("not-established: raw server: {e}")),
        };
        app = match c {
            Ok(Ok(a)) => a,
            Ok(Err(e)) => return Ok(format!("not-established: connect: {e}")),
            Err(_) => return Ok("not-established: timeout".into()),
        };
        let RawServerSession { conn, control: ctl, req_send: rs, req_recv, session_id, .. } = s;
        raw_conn = conn;
        control = ctl;
        req_send = rs;
        session = session_id;
        _keep = Box::new((client_ep, raw_ep, req_recv));
    }
    // insertions after establishment
    let mut held: Vec<Box<dyn std::any::Any + Send>> = Vec::new();
    for i in ins {
        match i {
            Ins::Control(sel, raw, p) => {
                let _ = control.write_all(&refcodec::enc_frame(control_type(*sel, *raw), p)).await;
            }
            Ins::Session(ty, p) => {
                let _ = req_send.write_all(&refcodec::enc_frame(*ty, p)).await;
            }
            Ins::Capsule(ty, v) => {
                let _ = req_send.write_all(&refcodec::enc_frame(reg::FRAME_DATA, &refcodec::enc_capsule(*ty, v))).await;
            }
            Ins::Burst { session_stream, ty, count, size, fill, cut, events } => {
                let s = if *session_stream { &mut req_send } else { &mut control };
                let frame = refcodec::enc_frame(burst_type(*ty), &burst_payload(*fill, *size as usize));
                for _ in 0..*count {
                    let _ = s.write_all(&frame).await;
                }
                let at = 1 + vcore::pick_idx(*cut, frame.len() - 1);
                let _ = write_cut(&raw_conn, s, &frame[..at], Duration::from_millis(12)).await;
                for k in 0..*events {
                    if k % 2 == 0 {
                        let _ = raw_conn.send_datagram(refcodec::enc_datagram(session, b"between the pieces").into());
                    } else if let Ok(mut u) = raw_conn.open_uni().await {
                        let mut b = refcodec::enc_varint(refcodec::grease(k as u64 + 3));
                        b.extend_from_slice(b"ignored");
                        let _ = u.write_all(&b).await;
                        held.push(Box::new(u));
                    }
                    flush_acked(&raw_conn, Duration::from_millis(100)).await;
                    tokio::time::sleep(Duration::from_millis(8)).await;
                }
                let _ = s.write_all(&frame[at..]).await;
            }
            Ins::UniStream(ty, content, ending) => {
                if let Ok(mut s) = raw_conn.open_uni().await {
                    let mut b = refcodec::enc_varint(*ty);
                    b.extend_from_slice(content);
                    let _ = s.write_all(&b).await;
                    match ending % 3 {
                        1 => {
                            let _ = s.finish();
                        }
                        2 => {
                            let _ = s.reset(vi(7));
                        }
                        _ => {}
                    }
                    held.push(Box::new(s));
                }
            }
            _ => {}
        }
    }
    // an application stream still works
    let echo = async {
        let mut s = raw_open_wt_uni(&raw_conn, session).await?;
        s.write_all(b"still-alive").await.map_err(|e| e.to_string())?;
        let _ = s.finish();
        let mut r = app.accept_uni().await.map_err(|e| format!("accept_uni: {}", conn_err(&e)))?;
        let mut b = [0u8; 11];
        r.read_exact(&mut b).await.map_err(|e| e.to_string())?;
        Ok::<_, String>(b)
    };
    let alive = match tokio::time::timeout(Duration::from_secs(5), echo).await {
        Ok(Ok(b)) if &b == b"still-alive" => "alive".to_string(),
        Ok(Ok(_)) => "wrong-bytes".to_string(),
        Ok(Err(e)) => format!("dead: {e}"),
        Err(_) => "dead: timeout".to_string(),
    };
    tokio::time::sleep(Duration::from_millis(100)).await;
    if let Some(e) = raw_conn.close_reason() {
        return Ok(format!("closed-by-endpoint: {:?} ({alive})", close_seen(&e)));
    }
    // final close capsule
    let pending = {
        let a = app.clone();
        tokio::spawn(async move {
            match a.accept_bi().await {
                Ok(_) => "Ok".to_string(),
                Err(e) => conn_err(&e),
            }
        })
    };
    let _ = req_send.write_all(&refcodec::enc_frame(reg::FRAME_DATA, &refcodec::enc_close_capsule(case.code, case.reason.as_bytes()))).await;
    let _ = req_send.finish();
    let term = match tokio::time::timeout(Duration::from_secs(5), pending).await {
        Ok(Ok(t)) => t,
        _ => "hang".to_string(),
    };
    drop(held);
    Ok(format!("{alive}; termination {term}"))
}

pub fn exec(case: &Case) -> CaseResult {
    let c = Arc::new(case.clone());
    let want = format!("alive; termination ApplicationClosed({},{})", case.code, vcore::hex(case.reason.as_bytes()));
    let with = match run_on(case.flavor, Duration::from_secs(30), exec_async(c.clone(), true)) {
        Some(Ok(o)) => o,
        Some(Err(r)) => return r,
        None => return CaseResult::Timeout("run with insertions did not finish in 30 s".into()),
    };
    if with != want {
        // metamorphic twin: the same exchange without the insertions
        let without = match run_on(case.flavor, Duration::from_secs(30), exec_async(c, false)) {
            Some(Ok(o)) => o,
            _ => return CaseResult::Skip("twin did not run".into()),
        };
        if without != want {
            return CaseResult::Skip(format!("the exchange without insertions deviates as well: {without}"));
        }
        let kinds: Vec<&str> = case
            .ins
            .iter()
            .map(|i| match i {
                Ins::Control(..) => "control-frame",
                Ins::BeforeHeaders(..) => "frame-before-headers",
                Ins::Session(..) => "session-frame",
                Ins::Capsule(..) => "capsule",
                Ins::Setting(..) => "setting",
                Ins::UniStream(..) => "uni-stream",
                Ins::Burst { .. } => "unknown-burst-split",
            })
            .collect();
        let mut k = kinds.clone();
        k.sort();
        k.dedup();
        return viol(format!("C13:e2e:{}", k.join("+")), format!("with insertions {:?} the outcome is [{with}], without them [{without}]", case.ins.iter().map(|i| format!("{i:?}").chars().take(60).collect::<String>()).collect::<Vec<_>>()));
    }
    let mut labels = vec![if case.wt_is_server { "role:server" } else { "role:client" }];
    for i in &case.ins {
        labels.push(match i {
            Ins::Control(s, ..) if *s < 5 => "ins:control-goaway-family",
            Ins::Control(..) => "ins:control-unknown",
            Ins::BeforeHeaders(..) => "ins:before-headers",
            Ins::Session(..) => "ins:session-frame",
            Ins::Capsule(..) => "ins:unknown-capsule",
            Ins::Setting(..) => "ins:unknown-setting",
            Ins::UniStream(t, ..) if refcodec::is_grease(*t) => "ins:grease-uni-stream",
            Ins::UniStream(..) => "ins:unknown-uni-stream",
            Ins::Burst { count, size, .. } if *count as usize * *size as usize >= 4200 => "ins:unknown-burst>=4200B-split",
            Ins::Burst { .. } => "ins:unknown-burst-split",
        });
    }
    labels.sort();
    labels.dedup();
    let nt = case.ins.iter().any(|i| match i {
        Ins::Control(_, _, p) | Ins::BeforeHeaders(_, p) | Ins::Session(_, p) | Ins::Capsule(_, p) => !p.is_empty(),
        Ins::UniStream(_, c, _) => !c.is_empty(),
        Ins::Setting(..) | Ins::Burst { .. } => true,
    });
    CaseResult::Pass { nontrivial: nt, labels }
}

pub fn run(run: &Run) {
    run.set_rule(RULE);
    run.assume("unknown frame types inserted on request / session streams exclude every type defined by HTTP/3 (0x00-0x0d), the WT signal and PRIORITY_UPDATE; GOAWAY, MAX_PUSH_ID, CANCEL_PUSH and PRIORITY_UPDATE are inserted on the control stream only");
    prop_search(
        run,
        Search { check: "insertions-e2e", cases: run.tier.pick(1200, 30000), workers: 8, max_shrink_iters: 80 },
        case_strategy,
        |c| judge(|| exec(c), false, "C13:e2e:hang"),
        |c| serde_json::to_value(c).unwrap(),
    );
    for l in ["role:server", "role:client", "ins:control-goaway-family", "ins:control-unknown", "ins:before-headers", "ins:session-frame", "ins:unknown-capsule", "ins:unknown-setting", "ins:grease-uni-stream", "ins:unknown-uni-stream", "ins:unknown-burst-split", "ins:unknown-burst>=4200B-split"] {
        run.essential(l);
    }
}

pub fn replay(run: &Run, doc: &Value) -> bool {
    if doc["check"].as_str() != Some("insertions-e2e") {
        return false;
    }
    let Ok(case) = serde_json::from_value::<Case>(doc["case"].clone()) else {
        return false;
    };
    run.eval("insertions-e2e", true, 1);
    for _ in 0..3 {
        if let Outcome::Fail { signature, message } = judge(|| exec(&case), false, "C13:e2e:hang") {
            run.fail("insertions-e2e", &signature, &message, doc["case"].clone());
            break;
        }
    }
    true
}
