//! C16 — everything the endpoint emits is well-formed HTTP/3 and WebTransport.

use crate::c02;
use crate::common::*;
use proptest::prelude::*;
use serde::{Deserialize, Serialize};
use serde_json::Value;
use std::sync::Arc;
use std::time::Duration;
use vcore::{prop_search, Outcome, Run, Search};
use wire::validate::*;
use wire::*;
use wtransport::endpoint::ConnectOptions;

const RULE: &str = "scenario = session setup from the C02 generator (URL, 0..12 header fields, server decision) with the wtransport endpoint in either role against a recording raw peer, followed by 0..6 application streams (uni/bidi, generated payloads), 0..4 datagrams error paths while the application keeps accepting (uni / bidi streams naming a foreign session -> STOP_SENDING WEBTRANSPORT_BUFFERED_STREAM_REJECTED; a plain GET request -> STOP_SENDING H3_REQUEST_REJECTED) and a final Connection::close(code, reason) or a connection error provoked by the raw peer (DATA on its control stream, second control stream, FIN of its control stream, invalid session id, or a clean close capsule answered with H3_NO_ERROR) whose CONNECTION_CLOSE code must be the registered one; session ids 0, 256 and 4 x (1..90) with 62 / 63 / 64 burnt request streams preferred (1-/2-byte boundary of the quarter stream id); the recording peer advertises the default or a small per-stream receive window (1..400 bytes), so that SETTINGS, HEADERS, stream headers and payloads are written across flow-control boundaries. Everything the endpoint opened or sent is decoded with the reference codec: exactly one control stream whose first frame is a single SETTINGS (ENABLE_WEBTRANSPORT=1, H3_DATAGRAM=1, ENABLE_CONNECT_PROTOCOL=1, QPACK capacity/blocked absent or 0, no id twice, no reserved id, no second SETTINGS, nothing that is not a frame); request / response field sections with prefix (0,0), static or literal representations only, pseudo-fields first, the five request pseudo-fields resp. a 3-digit :status; every WT uni stream 0x54||session||bytes, every WT bidi stream 0x41||session||bytes, every datagram quarter-id||payload; the close code and reason the peer sees are the application's; ALPN is exactly h3. Non-trivial: the endpoint emitted >= 1 HEADERS and >= 1 WT stream or datagram; distinct = distinct scenario";

#[derive(Clone, Debug, Serialize, Deserialize)]
pub struct Case {
    pub setup: c02::Case,
    pub wt_is_client: bool,
    pub high_session: bool,
    pub streams: Vec<(bool, u16, u8)>,
    pub datagrams: Vec<(u16, u8)>,
    pub close_code: u64,
    pub close_reason: Vec<u8>,
    /// per-stream receive window the recording peer advertises (0 = transport default): small
    /// values make every frame and stream header the endpoint writes cross flow-control boundaries
    #[serde(default)]
    pub peer_window: u16,
    /// number of request streams the raw client burns before its CONNECT (0 = by `high_session`:
    /// 64 or none); the session id is 4 x that number, so 63 / 64 sit on the 1-/2-byte boundary of
    /// the quarter stream id that prefixes every datagram
    #[serde(default)]
    pub burn: u16,
    /// error paths that make the endpoint put a code on the wire while the session is up (the
    /// application keeps accepting): each mod 3 = 0 a uni stream naming a foreign session, 1 a bidi
    /// stream naming a foreign session (STOP_SENDING WEBTRANSPORT_BUFFERED_STREAM_REJECTED),
    /// 2 a plain GET request (server role: STOP_SENDING H3_REQUEST_REJECTED)
    #[serde(default)]
    pub err_paths: Vec<u8>,
    /// how the connection ends (mod 6): 0 the application's close(code, reason); otherwise the raw
    /// peer provokes a connection error whose registered code must appear in CONNECTION_CLOSE:
    /// 1 DATA on its control stream (H3_FRAME_UNEXPECTED), 2 a second control stream
    /// (H3_STREAM_CREATION_ERROR), 3 FIN of its control stream (H3_CLOSED_CRITICAL_STREAM),
    /// 4 a WebTransport stream with an invalid session id (H3_ID_ERROR), 5 the peer ends the
    /// session with a close capsule and the endpoint closes the connection with H3_NO_ERROR
    #[serde(default)]
    pub final_error: u8,
}

pub fn case_strategy() -> impl Strategy<Value = Case> {
    (
        c02::case_strategy(),
        any::<bool>(),
        prop_oneof![4 => Just(false), 1 => Just(true)],
        proptest::collection::vec((any::<bool>(), prop_oneof![0u16..4, 0u16..3000], any::<u8>()), 0..6),
        proptest::collection::vec((0u16..1000, any::<u8>()), 0..4),
        prop_oneof![Just(0u64), Just(0x100), any::<u32>().prop_map(|v| v as u64), 0u64..(1 << 62)],
        proptest::collection::vec(any::<u8>(), 0..30),
        prop_oneof![3 => Just(0u16), 1 => Just(1u16), 1 => Just(4), 1 => Just(11), 1 => Just(24), 1 => 2u16..400],
        (prop_oneof![6 => Just(0u16), 2 => Just(63u16), 1 => Just(62), 1 => Just(64), 1 => Just(15), 1 => Just(16), 1 => 1u16..90], prop_oneof![2 => Just(Vec::new()), 1 => proptest::collection::vec(0u8..3, 1..4)], prop_oneof![3 => Just(0u8), 1 => 1u8..6]),
    )
        .prop_map(|(mut setup, wt_is_client, high_session, mut streams, datagrams, close_code, close_reason, peer_window, (burn, err_paths, final_error))| {
            // every window update costs a round trip: with a small peer window keep every frame and
            // stream within ~40 windows (the SETTINGS / HEADERS frames still cross several boundaries)
            if peer_window > 0 {
                let cap = peer_window as usize * 40;
                for s in streams.iter_mut() {
                    s.1 = s.1.min(cap as u16);
                }
                let mut total = 200usize;
                setup.headers.retain(|(k, v)| {
                    total += k.len() + v.len() + 4;
                    total <= cap.max(400)
                });
                if let c02::Decision::AcceptWithHeaders(h) = &mut setup.decision {
                    let mut total = 100usize;
                    h.retain(|(k, v)| {
                        total += k.len() + v.len() + 4;
                        total <= cap.max(400)
                    });
                }
                // the C02 window (wtransport side) stays at its default here
                setup.window = 0;
            }
            Case { setup, wt_is_client, high_session, streams, datagrams, close_code, close_reason, peer_window, burn, err_paths, final_error }
        })
}

fn fail(what: &str, e: String) -> CaseResult {
    viol(format!("C16:{what}"), e)
}

async fn exec_async(case: Arc<Case>) -> CaseResult {
    let setup = &case.setup;
    let accepting = matches!(setup.decision, c02::Decision::Accept | c02::Decision::AcceptWithHeaders(_));
    let mut emitted_headers = false;
    let mut emitted_wt = false;
    let mut emitted_codes = 0usize;
    let conn: Option<wtransport::Connection>;
    let raw_conn: quinn::Connection;
    let session: u64;
    let recorder: Recorder;
    let mut _keep: Vec<Box<dyn std::any::Any + Send>> = Vec::new();
    let mut raw_control: quinn::SendStream;
    let mut raw_req_send: quinn::SendStream;
    let raw_tuning = Tuning { stream_receive_window: if case.peer_window > 0 { Some(case.peer_window as u32) } else { None }, ..Default::default() };
    if case.wt_is_client {
        // wtransport client against a raw server that records everything, including the request stream
        let (raw_ep, addr) = match raw_server(&raw_tuning) {
            Ok(x) => x,
            Err(e) => return CaseResult::Skip(e),
        };
        let mut s2 = setup.clone();
        if s2.host_kind % 3 == 1 {
            s2.host_kind = 2;
        }
        let (url, authority, path) = c02::url_of(&s2, addr);
        let client_ep = c02::wt_client_for(addr);
        let status = if accepting { "200".to_string() } else { setup.status.max(300).to_string() };
        let serve = async {
            let incoming = tokio::time::timeout(Duration::from_secs(5), raw_ep.accept()).await.map_err(|_| "no incoming")?.ok_or("endpoint closed")?;
            let rc = incoming.await.map_err(|e| e.to_string())?;
            let rec = Recorder::start(&rc);
            let _control = open_control(&rc, &default_settings()).await?;
            // wait for the request: a client-initiated bidi stream carrying one complete HEADERS frame
            let ok = rec
                .wait(Duration::from_secs(5), |log| log.streams.iter().any(|(id, s)| id % 4 == 0 && s.bidi && matches!(refcodec::dec_elem(&s.bytes), refcodec::ElemDec::Frame { payload: Some(_), .. })))
                .await;
            if !ok {
                return Err("no complete request arrived".to_string());
            }
            let (sid, mut send) = {
                let mut g = rec.log.lock().unwrap();
                let sid = *g.streams.iter().find(|(id, s)| *id % 4 == 0 && s.bidi).unwrap().0;
                (sid, g.bidi_send.remove(&sid).unwrap())
            };
            send.write_all(&response_frame(&status, &[])).await.map_err(|e| e.to_string())?;
            Ok::<_, String>((rc, rec, sid, send, _control))
        };
        let mut opts = ConnectOptions::builder(&url);
        for (k, v) in &setup.headers {
            opts = opts.add_header(k, v);
        }
        let (s, c) = tokio::join!(serve, client_ep.connect(opts.build()));
        let (rc, rec, sid, send, control) = match s {
            Ok(x) => x,
            Err(e) => return fail("request-unreadable", format!("raw server could not obtain a request for {url:?}: {e}")),
        };
        // the request as it appeared on the wire
        let bytes = rec.log.lock().unwrap().streams[&sid].bytes.clone();
        match split_frames(&bytes) {
            Ok(frames) => {
                let Some((ty, payload)) = frames.iter().find(|(t, _)| !refcodec::is_grease(*t)) else {
                    return fail("request", "request stream carries no frame".into());
                };
                if *ty != refcodec::registry::FRAME_HEADERS {
                    return fail("request", format!("first frame on the request stream has type {ty:#x}"));
                }
                match validate_field_section(payload, Message::Request) {
                    Ok(fields) => {
                        emitted_headers = true;
                        let get = |n: &str| fields.iter().find(|(k, _)| k == n).map(|(_, v)| v.as_str());
                        if get(":authority") != Some(authority.as_str()) || get(":path") != Some(path.as_str()) {
                            return fail("request", format!(":authority/:path on the wire are {:?}/{:?}, expected {authority:?}/{path:?}", get(":authority"), get(":path")));
                        }
                        for (k, v) in &setup.headers {
                            if get(k) != Some(v.as_str()) {
                                return fail("request", format!("field {k:?} on the wire is {:?}", get(k).map(|x| short(x.as_bytes()))));
                            }
                        }
                        if fields.len() != 5 + setup.headers.len() {
                            return fail("request", format!("{} fields on the wire for {} requested", fields.len(), 5 + setup.headers.len()));
                        }
                    }
                    Err(e) => return fail("request", e),
                }
            }
            Err(e) => return fail("request", e),
        }
        conn = c.ok();
        raw_conn = rc;
        session = sid;
        recorder = rec;
        raw_control = control;
        raw_req_send = send;
        _keep.push(Box::new((client_ep, raw_ep)));
    } else {
        // raw client against the wtransport server; the raw client reads the response itself
        let server_ep = wt_server(&Tuning::default());
        let addr = server_ep.local_addr().unwrap();
        let decision = setup.decision.clone();
        let serve = async {
            let incoming = server_ep.accept().await;
            let req = incoming.await.map_err(|e| conn_err(&e))?;
            let c = match decision {
                c02::Decision::Accept => Some(req.accept().await.map_err(|e| conn_err(&e))?),
                c02::Decision::AcceptWithHeaders(h) => Some(req.accept_with_headers(h).await.map_err(|e| conn_err(&e))?),
                c02::Decision::Forbidden => {
                    req.forbidden().await;
                    None
                }
                c02::Decision::NotFound => {
                    req.not_found().await;
                    None
                }
                c02::Decision::TooManyRequests => {
                    req.too_many_requests().await;
                    None
                }
            };
            Ok::<_, String>(c)
        };
        let burn = if case.burn > 0 { case.burn } else if case.high_session { 64 } else { 0 };
        let headers = setup.headers.clone();
        let client = async {
            let (ep, rc) = raw_connect(addr, &raw_tuning).await?;
            let rec = Recorder::start(&rc);
            let control = open_control(&rc, &default_settings()).await?;
            if burn > 0 {
                for _ in 0..burn {
                    let (mut s, _r) = rc.open_bi().await.map_err(|e| e.to_string())?;
                    let _ = s.write_all(&headers_frame(&[(":method".into(), "GET".into(), Default::default())])).await;
                    let _ = s.finish();
                }
            }
            let (mut rs, mut rr) = rc.open_bi().await.map_err(|e| e.to_string())?;
            let sid = quinn::VarInt::from(rs.id()).into_inner();
            let mut fields = connect_request_fields(&addr.to_string(), "/c16");
            for (k, v) in &headers {
                fields.push((k.clone(), v.clone(), Default::default()));
            }
            rs.write_all(&headers_frame(&fields)).await.map_err(|e| e.to_string())?;
            // raw response bytes: read until one complete non-GREASE frame is there
            let mut bytes = Vec::new();
            let mut chunk = [0u8; 4096];
            let deadline = tokio::time::Instant::now() + Duration::from_secs(5);
            loop {
                if let Ok(frames) = split_frames(&bytes) {
                    if frames.iter().any(|(t, _)| !refcodec::is_grease(*t)) {
                        break;
                    }
                }
                match tokio::time::timeout_at(deadline, rr.read(&mut chunk)).await {
                    Ok(Ok(Some(n))) => bytes.extend_from_slice(&chunk[..n]),
                    Ok(Ok(None)) => break,
                    _ => return Err("no response".to_string()),
                }
            }
            Ok::<_, String>((ep, rc, rec, control, rs, rr, sid, bytes))
        };
        let (s, c) = tokio::join!(serve, client);
        let (ep, rc, rec, control, rs, rr, sid, resp_bytes) = match c {
            Ok(x) => x,
            Err(e) => return fail("response-unreadable", e),
        };
        match split_frames(&resp_bytes) {
            Ok(frames) => {
                let Some((ty, payload)) = frames.iter().find(|(t, _)| !refcodec::is_grease(*t)) else {
                    return fail("response", "no response frame".into());
                };
                if *ty != refcodec::registry::FRAME_HEADERS {
                    return fail("response", format!("first response frame has type {ty:#x}"));
                }
                match validate_field_section(payload, Message::Response) {
                    Ok(fields) => {
                        emitted_headers = true;
                        if let c02::Decision::AcceptWithHeaders(h) = &setup.decision {
                            for (k, v) in h {
                                if fields.iter().find(|(n, _)| n == k).map(|(_, x)| x) != Some(v) {
                                    return fail("response", format!("extra response field {k:?} missing or altered on the wire"));
                                }
                            }
                        }
                    }
                    Err(e) => return fail("response", e),
                }
            }
            Err(e) => return fail("response", e),
        }
        conn = s.ok().flatten();
        raw_conn = rc;
        session = sid;
        recorder = rec;
        raw_control = control;
        raw_req_send = rs;
        _keep.push(Box::new((server_ep, ep, rr)));
    }
    // ALPN
    match raw_conn.handshake_data().and_then(|h| h.downcast::<quinn::crypto::rustls::HandshakeData>().ok()) {
        Some(h) if h.protocol.as_deref() == Some(&b"h3"[..]) => {}
        other => return fail("alpn", format!("negotiated ALPN is {:?}", other.map(|h| h.protocol))),
    }
    // application traffic
    let mut expect_uni: Vec<Vec<u8>> = Vec::new();
    let mut expect_bi: Vec<Vec<u8>> = Vec::new();
    let mut expect_dg: Vec<Vec<u8>> = Vec::new();
    if let Some(conn) = &conn {
        if conn.session_id().into_u64() != session {
            return fail("session-id", format!("endpoint reports session {}, CONNECT stream is {session}", conn.session_id()));
        }
        for (i, (bidi, len, seed)) in case.streams.iter().enumerate() {
            let data = payload(7000 + *seed as u64 + i as u64 * 257, *len as usize, &[]);
            let r: Res<()> = async {
                if *bidi {
                    let (mut s, _r) = conn.open_bi().await.map_err(|e| conn_err(&e))?.await.map_err(|e| e.to_string())?;
                    s.write_all(&data).await.map_err(|e| e.to_string())?;
                    s.finish().await.map_err(|e| e.to_string())?;
                } else {
                    let mut s = conn.open_uni().await.map_err(|e| conn_err(&e))?.await.map_err(|e| e.to_string())?;
                    s.write_all(&data).await.map_err(|e| e.to_string())?;
                    s.finish().await.map_err(|e| e.to_string())?;
                }
                Ok(())
            }
            .await;
            if let Err(e) = r {
                return fail("app-stream", format!("application stream #{i} failed: {e}"));
            }
            if *bidi {
                expect_bi.push(data);
            } else {
                expect_uni.push(data);
            }
        }
        for (i, (len, seed)) in case.datagrams.iter().enumerate() {
            let data = payload(9000 + *seed as u64 + i as u64, *len as usize, &[]);
            if conn.send_datagram(&data).is_ok() {
                expect_dg.push(data);
            }
        }
        // error paths: the application keeps accepting, the raw peer provokes refusals
        let reg = |c: u64| c;
        let mut app_tasks = Vec::new();
        if !case.err_paths.is_empty() {
            let c = conn.clone();
            app_tasks.push(tokio::spawn(async move {
                let mut kept = Vec::new();
                while let Ok(s) = c.accept_uni().await {
                    kept.push(s);
                }
            }));
            let c = conn.clone();
            app_tasks.push(tokio::spawn(async move {
                let mut kept = Vec::new();
                while let Ok(s) = c.accept_bi().await {
                    kept.push(s);
                }
            }));
        }
        for (i, e) in case.err_paths.iter().enumerate() {
            let kind = if e % 3 == 2 && case.wt_is_client { 0 } else { e % 3 };
            let (mut s, want, what) = match kind {
                0 => {
                    let Ok(mut s) = raw_conn.open_uni().await else { return CaseResult::Skip("open_uni".into()) };
                    let mut b = refcodec::enc_uni_header_wt(session + 4 * (i as u64 + 1));
                    b.extend_from_slice(b"foreign");
                    let _ = s.write_all(&b).await;
                    (s, reg(refcodec::registry::WT_BUFFERED_STREAM_REJECTED), "a uni stream naming a foreign session")
                }
                1 => {
                    let Ok((mut s, r)) = raw_conn.open_bi().await else { return CaseResult::Skip("open_bi".into()) };
                    let mut b = refcodec::enc_bi_header_wt(session + 4 * (i as u64 + 1));
                    b.extend_from_slice(b"foreign");
                    let _ = s.write_all(&b).await;
                    _keep.push(Box::new(r));
                    (s, reg(refcodec::registry::WT_BUFFERED_STREAM_REJECTED), "a bidi stream naming a foreign session")
                }
                _ => {
                    let Ok((mut s, r)) = raw_conn.open_bi().await else { return CaseResult::Skip("open_bi".into()) };
                    let _ = s.write_all(&headers_frame(&[(":method".into(), "GET".into(), Default::default()), (":scheme".into(), "https".into(), Default::default()), (":authority".into(), "localhost".into(), Default::default()), (":path".into(), "/".into(), Default::default())])).await;
                    _keep.push(Box::new(r));
                    (s, reg(refcodec::registry::H3_REQUEST_REJECTED), "a plain GET request")
                }
            };
            match tokio::time::timeout(Duration::from_secs(4), s.stopped()).await {
                Ok(Ok(Some(c))) => {
                    if c.into_inner() != want {
                        return fail("error-code", format!("{what} was refused with STOP_SENDING code {:#x}, the registered value is {want:#x}", c.into_inner()));
                    }
                    emitted_codes += 1;
                }
                Ok(other) => return fail("error-code", format!("{what}: stopped() = {:?}, expected STOP_SENDING {want:#x}", other.map(|o| o.map(|v| v.into_inner())))),
                Err(_) => return CaseResult::Timeout(format!("{what} was not refused within 4 s")),
            }
            _keep.push(Box::new(s));
        }
        tokio::time::sleep(Duration::from_millis(40)).await;
        if case.final_error % 6 != 0 {
            let (want, what) = match case.final_error % 6 {
                1 => {
                    let _ = raw_control.write_all(&refcodec::enc_frame(refcodec::registry::FRAME_DATA, b"d")).await;
                    (refcodec::registry::H3_FRAME_UNEXPECTED, "DATA on the control stream")
                }
                2 => {
                    if let Ok(mut s) = raw_conn.open_uni().await {
                        let _ = s.write_all(&control_preamble(&default_settings())).await;
                        _keep.push(Box::new(s));
                    }
                    (refcodec::registry::H3_STREAM_CREATION_ERROR, "a second control stream")
                }
                3 => {
                    let _ = raw_control.finish();
                    (refcodec::registry::H3_CLOSED_CRITICAL_STREAM, "FIN of the control stream")
                }
                4 => {
                    if let Ok(mut s) = raw_conn.open_uni().await {
                        let _ = s.write_all(&refcodec::enc_uni_header_wt(session + 1)).await;
                        _keep.push(Box::new(s));
                    }
                    (refcodec::registry::H3_ID_ERROR, "a WebTransport stream with an invalid session id")
                }
                _ => {
                    // the peer ends the session cleanly: the endpoint then closes the connection
                    // itself, and there is no error to signal (RFC 9114 8.1: H3_NO_ERROR)
                    let cap = refcodec::enc_frame(refcodec::registry::FRAME_DATA, &refcodec::enc_close_capsule(7, b"done"));
                    let _ = raw_req_send.write_all(&cap).await;
                    let _ = raw_req_send.finish();
                    (refcodec::registry::H3_NO_ERROR, "a close capsule from the peer (clean end of the session)")
                }
            };
            match tokio::time::timeout(Duration::from_secs(5), raw_conn.closed()).await {
                Ok(e) => {
                    if close_seen(&e) != CloseSeen::Application(want, vec![]) {
                        return fail("error-code", format!("after {what} the peer saw {:?}, the registered CONNECTION_CLOSE code is {want:#x}", close_seen(&e)));
                    }
                    emitted_codes += 1;
                }
                Err(_) => return CaseResult::Timeout(format!("after {what} the peer never saw a close")),
            }
        } else {
        conn.close(wtransport::VarInt::try_from_u64(case.close_code).unwrap(), &case.close_reason);
        match tokio::time::timeout(Duration::from_secs(5), raw_conn.closed()).await {
            Ok(e) => {
                let want = CloseSeen::Application(case.close_code, case.close_reason.clone());
                if close_seen(&e) != want {
                    return fail("close", format!("application closed with ({}, {}) but the peer saw {:?}", case.close_code, short(&case.close_reason), close_seen(&e)));
                }
            }
            Err(_) => return CaseResult::Timeout("peer never saw the close".into()),
        }
        }
        for t in app_tasks {
            t.abort();
        }
    } else {
        tokio::time::sleep(Duration::from_millis(30)).await;
    }
    recorder.stop();
    let (streams, dgrams) = recorder.snapshot();
    // streams the endpoint opened
    let mut controls = 0;
    let mut got_uni: Vec<Vec<u8>> = Vec::new();
    let mut got_bi: Vec<Vec<u8>> = Vec::new();
    for (id, st) in &streams {
        let opened_by_endpoint = (id & 1 == 1) != case.wt_is_client;
        if !opened_by_endpoint || *id == session {
            // the CONNECT stream itself was validated above
            continue;
        }
        if st.bidi {
            match validate_wt_bi(&st.bytes, session) {
                Ok(app) => {
                    emitted_wt = true;
                    got_bi.push(app)
                }
                Err(e) => return fail("wt-bidi", format!("stream {id}: {e}; bytes {}", short(&st.bytes))),
            }
        } else {
            match refcodec::dec_uni_header(&st.bytes) {
                refcodec::UniHeaderDec::Plain(t, _) if t == refcodec::registry::STREAM_CONTROL => {
                    controls += 1;
                    if let Err(e) = validate_control(&st.bytes) {
                        return fail("control", format!("{e}; bytes {}", short(&st.bytes)));
                    }
                }
                refcodec::UniHeaderDec::Plain(t, _) if t == refcodec::registry::STREAM_QPACK_ENCODER || t == refcodec::registry::STREAM_QPACK_DECODER || refcodec::is_grease(t) => {}
                refcodec::UniHeaderDec::Wt(..) => match validate_wt_uni(&st.bytes, session) {
                    Ok(app) => {
                        emitted_wt = true;
                        got_uni.push(app)
                    }
                    Err(e) => return fail("wt-uni", format!("stream {id}: {e}")),
                },
                other => return fail("uni-type", format!("stream {id} has an unexpected header: {other:?}; bytes {}", short(&st.bytes))),
            }
        }
    }
    if controls != 1 {
        return fail("control", format!("the endpoint opened {controls} control streams"));
    }
    let sort = |mut v: Vec<Vec<u8>>| {
        v.sort();
        v
    };
    if sort(got_uni.clone()) != sort(expect_uni.clone()) {
        return fail("wt-uni", format!("application bytes of WT uni streams differ: {} streams seen, {} opened", got_uni.len(), expect_uni.len()));
    }
    if sort(got_bi.clone()) != sort(expect_bi.clone()) {
        return fail("wt-bidi", format!("application bytes of WT bidi streams differ: {} streams seen, {} opened", got_bi.len(), expect_bi.len()));
    }
    for d in &dgrams {
        match validate_datagram(d, session) {
            Ok(p) => {
                emitted_wt = true;
                if !expect_dg.contains(&p) {
                    return fail("datagram", format!("datagram payload {} was never sent", short(&p)));
                }
            }
            Err(e) => return fail("datagram", e),
        }
    }
    let mut labels = vec![if case.wt_is_client { "role:client" } else { "role:server" }];
    if session >= 256 {
        labels.push("session>=256");
    }
    if session == 252 {
        labels.push("session=252(quarter id 63)");
    }
    if !dgrams.is_empty() {
        labels.push("datagram-seen");
    }
    if !got_uni.is_empty() {
        labels.push("wt-uni-seen");
    }
    if !got_bi.is_empty() {
        labels.push("wt-bidi-seen");
    }
    if !accepting {
        labels.push("rejected-session");
    }
    if emitted_codes > 0 {
        labels.push("error-code-on-the-wire");
    }
    if case.peer_window > 0 && case.peer_window <= 24 {
        labels.push("peer-window<=24");
    }
    CaseResult::Pass { nontrivial: emitted_headers && emitted_wt, labels }
}

pub fn exec(case: &Case) -> CaseResult {
    let c = Arc::new(case.clone());
    match run_on(case.setup.flavor, Duration::from_secs(25), exec_async(c)) {
        Some(r) => r,
        None => CaseResult::Timeout("case did not finish in 25 s".into()),
    }
}

pub fn run(run: &Run) {
    run.set_rule(RULE);
    run.trust("refcodec and wire::validate (independent decoding of everything recorded)");
    prop_search(
        run,
        Search { check: "wire-format", cases: run.tier.pick(1500, 50000), workers: 8, max_shrink_iters: 120 },
        case_strategy,
        |c| judge(|| exec(c), false, "C16:hang"),
        |c| serde_json::to_value(c).unwrap(),
    );
    for l in ["role:client", "role:server", "session>=256", "datagram-seen", "wt-uni-seen", "wt-bidi-seen", "rejected-session", "peer-window<=24", "session=252(quarter id 63)", "error-code-on-the-wire"] {
        run.essential(l);
    }
}

pub fn replay(run: &Run, doc: &Value) -> bool {
    let Ok(case) = serde_json::from_value::<Case>(doc["case"].clone()) else {
        return false;
    };
    run.eval("wire-format", true, 1);
    for _ in 0..3 {
        if let Outcome::Fail { signature, message } = judge(|| exec(&case), false, "C16:hang") {
            run.fail("wire-format", &signature, &message, doc["case"].clone());
            break;
        }
    }
    true
}
