//! C09 — termination is prompt, total and never misattributed.

use crate::common::*;
use proptest::prelude::*;
use serde::{Deserialize, Serialize};
use serde_json::Value;
use std::sync::{Arc, Mutex};
use std::time::Duration;
use vcore::{prop_search, Outcome, Run, Search};
use wire::*;
use wtransport::Connection;

const RULE: &str = "case = runtime flavour x role x termination cause in {peer QUIC application close(code, reason), peer close capsule (in one piece, or in two deliveries with a datagram and a stream in between), peer clean FIN of the session stream, local Connection::close, protocol error provoked by the raw peer (DATA on the control stream), STOP_SENDING(code) on the endpoint's own control stream, idle timeout (relay black hole), all handles dropped} x set of pending operations in separate tasks on 1..4 cloned handles drawn from {accept_uni, accept_bi, receive_datagram, closed, read, write (flow-control blocked), stopped, an opening future} x delay between issuing the calls and raising the cause x with/without stalled peer streams (stalled inside the preamble, after a complete GREASE frame, after GREASE + one byte, after the type varint of a uni stream, on a GREASE-type uni stream, after the complete preamble) x backlog of 0..7 datagrams and 0..11 streams of the session the application never picks up (hand-off queues full when the cause fires). Oracle: every pending call and three later calls of each kind complete within the bound with an error from the admissible set of the cause (exact peer code/reason, local protocol error, timeout, or a local close), never success, a hang, a panic or another cause; with all handles dropped the peer sees the connection closed and the endpoint has no open connection. Hook part: generated op sequences over shared_result / bichannel against a set-once / FIFO model. Non-trivial: >= 2 pending operations of different kinds when the cause fires; distinct = distinct case";

#[derive(Clone, Debug, Serialize, Deserialize, PartialEq)]
pub enum Cause {
    PeerQuicClose(u64, Vec<u8>),
    PeerCapsule(u32, String),
    PeerFin,
    LocalClose(u64, Vec<u8>),
    ProtocolError,
    IdleTimeout,
    HandlesDropped,
    /// the peer sends STOP_SENDING(code) on the endpoint's own control stream (a closed critical
    /// stream: RFC 9114 6.2.1, H3_CLOSED_CRITICAL_STREAM)
    PeerStopsLocalControl(u64),
}

#[derive(Clone, Debug, Serialize, Deserialize)]
pub struct Case {
    pub flavor: u8,
    pub wt_is_server: bool,
    pub cause: Cause,
    /// bit set of pending operations: 1 accept_uni, 2 accept_bi, 4 receive_datagram, 8 closed,
    /// 16 read, 32 blocked write, 64 stopped, 128 opening future held
    pub ops: u8,
    pub clones: u8,
    pub delay_ms: u8,
    pub stalled_stream: bool,
    /// healthy peer streams / datagrams sent in the same flight as the cause (before and after it)
    #[serde(default)]
    pub noise: u8,
    /// datagrams of the session the peer sent before the end and the application never asked
    /// for (unless receive_datagram is among the pending calls)
    #[serde(default)]
    pub dgram_backlog: u8,
    /// streams of the session the peer opened before the end beyond what the application accepts
    #[serde(default)]
    pub stream_backlog: u8,
    /// where the stalled peer streams stall: 0 inside the first byte(s) of the preamble, 1 after a
    /// complete GREASE frame (bidi) / after the type varint (uni), 2 after a GREASE frame and one
    /// more byte (bidi) / on a GREASE-type uni stream, 3 after the complete preamble
    #[serde(default)]
    pub stall_kind: u8,
}

fn code_strategy() -> impl Strategy<Value = u64> {
    prop_oneof![Just(0u64), Just(63), Just(64), Just(16384), Just((1u64 << 62) - 1), any::<u32>().prop_map(|v| v as u64), (0u64..(1 << 62))]
}

pub fn case_strategy() -> impl Strategy<Value = Case> {
    let cause = prop_oneof![
        3 => (code_strategy(), proptest::collection::vec(any::<u8>(), 0..40)).prop_map(|(c, r)| Cause::PeerQuicClose(c, r)),
        3 => (any::<u32>(), "[ -~]{0,40}").prop_map(|(c, r)| Cause::PeerCapsule(c, r)),
        1 => Just(Cause::PeerFin),
        2 => (code_strategy(), proptest::collection::vec(any::<u8>(), 0..40)).prop_map(|(c, r)| Cause::LocalClose(c, r)),
        2 => Just(Cause::ProtocolError),
        2 => code_strategy().prop_map(Cause::PeerStopsLocalControl),
        1 => Just(Cause::IdleTimeout),
        3 => Just(Cause::HandlesDropped),
    ];
    (0u8..3, any::<bool>(), cause, any::<u8>(), 1u8..=4, prop_oneof![Just(0u8), Just(3), Just(25)], any::<bool>(), prop_oneof![2 => Just(0u8), 1 => 1u8..10], (prop_oneof![2 => Just(0u8), 1 => 2u8..8], prop_oneof![3 => Just(0u8), 1 => 1u8..12], 0u8..4))
        .prop_map(|(flavor, wt_is_server, cause, ops, clones, delay_ms, stalled_stream, noise, (dgram_backlog, stream_backlog, stall_kind))| Case { flavor, wt_is_server, cause, ops: if ops == 0 { 0b0000_0111 } else { ops }, clones, delay_ms, stalled_stream, noise, dgram_backlog, stream_backlog, stall_kind })
}

#[derive(Default)]
struct Shared {
    /// (operation, rendered result)
    results: Vec<(String, String)>,
}

fn admissible_conn(cause: &Cause, got: &str) -> bool {
    match cause {
        Cause::PeerQuicClose(c, r) => got == format!("ApplicationClosed({},{})", c, vcore::hex(r)),
        Cause::PeerCapsule(c, r) => got == format!("ApplicationClosed({},{})", c, vcore::hex(r.as_bytes())) || got == "LocallyClosed",
        Cause::PeerFin => got == "ApplicationClosed(0,)" || got == "LocallyClosed",
        Cause::LocalClose(..) | Cause::HandlesDropped => got == "LocallyClosed",
        Cause::ProtocolError => got == format!("LocalH3Error({})", h3_display(0x105)) || got == "LocallyClosed",
        Cause::PeerStopsLocalControl(_) => got == format!("LocalH3Error({})", h3_display(0x104)) || got == "LocallyClosed",
        Cause::IdleTimeout => got == "TimedOut",
    }
}

async fn exec_async(case: Arc<Case>) -> CaseResult {
    let idle = matches!(case.cause, Cause::IdleTimeout);
    let wt_tuning = Tuning { idle_timeout_ms: if idle { Some(400) } else { None }, ..Default::default() };
    // the raw peer never reads streams opened towards it and grants a small stream window, so a
    // large write blocks on flow control
    let raw_tuning = Tuning { stream_receive_window: Some(2048), ..Default::default() };
    let mut relay: Option<Relay> = None;
    let (conn, raw_conn, session, mut req_send, mut control, wt_server_ep, keep): (Connection, quinn::Connection, u64, quinn::SendStream, quinn::SendStream, Option<wtransport::Endpoint<wtransport::endpoint::endpoint_side::Server>>, Box<dyn std::any::Any + Send>) = if case.wt_is_server {
        let server_ep = wt_server(&wt_tuning);
        let addr = server_ep.local_addr().unwrap();
        let target = if idle {
            let r = Relay::start(addr, 7).await;
            let a = r.addr;
            relay = Some(r);
            a
        } else {
            addr
        };
        let accept = async {
            let incoming = server_ep.accept().await;
            let req = incoming.await.map_err(|e| format!("incoming: {e}"))?;
            req.accept().await.map_err(|e| format!("accept: {e}"))
        };
        let (s, r) = tokio::join!(accept, raw_client_session(target, &raw_tuning, "/"));
        match (s, r) {
            (Ok(s), Ok(raw)) => {
                let RawClientSession { endpoint, conn, control, req_send, req_recv, session_id, .. } = raw;
                (s, conn, session_id, req_send, control, Some(server_ep), Box::new((endpoint, req_recv)))
            }
            (Err(e), _) | (_, Err(e)) => return CaseResult::Skip(e),
        }
    } else {
        let (raw_ep, addr) = match raw_server(&raw_tuning) {
            Ok(x) => x,
            Err(e) => return CaseResult::Skip(e),
        };
        let target = if idle {
            let r = Relay::start(addr, 7).await;
            let a = r.addr;
            relay = Some(r);
            a
        } else {
            addr
        };
        let client_ep = wt_client(&wt_tuning);
        let serve = async {
            let mut s = raw_server_accept(&raw_ep, &default_settings()).await?;
            s.respond("200", &[]).await?;
            Ok::<_, String>(s)
        };
        let connect = async { client_ep.connect(url_for(target, "/")).await.map_err(|e| format!("connect: {e}")) };
        let (s, c) = tokio::join!(serve, connect);
        match (s, c) {
            (Ok(raw), Ok(c)) => {
                let RawServerSession { conn, control, req_send, req_recv, session_id, .. } = raw;
                (c, conn, session_id, req_send, control, None, Box::new((client_ep, raw_ep, req_recv)))
            }
            (Err(e), _) | (_, Err(e)) => return CaseResult::Skip(e),
        }
    };
    let shared = Arc::new(Mutex::new(Shared::default()));
    let mut raw_held: Vec<Box<dyn std::any::Any + Send>> = Vec::new();
    if case.stalled_stream {
        // a peer stream that stalls inside its preamble
        let grease = refcodec::enc_frame(refcodec::grease(5), b"grease");
        let bi_bytes: Vec<u8> = match case.stall_kind % 4 {
            0 => refcodec::enc_bi_header_wt(session)[..1].to_vec(),
            1 => grease,
            2 => {
                let mut b = grease;
                b.push(refcodec::enc_bi_header_wt(session)[0]);
                b
            }
            _ => refcodec::enc_bi_header_wt(session),
        };
        let uni_bytes: Vec<u8> = match case.stall_kind % 4 {
            0 => vec![0x40],
            1 => refcodec::enc_uni_header_wt(session)[..2].to_vec(),
            2 => {
                let mut b = refcodec::enc_varint(refcodec::grease(9));
                b.extend_from_slice(b"ignored");
                b
            }
            _ => refcodec::enc_uni_header_wt(session),
        };
        if let Ok((mut s, r)) = raw_conn.open_bi().await {
            let _ = s.write_all(&bi_bytes).await;
            raw_held.push(Box::new((s, r)));
        }
        if let Ok(mut s) = raw_conn.open_uni().await {
            let _ = s.write_all(&uni_bytes).await;
            raw_held.push(Box::new(s));
        }
        flush_acked(&raw_conn, Duration::from_millis(100)).await;
    }
    // streams the pending stream operations work on
    let mut recv_for_read = None;
    if case.ops & 16 != 0 {
        // the peer opens a uni stream, sends a byte and goes silent; the application reads
        match raw_open_wt_uni(&raw_conn, session).await {
            Ok(mut s) => {
                let _ = s.write_all(b"x").await;
                raw_held.push(Box::new(s));
                match tokio::time::timeout(Duration::from_secs(3), conn.accept_uni()).await {
                    Ok(Ok(r)) => recv_for_read = Some(r),
                    _ => return CaseResult::Skip("setup: stream for pending read not delivered".into()),
                }
            }
            Err(e) => return CaseResult::Skip(e),
        }
    }
    let mut send_for_write = None;
    if case.ops & 32 != 0 {
        match conn.open_uni().await {
            Ok(o) => match o.await {
                Ok(s) => send_for_write = Some(s),
                Err(e) => return CaseResult::Skip(e.to_string()),
            },
            Err(e) => return CaseResult::Skip(conn_err(&e)),
        }
    }
    let mut send_for_stopped = None;
    if case.ops & 64 != 0 {
        match conn.open_uni().await {
            Ok(o) => match o.await {
                Ok(s) => send_for_stopped = Some(s),
                Err(e) => return CaseResult::Skip(e.to_string()),
            },
            Err(e) => return CaseResult::Skip(conn_err(&e)),
        }
    }
    let mut opening = None;
    if case.ops & 128 != 0 {
        match conn.open_bi().await {
            Ok(o) => opening = Some(o),
            Err(e) => return CaseResult::Skip(conn_err(&e)),
        }
    }
    // arrivals the application does not pick up: they fill the library's hand-off queues
    if case.dgram_backlog > 0 || case.stream_backlog > 0 {
        for _ in 0..case.dgram_backlog {
            let _ = raw_conn.send_datagram(refcodec::enc_datagram(session, b"backlog").into());
        }
        for k in 0..case.stream_backlog {
            if k % 2 == 0 {
                if let Ok(mut s) = raw_open_wt_uni(&raw_conn, session).await {
                    let _ = s.write_all(b"backlog").await;
                    raw_held.push(Box::new(s));
                }
            } else if let Ok((mut s, r)) = raw_open_wt_bi(&raw_conn, session).await {
                let _ = s.write_all(b"backlog").await;
                raw_held.push(Box::new((s, r)));
            }
        }
        flush_acked(&raw_conn, Duration::from_millis(150)).await;
        tokio::time::sleep(Duration::from_millis(15)).await;
    }
    let handles: Vec<Connection> = (0..case.clones.max(1)).map(|_| conn.clone()).collect();
    let h = |i: usize| handles[i % handles.len()].clone();
    let mut tasks: Vec<(String, tokio::task::JoinHandle<()>)> = Vec::new();
    macro_rules! pending_conn_op {
        ($bit:expr, $name:expr, $idx:expr, $call:ident) => {
            if case.ops & $bit != 0 {
                let c = h($idx);
                let sh = shared.clone();
                tasks.push(($name.to_string(), tokio::spawn(async move {
                    // streams / datagrams that arrive before the end are legitimately returned:
                    // keep asking until the call fails
                    let mut n = 0usize;
                    let r = loop {
                        match c.$call().await {
                            Ok(_) => {
                                n += 1;
                                if n > 64 {
                                    break "Ok".to_string();
                                }
                            }
                            Err(e) => break conn_err(&e),
                        }
                    };
                    sh.lock().unwrap().results.push(($name.to_string(), r));
                })));
            }
        };
    }
    let drop_case = matches!(case.cause, Cause::HandlesDropped);
    if !drop_case {
        pending_conn_op!(1, "accept_uni", 0, accept_uni);
        pending_conn_op!(2, "accept_bi", 1, accept_bi);
        pending_conn_op!(4, "receive_datagram", 2, receive_datagram);
        if case.ops & 8 != 0 {
            let c = h(3);
            let sh = shared.clone();
            tasks.push(("closed".into(), tokio::spawn(async move {
                let e = c.closed().await;
                sh.lock().unwrap().results.push(("closed".into(), conn_err(&e)));
            })));
        }
        if let Some(mut r) = recv_for_read.take() {
            let sh = shared.clone();
            tasks.push(("read".into(), tokio::spawn(async move {
                let mut buf = [0u8; 64];
                let mut out = String::new();
                loop {
                    match r.read(&mut buf).await {
                        Ok(Some(_)) => continue,
                        Ok(None) => {
                            out.push_str("Ok(end-of-stream)");
                            break;
                        }
                        Err(e) => {
                            out = format!("{e:?}");
                            break;
                        }
                    }
                }
                sh.lock().unwrap().results.push(("read".into(), out));
            })));
        }
        if let Some(mut s) = send_for_write.take() {
            let sh = shared.clone();
            tasks.push(("write".into(), tokio::spawn(async move {
                let big = vec![0xABu8; 1 << 20];
                let r = match s.write_all(&big).await {
                    Ok(()) => "Ok".to_string(),
                    Err(e) => format!("{e:?}"),
                };
                sh.lock().unwrap().results.push(("write".into(), r));
            })));
        }
        if let Some(mut s) = send_for_stopped.take() {
            let sh = shared.clone();
            tasks.push(("stopped".into(), tokio::spawn(async move {
                let e = s.stopped().await;
                sh.lock().unwrap().results.push(("stopped".into(), format!("{e:?}")));
            })));
        }
    }
    if case.delay_ms > 0 {
        tokio::time::sleep(Duration::from_millis(case.delay_ms as u64)).await;
    }
    // healthy peer traffic in the same flight as the cause
    let peer_driven = matches!(case.cause, Cause::PeerQuicClose(..) | Cause::PeerCapsule(..) | Cause::PeerFin | Cause::ProtocolError | Cause::PeerStopsLocalControl(_));
    if peer_driven {
        for k in 0..case.noise {
            if k % 3 == 2 {
                let _ = raw_conn.send_datagram(refcodec::enc_datagram(session, b"noise").into());
            } else if let Ok(mut s) = raw_conn.open_uni().await {
                let mut b = refcodec::enc_uni_header_wt(session);
                b.extend_from_slice(b"noise");
                let _ = s.write_all(&b).await;
                let _ = s.finish();
                raw_held.push(Box::new(s));
            }
        }
    }
    // raise the cause
    match &case.cause {
        Cause::PeerQuicClose(c, r) => raw_conn.close(vi(*c), r),
        Cause::PeerCapsule(c, r) => {
            let cap = refcodec::enc_frame(refcodec::registry::FRAME_DATA, &refcodec::enc_close_capsule(*c, r.as_bytes()));
            if *c % 3 != 0 && cap.len() >= 2 {
                // the capsule travels in two deliveries with other connection events in between
                // (the worker's select loop runs while the frame is half received): the cause and
                // its attribution must not depend on that
                let cut = 1 + (*c as usize / 3) % (cap.len() - 1);
                let _ = req_send.write_all(&cap[..cut]).await;
                tokio::time::sleep(Duration::from_millis(30)).await;
                let _ = raw_conn.send_datagram(refcodec::enc_datagram(session, b"between").into());
                if let Ok(mut s) = raw_conn.open_uni().await {
                    let mut b = refcodec::enc_uni_header_wt(session);
                    b.extend_from_slice(b"between");
                    let _ = s.write_all(&b).await;
                    let _ = s.finish();
                    raw_held.push(Box::new(s));
                }
                tokio::time::sleep(Duration::from_millis(30)).await;
                let _ = req_send.write_all(&cap[cut..]).await;
            } else {
                let _ = req_send.write_all(&cap).await;
            }
            let _ = req_send.finish();
        }
        Cause::PeerFin => {
            let _ = req_send.finish();
        }
        Cause::LocalClose(c, r) => conn.close(wtransport::VarInt::try_from_u64(*c).unwrap(), r),
        Cause::ProtocolError => {
            let _ = control.write_all(&refcodec::enc_frame(refcodec::registry::FRAME_DATA, b"zz")).await;
        }
        Cause::PeerStopsLocalControl(c) => {
            // the endpoint's control stream is the unidirectional stream whose first byte is 0x00
            let find = async {
                loop {
                    let Ok(mut r) = raw_conn.accept_uni().await else { return None };
                    let mut b = [0u8; 1];
                    match r.read_exact(&mut b).await {
                        Ok(()) if b[0] == 0x00 => return Some(r),
                        _ => raw_held.push(Box::new(r)),
                    }
                }
            };
            match tokio::time::timeout(Duration::from_secs(3), find).await {
                Ok(Some(mut r)) => {
                    let _ = r.stop(vi(*c));
                    raw_held.push(Box::new(r));
                }
                _ => return CaseResult::Skip("the endpoint's control stream was not found".into()),
            }
        }
        Cause::IdleTimeout => relay.as_ref().unwrap().blackhole(true, true),
        Cause::HandlesDropped => {}
    }
    if peer_driven && !matches!(case.cause, Cause::PeerQuicClose(..)) {
        for _ in 0..(case.noise / 2) {
            if let Ok((mut s, r)) = raw_conn.open_bi().await {
                let mut b = refcodec::enc_bi_header_wt(session);
                b.extend_from_slice(b"noise-after");
                let _ = s.write_all(&b).await;
                raw_held.push(Box::new((s, r)));
            }
        }
    }
    if drop_case {
        // the application lets go of everything it holds
        drop(recv_for_read);
        drop(send_for_write);
        drop(send_for_stopped);
        drop(opening.take());
        drop(handles);
        drop(conn);
        let closed = tokio::time::timeout(Duration::from_secs(4), raw_conn.closed()).await;
        if closed.is_err() {
            return CaseResult::Timeout(format!("all handles dropped (stalled peer stream present: {}) but the peer does not see the connection closed", case.stalled_stream));
        }
        if let Some(ep) = &wt_server_ep {
            let deadline = tokio::time::Instant::now() + Duration::from_secs(3);
            while ep.open_connections() != 0 {
                if tokio::time::Instant::now() > deadline {
                    return CaseResult::Timeout(format!("endpoint still reports {} open connection(s) after all handles were dropped", ep.open_connections()));
                }
                tokio::time::sleep(Duration::from_millis(5)).await;
            }
        }
        drop(keep);
        drop(raw_held);
        let mut labels = vec![if case.stalled_stream { "cause:handles-dropped+stalled" } else { "cause:handles-dropped" }];
        if case.stalled_stream && matches!(case.stall_kind % 4, 1 | 2) {
            labels.push("handles-dropped+stalled-after-grease");
        }
        return CaseResult::Pass { nontrivial: true, labels };
    }
    // every pending call completes in bounded time
    let bound = Duration::from_secs(if idle { 6 } else { 5 });
    let n_tasks = tasks.len();
    for (name, t) in tasks {
        match tokio::time::timeout(bound, t).await {
            Ok(Ok(())) => {}
            Ok(Err(_)) => return viol("C09:panic", format!("pending {name} panicked")),
            Err(_) => return CaseResult::Timeout(format!("pending {name} still hangs {bound:?} after the connection ended ({:?})", case.cause)),
        }
    }
    // the connection has ended once closed() resolves (also a bounded-time obligation)
    match tokio::time::timeout(bound, conn.closed()).await {
        Ok(_) => {}
        Err(_) => return CaseResult::Timeout(format!("closed() did not resolve {bound:?} after {:?}", case.cause)),
    }
    // an opening future created before the end must fail when awaited now
    if let Some(o) = opening.take() {
        match tokio::time::timeout(bound, o).await {
            Ok(Ok(_)) => shared.lock().unwrap().results.push(("opening".into(), "Ok".into())),
            Ok(Err(e)) => shared.lock().unwrap().results.push(("opening".into(), format!("{e:?}"))),
            Err(_) => return CaseResult::Timeout("opening future hangs after the connection ended".into()),
        }
    }
    // later calls of each kind: items that arrived before the end and are still buffered may be
    // handed out first (a bounded number); after that every call must fail, none may hang
    for (name, kind) in [("late accept_uni", 0u8), ("late accept_bi", 1), ("late receive_datagram", 2), ("late open_uni", 3), ("late open_bi", 4)] {
        let mut errors = 0;
        let mut successes = 0;
        while errors < 3 {
            let fut: std::pin::Pin<Box<dyn std::future::Future<Output = Result<(), wtransport::error::ConnectionError>> + Send + '_>> = match kind {
                0 => Box::pin(async { conn.accept_uni().await.map(|_| ()) }),
                1 => Box::pin(async { conn.accept_bi().await.map(|_| ()) }),
                2 => Box::pin(async { conn.receive_datagram().await.map(|_| ()) }),
                3 => Box::pin(async { conn.open_uni().await.map(|_| ()) }),
                _ => Box::pin(async { conn.open_bi().await.map(|_| ()) }),
            };
            match tokio::time::timeout(bound, fut).await {
                Ok(Ok(())) => {
                    successes += 1;
                    // buffered arrivals are bounded by the hand-off queues; opening can never succeed
                    if kind >= 3 || successes > 64 {
                        shared.lock().unwrap().results.push((name.to_string(), "Ok".into()));
                        break;
                    }
                }
                Ok(Err(e)) => {
                    errors += 1;
                    shared.lock().unwrap().results.push((name.to_string(), conn_err(&e)));
                }
                Err(_) => return CaseResult::Timeout(format!("{name} hangs after the connection ended")),
            }
        }
    }
    for _ in 0..3 {
        match tokio::time::timeout(bound, conn.closed()).await {
            Ok(e) => shared.lock().unwrap().results.push(("late closed".into(), conn_err(&e))),
            Err(_) => return CaseResult::Timeout("late closed() hangs".into()),
        }
        if conn.send_datagram(b"late").is_ok() {
            return viol("C09:success-after-end", "send_datagram succeeded after the connection ended");
        }
    }
    // verdict on the collected results
    let g = shared.lock().unwrap();
    for (op, got) in &g.results {
        if got == "Ok" || got.starts_with("Ok(") {
            return viol("C09:success-after-end", format!("{op} returned success after the connection ended by {:?}", case.cause));
        }
        let conn_level = !matches!(op.as_str(), "read" | "write" | "stopped" | "opening");
        if conn_level {
            // closed() reports the transport's view: for capsule/FIN/protocol error the library itself closed
            let ok = if op.ends_with("closed") {
                match &case.cause {
                    Cause::PeerQuicClose(..) | Cause::IdleTimeout | Cause::LocalClose(..) => admissible_conn(&case.cause, got),
                    _ => got == "LocallyClosed" || admissible_conn(&case.cause, got),
                }
            } else {
                admissible_conn(&case.cause, got)
            };
            if !ok {
                return viol(format!("C09:misattributed:{}", cause_name(&case.cause)), format!("{op} reported {got} although the connection ended by {:?}", case.cause));
            }
        } else {
            let ok = match op.as_str() {
                "read" | "write" | "stopped" => got == "NotConnected",
                _ => got == "NotConnected",
            };
            if !ok {
                return viol(format!("C09:stream-error:{}", cause_name(&case.cause)), format!("{op} reported {got} after the connection ended by {:?}", case.cause));
            }
        }
    }
    // what the peer saw must not contradict the cause
    if let Cause::PeerStopsLocalControl(_) = case.cause {
        match tokio::time::timeout(Duration::from_secs(3), raw_conn.closed()).await {
            Ok(e) => {
                if close_seen(&e) != CloseSeen::Application(0x104, vec![]) {
                    return viol("C09:peer-sees", format!("after STOP_SENDING on the endpoint's control stream the peer saw {:?}, expected application close 0x104", close_seen(&e)));
                }
            }
            Err(_) => return CaseResult::Timeout("the endpoint's control stream was stopped: the application was told the connection ended, but the peer never saw a close".into()),
        }
    }
    if let Cause::ProtocolError = case.cause {
        match tokio::time::timeout(Duration::from_secs(3), raw_conn.closed()).await {
            Ok(e) => {
                if close_seen(&e) != CloseSeen::Application(0x105, vec![]) {
                    return viol("C09:peer-sees", format!("after DATA on the control stream the peer saw {:?}, expected application close 0x105", close_seen(&e)));
                }
            }
            Err(_) => return CaseResult::Timeout("protocol error: peer never saw a close".into()),
        }
    }
    drop(keep);
    drop(raw_held);
    let kinds = (case.ops & 0x7f).count_ones();
    CaseResult::Pass { nontrivial: kinds >= 2 && n_tasks >= 2, labels: vec![cause_label(&case.cause)] }
}

fn cause_name(c: &Cause) -> &'static str {
    match c {
        Cause::PeerQuicClose(..) => "peer-quic-close",
        Cause::PeerCapsule(..) => "peer-capsule",
        Cause::PeerFin => "peer-fin",
        Cause::LocalClose(..) => "local-close",
        Cause::ProtocolError => "protocol-error",
        Cause::PeerStopsLocalControl(_) => "peer-stops-local-control",
        Cause::IdleTimeout => "idle-timeout",
        Cause::HandlesDropped => "handles-dropped",
    }
}

fn cause_label(c: &Cause) -> &'static str {
    match c {
        Cause::PeerQuicClose(..) => "cause:peer-quic-close",
        Cause::PeerCapsule(..) => "cause:peer-capsule",
        Cause::PeerFin => "cause:peer-fin",
        Cause::LocalClose(..) => "cause:local-close",
        Cause::ProtocolError => "cause:protocol-error",
        Cause::PeerStopsLocalControl(_) => "cause:peer-stops-local-control",
        Cause::IdleTimeout => "cause:idle-timeout",
        Cause::HandlesDropped => "cause:handles-dropped",
    }
}

pub fn exec(case: &Case) -> CaseResult {
    let c = Arc::new(case.clone());
    match run_on(case.flavor, Duration::from_secs(40), exec_async(c)) {
        Some(r) => r,
        None => CaseResult::Timeout("case did not finish in 40 s".into()),
    }
}

// ------------------------------------------------------------------ hook part

#[derive(Clone, Debug, Serialize, Deserialize)]
pub enum SrOp {
    Set(u8, u8),
    Subscribe,
    /// start a result() future on getter j and poll it k times (kept alive afterwards)
    Start(u8, u8),
    /// poll a kept future again
    Poll(u8),
    DropSetter(u8),
    DropGetter(u8),
}

fn poll_n<F: std::future::Future + ?Sized>(f: &mut std::pin::Pin<Box<F>>, n: usize) -> Option<F::Output> {
    let waker = futures_noop();
    let mut cx = std::task::Context::from_waker(&waker);
    for _ in 0..n {
        if let std::task::Poll::Ready(v) = f.as_mut().poll(&mut cx) {
            return Some(v);
        }
    }
    None
}

fn futures_noop() -> std::task::Waker {
    use std::task::{RawWaker, RawWakerVTable, Waker};
    fn raw() -> RawWaker {
        fn c(_: *const ()) -> RawWaker {
            raw()
        }
        fn n(_: *const ()) {}
        static VT: RawWakerVTable = RawWakerVTable::new(c, n, n, n);
        RawWaker::new(std::ptr::null(), &VT)
    }
    unsafe { Waker::from_raw(raw()) }
}

/// Set-once / all-readers-agree model of shared_result.
pub fn test_shared_result(ops: &[SrOp]) -> Result<bool, (String, String)> {
    use wtransport::verif_hooks::{shared_result, SharedResultGet, SharedResultSet};
    let (set0, get0) = shared_result::<u8>();
    let mut setters: Vec<Option<SharedResultSet<u8>>> = vec![Some(set0.clone()), Some(set0)];
    let mut getters: Vec<Option<Arc<SharedResultGet<u8>>>> = vec![Some(Arc::new(get0))];
    let mut first: Option<u8> = None;
    type Fut = std::pin::Pin<Box<dyn std::future::Future<Output = Option<u8>>>>;
    let mut kept: Vec<Option<Fut>> = Vec::new();
    let mut checks = 0;
    let verify = |got: Option<u8>, first: Option<u8>, setters_alive: bool, what: &str| -> Result<(), (String, String)> {
        match (got, first) {
            (Some(v), Some(f)) if v == f => Ok(()),
            (Some(v), f) => Err(("C09:shared-result:value".into(), format!("{what} returned Some({v}) but the first value set was {f:?}"))),
            (None, Some(f)) => Err(("C09:shared-result:lost".into(), format!("{what} returned None although {f} had been set"))),
            (None, None) => {
                if setters_alive {
                    Err(("C09:shared-result:none-early".into(), format!("{what} returned None while a setter is still alive and nothing was set")))
                } else {
                    Ok(())
                }
            }
        }
    };
    for op in ops {
        match op {
            SrOp::Set(k, v) => {
                if let Some(Some(s)) = setters.get(*k as usize % 2) {
                    let won = s.set(*v);
                    if won != first.is_none() {
                        return Err(("C09:shared-result:set-once".into(), format!("set({v}) returned {won} with first = {first:?}")));
                    }
                    if first.is_none() {
                        first = Some(*v);
                    }
                }
            }
            SrOp::Subscribe => {
                if let Some(s) = setters.iter().flatten().next() {
                    if getters.len() < 6 {
                        getters.push(Some(Arc::new(s.subscribe())));
                    }
                }
            }
            SrOp::Start(j, k) => {
                let n = getters.len();
                if let Some(Some(g)) = getters.get(*j as usize % n) {
                    let g = g.clone();
                    let mut f: Fut = Box::pin(async move { g.result().await });
                    match poll_n(&mut f, *k as usize % 4 + 1) {
                        Some(got) => {
                            checks += 1;
                            verify(got, first, setters.iter().any(|s| s.is_some()), "result()")?;
                        }
                        None => {
                            if first.is_some() {
                                // the same getter may be locked by an earlier kept future: allowed to wait
                                if !kept.iter().any(|k| k.is_some()) {
                                    return Err(("C09:shared-result:pending-after-set".into(), "result() pending although a value is set and no other reader holds the lock".into()));
                                }
                            }
                            if kept.len() < 8 {
                                kept.push(Some(f));
                            }
                        }
                    }
                }
            }
            SrOp::Poll(i) => {
                if kept.is_empty() {
                    continue;
                }
                let i = *i as usize % kept.len();
                if let Some(f) = kept[i].as_mut() {
                    if let Some(got) = poll_n(f, 2) {
                        checks += 1;
                        kept[i] = None;
                        verify(got, first, setters.iter().any(|s| s.is_some()), "kept result()")?;
                    }
                }
            }
            SrOp::DropSetter(k) => {
                let k = *k as usize % 2;
                setters[k] = None;
            }
            SrOp::DropGetter(j) => {
                let n = getters.len();
                getters[*j as usize % n] = None;
            }
        }
    }
    // at the end every kept reader agrees once polled enough (oldest first: they queue on a lock)
    if first.is_some() || setters.iter().all(|s| s.is_none()) {
        for slot in kept.iter_mut() {
            if let Some(f) = slot.as_mut() {
                match poll_n(f, 8) {
                    Some(got) => {
                        checks += 1;
                        verify(got, first, setters.iter().any(|s| s.is_some()), "final result()")?;
                    }
                    None => return Err(("C09:shared-result:hang".into(), "a reader never completes although the result is decided".into())),
                }
                *slot = None;
            }
        }
    }
    Ok(checks >= 2 && first.is_some())
}

#[derive(Clone, Debug, Serialize, Deserialize)]
pub enum BcOp {
    TrySend(bool, u8),
    /// recv on a side, cancelled after k polls
    Recv(bool, u8),
    DropSide(bool),
}

/// FIFO / nothing-lost-on-cancel model of bichannel.
pub fn test_bichannel(cap: usize, ops: &[BcOp]) -> Result<bool, (String, String)> {
    use std::collections::VecDeque;
    use wtransport::verif_hooks::{bichannel, TrySendError};
    let (a, b) = bichannel::<u8>(cap);
    let mut sides = [Some(a), Some(b)];
    // queue[i] = values travelling towards side i
    let mut queue: [VecDeque<u8>; 2] = [VecDeque::new(), VecDeque::new()];
    let mut cancelled = 0;
    let mut received = 0;
    for op in ops {
        match op {
            BcOp::TrySend(from_a, v) => {
                let from = if *from_a { 0 } else { 1 };
                let to = 1 - from;
                if let Some(s) = &sides[from] {
                    match s.try_send(*v) {
                        Ok(()) => {
                            if sides[to].is_none() {
                                return Err(("C09:bichannel:send-to-dropped".into(), "try_send succeeded although the other endpoint is gone".into()));
                            }
                            if queue[to].len() >= cap {
                                return Err(("C09:bichannel:capacity".into(), format!("try_send succeeded with {} queued (capacity {cap})", queue[to].len())));
                            }
                            queue[to].push_back(*v);
                        }
                        Err(TrySendError::Full(_)) => {
                            if queue[to].len() < cap {
                                return Err(("C09:bichannel:full-early".into(), format!("try_send reported Full with {} of {cap} queued", queue[to].len())));
                            }
                        }
                        Err(TrySendError::Closed(_)) => {
                            if sides[to].is_some() {
                                return Err(("C09:bichannel:closed-early".into(), "try_send reported Closed although the other endpoint is alive".into()));
                            }
                        }
                    }
                }
            }
            BcOp::Recv(on_a, k) => {
                let me = if *on_a { 0 } else { 1 };
                let other_alive = sides[1 - me].is_some();
                if let Some(s) = &sides[me] {
                    let mut f: std::pin::Pin<Box<dyn std::future::Future<Output = Option<u8>> + '_>> = Box::pin(s.recv());
                    match poll_n(&mut f, *k as usize % 3 + 1) {
                        Some(Some(v)) => {
                            received += 1;
                            match queue[me].pop_front() {
                                Some(want) if want == v => {}
                                want => return Err(("C09:bichannel:fifo".into(), format!("recv returned {v}, model expected {want:?}"))),
                            }
                        }
                        Some(None) => {
                            if other_alive || !queue[me].is_empty() {
                                return Err(("C09:bichannel:none-early".into(), format!("recv returned None with the peer alive={other_alive} and {} values queued", queue[me].len())));
                            }
                        }
                        None => {
                            cancelled += 1;
                            if !queue[me].is_empty() {
                                return Err(("C09:bichannel:pending-with-data".into(), format!("recv pending although {} values are queued", queue[me].len())));
                            }
                        }
                    }
                }
            }
            BcOp::DropSide(a_side) => {
                let i = if *a_side { 0 } else { 1 };
                sides[i] = None;
                queue[i].clear();
            }
        }
    }
    Ok(cancelled >= 1 && received >= 1)
}

pub fn run(run: &Run) {
    run.set_rule(RULE);
    run.assume("the raw peer never reads streams opened towards it, so a 1 MiB write stays blocked on flow control until the connection ends");
    let workers = run.workers();
    prop_search(
        run,
        Search { check: "shared-result", cases: run.tier.pick(300_000, 4_000_000), workers, max_shrink_iters: 4000 },
        || proptest::collection::vec(prop_oneof![
            3 => (any::<u8>(), any::<u8>()).prop_map(|(k, v)| SrOp::Set(k, v)),
            1 => Just(SrOp::Subscribe),
            4 => (any::<u8>(), any::<u8>()).prop_map(|(j, k)| SrOp::Start(j, k)),
            3 => any::<u8>().prop_map(SrOp::Poll),
            1 => any::<u8>().prop_map(SrOp::DropSetter),
            1 => any::<u8>().prop_map(SrOp::DropGetter),
        ], 1..24),
        |ops| match vcore::catch(|| test_shared_result(ops)) {
            Ok(Ok(nt)) => Outcome::pass(nt),
            Ok(Err((s, m))) => Outcome::fail(s, m),
            Err(p) => Outcome::fail("C09:shared-result:panic", p),
        },
        |ops| serde_json::to_value(ops).unwrap(),
    );
    prop_search(
        run,
        Search { check: "bichannel", cases: run.tier.pick(300_000, 4_000_000), workers, max_shrink_iters: 4000 },
        || (1usize..4, proptest::collection::vec(prop_oneof![
            5 => (any::<bool>(), any::<u8>()).prop_map(|(a, v)| BcOp::TrySend(a, v)),
            5 => (any::<bool>(), any::<u8>()).prop_map(|(a, k)| BcOp::Recv(a, k)),
            1 => any::<bool>().prop_map(BcOp::DropSide),
        ], 1..30)),
        |(cap, ops)| match vcore::catch(|| test_bichannel(*cap, ops)) {
            Ok(Ok(nt)) => Outcome::pass(nt),
            Ok(Err((s, m))) => Outcome::fail(s, m),
            Err(p) => Outcome::fail("C09:bichannel:panic", p),
        },
        |(cap, ops)| serde_json::json!({"cap": cap, "ops": ops}),
    );
    prop_search(
        run,
        Search { check: "termination", cases: run.tier.pick(1200, 40000), workers: 8, max_shrink_iters: 40 },
        case_strategy,
        |c| judge(|| exec(c), true, "C09:hang"),
        |c| serde_json::to_value(c).unwrap(),
    );
    for l in ["cause:peer-quic-close", "cause:peer-capsule", "cause:peer-fin", "cause:local-close", "cause:protocol-error", "cause:peer-stops-local-control", "cause:idle-timeout", "cause:handles-dropped", "cause:handles-dropped+stalled", "handles-dropped+stalled-after-grease"] {
        run.essential(l);
    }
}

pub fn replay(run: &Run, doc: &Value) -> bool {
    let check = doc["check"].as_str().unwrap_or("");
    match check {
        "termination" => {
            let Ok(case) = serde_json::from_value::<Case>(doc["case"].clone()) else { return false };
            run.eval(check, true, 1);
            for _ in 0..3 {
                if let Outcome::Fail { signature, message } = judge(|| exec(&case), true, "C09:hang") {
                    run.fail(check, &signature, &message, doc["case"].clone());
                    break;
                }
            }
            true
        }
        "shared-result" => {
            let Ok(ops) = serde_json::from_value::<Vec<SrOp>>(doc["case"].clone()) else { return false };
            run.eval(check, true, 1);
            if let Ok(Err((s, m))) = vcore::catch(|| test_shared_result(&ops)) {
                run.fail(check, &s, &m, doc["case"].clone());
            }
            true
        }
        "bichannel" => {
            let cap = doc["case"]["cap"].as_u64().unwrap_or(1) as usize;
            let Ok(ops) = serde_json::from_value::<Vec<BcOp>>(doc["case"]["ops"].clone()) else { return false };
            run.eval(check, true, 1);
            if let Ok(Err((s, m))) = vcore::catch(|| test_bichannel(cap, &ops)) {
                run.fail(check, &s, &m, doc["case"].clone());
            }
            true
        }
        _ => false,
    }
}
