//! C18 (end-to-end half) — only well-formed WebTransport requests and responses are admitted.

use crate::common::*;
use proptest::prelude::*;
use refcodec::registry as reg;
use serde::{Deserialize, Serialize};
use serde_json::Value;
use std::sync::Arc;
use std::time::Duration;
use vcore::{prop_search, Outcome, Run, Search};
use wire::*;
use wtransport::error::ConnectingError;

const RULE: &str = "end-to-end: (a) a raw client sends 0..3 requests whose five pseudo-fields are each right / missing / wrong / wrong-case / near-miss, followed by a valid request, to the wtransport server: the application is offered a session iff the admission predicate holds, every other request is refused on its own stream (STOP_SENDING with H3_REQUEST_REJECTED or H3_MESSAGE_ERROR) and the connection stays usable (the following valid request is offered); (b) a raw server answers the wtransport client with generated :status texts (valid 2xx, valid non-2xx, missing, non-numeric, out of range, decorated): connect is Ok iff status in 200..=299, SessionRejected iff a valid non-2xx status, and any other status yields a connection error that is neither. Non-trivial: exactly one pseudo-field defect, or a status within +-1 of 100/200/300/599/600; distinct = distinct case";

#[derive(Clone, Copy, Debug, Serialize, Deserialize, PartialEq, Eq)]
pub enum Ps {
    Right,
    Missing,
    Wrong,
    WrongCase,
    NearMiss,
}

#[derive(Clone, Debug, Serialize, Deserialize)]
pub struct Req {
    pub ps: [Ps; 5],
    pub wrong: String,
}

#[derive(Clone, Debug, Serialize, Deserialize)]
pub struct Case {
    pub flavor: u8,
    /// true: raw client -> wt server (requests); false: raw server -> wt client (status)
    pub requests_mode: bool,
    pub requests: Vec<Req>,
    /// None = no :status field at all
    pub status: Option<String>,
    pub extra: Vec<(String, String)>,
}

const NAMES: [&str; 5] = [":method", ":scheme", ":protocol", ":authority", ":path"];
const RIGHT: [&str; 5] = ["CONNECT", "https", "webtransport", "example.org", "/x"];
const WRONG_CASE: [&str; 5] = ["connect", "HTTPS", "WebTransport", "EXAMPLE.ORG", "/X"];
const NEAR: [&str; 5] = [":methods", "scheme", ":protocols", ":authorit", ":paths"];

fn ps_strategy() -> impl Strategy<Value = Ps> {
    prop_oneof![6 => Just(Ps::Right), 1 => Just(Ps::Missing), 1 => Just(Ps::Wrong), 1 => Just(Ps::WrongCase), 1 => Just(Ps::NearMiss)]
}

pub fn case_strategy() -> impl Strategy<Value = Case> {
    let req = (proptest::array::uniform5(ps_strategy()), prop_oneof![Just("GET".to_string()), Just("http".to_string()), Just("websocket".to_string()), Just(String::new()), "[A-Za-z]{1,8}"]).prop_map(|(ps, wrong)| Req { ps, wrong });
    let status = prop_oneof![
        3 => proptest::sample::select(vec!["200", "204", "299", "300", "199", "100", "403", "404", "599", "600", "99", "0", "999", "1000", "65535", "+200", "-200", " 200", "200 ", "0200", "2e2", "", "abc", "20", "2000", "２００"]).prop_map(|s| Some(s.to_string())),
        2 => (100u32..700).prop_map(|v| Some(v.to_string())),
        1 => Just(None),
        1 => "[0-9+ -]{0,5}".prop_map(Some),
    ];
    (0u8..3, any::<bool>(), proptest::collection::vec(req, 0..4), status, proptest::collection::vec(("[a-z][a-z0-9-]{0,8}", "[!-~]{0,10}"), 0..3))
        .prop_map(|(flavor, requests_mode, requests, status, extra)| Case { flavor, requests_mode, requests, status, extra })
}

/// (fields, admissible) of a generated request
fn build(req: &Req) -> (Vec<(String, String)>, bool) {
    let mut f = Vec::new();
    let mut ok = true;
    for i in 0..5 {
        match req.ps[i] {
            Ps::Right => f.push((NAMES[i].to_string(), RIGHT[i].to_string())),
            Ps::Missing => ok = false,
            Ps::Wrong => {
                f.push((NAMES[i].to_string(), req.wrong.clone()));
                if i < 3 && req.wrong != RIGHT[i] {
                    ok = false;
                }
            }
            Ps::WrongCase => {
                f.push((NAMES[i].to_string(), WRONG_CASE[i].to_string()));
                if i < 3 {
                    ok = false;
                }
            }
            Ps::NearMiss => {
                f.push((NEAR[i].to_string(), RIGHT[i].to_string()));
                ok = false;
            }
        }
    }
    (f, ok)
}

fn enc(fields: &[(String, String)]) -> Vec<u8> {
    let f: Vec<(String, String, refcodec::qpack::EncOpts)> = fields.iter().map(|(k, v)| (k.clone(), v.clone(), Default::default())).collect();
    headers_frame(&f)
}

async fn exec_requests(case: Arc<Case>) -> CaseResult {
    let server_ep = wt_server(&Tuning::default());
    let addr = server_ep.local_addr().unwrap();
    // which request is the first admissible one? (requests + a final valid one)
    let mut reqs: Vec<(Vec<(String, String)>, bool)> = case.requests.iter().map(build).collect();
    reqs.push((NAMES.iter().zip(RIGHT.iter()).map(|(k, v)| (k.to_string(), format!("{v}-final"))).map(|(k, v)| if k == ":authority" || k == ":path" { (k, v) } else { (k.clone(), RIGHT[NAMES.iter().position(|n| *n == k).unwrap()].to_string()) }).collect(), true));
    let first_ok = reqs.iter().position(|(_, ok)| *ok).unwrap();
    let want_authority = reqs[first_ok].0.iter().find(|(k, _)| k == ":authority").map(|(_, v)| v.clone()).unwrap();
    let serve = async {
        let incoming = server_ep.accept().await;
        let req = incoming.await.map_err(|e| conn_err(&e))?;
        let authority = req.authority().to_string();
        let headers = req.headers().clone();
        let conn = req.accept().await.map_err(|e| conn_err(&e))?;
        Ok::<_, String>((authority, headers, conn))
    };
    let reqs2 = reqs.clone();
    let client = async {
        let (ep, conn) = raw_connect(addr, &Tuning::default()).await?;
        let control = open_control(&conn, &default_settings()).await?;
        let mut streams = Vec::new();
        let mut outcomes: Vec<String> = Vec::new();
        for (i, (fields, ok)) in reqs2.iter().enumerate() {
            let (mut s, mut r) = conn.open_bi().await.map_err(|e| e.to_string())?;
            s.write_all(&enc(fields)).await.map_err(|e| e.to_string())?;
            if i > first_ok {
                // after a session is pending / established further requests are outside this check
                streams.push((s, r));
                break;
            }
            if *ok {
                let mut buf = Vec::new();
                let resp = read_frame_of(&mut r, &mut buf, &[reg::FRAME_HEADERS], Duration::from_secs(5)).await;
                outcomes.push(match resp {
                    Ok((_, p)) => format!("response:{:?}", decode_fields(&p).ok().and_then(|f| f.into_iter().find(|(k, _)| k == ":status").map(|(_, v)| v))),
                    Err(e) => format!("no-response:{e}"),
                });
            } else {
                // refused on its own stream: STOP_SENDING with a request-level code
                let st = tokio::time::timeout(Duration::from_secs(5), s.stopped()).await;
                outcomes.push(match st {
                    Ok(Ok(Some(c))) => format!("stopped:{:#x}", c.into_inner()),
                    Ok(Ok(None)) => "finished".to_string(),
                    Ok(Err(e)) => format!("lost:{e}"),
                    Err(_) => "not-refused".to_string(),
                });
            }
            streams.push((s, r));
        }
        Ok::<_, String>((ep, conn, control, streams, outcomes))
    };
    let (s, c) = tokio::join!(tokio::time::timeout(Duration::from_secs(12), serve), client);
    let (_ep, rconn, _control, _streams, outcomes) = match c {
        Ok(x) => x,
        Err(e) => return viol("C18:e2e:client-io", format!("raw client failed: {e} (a refused request must not take the connection down)")),
    };
    for (i, o) in outcomes.iter().enumerate() {
        let (fields, ok) = &reqs[i];
        if *ok {
            if o != "response:Some(\"200\")" {
                return viol("C18:e2e:valid-not-admitted", format!("valid request #{i} {:?} got {o}; earlier outcomes {:?}", fields, &outcomes[..i]));
            }
        } else {
            let good = o == &format!("stopped:{:#x}", reg::H3_REQUEST_REJECTED) || o == &format!("stopped:{:#x}", reg::H3_MESSAGE_ERROR);
            if !good {
                return viol("C18:e2e:not-refused", format!("inadmissible request #{i} {:?} was not refused on its own stream: {o}; connection close reason {:?}", fields, rconn.close_reason().map(|e| close_seen(&e))));
            }
        }
    }
    match s {
        Ok(Ok((authority, headers, _conn))) => {
            if authority != want_authority {
                return viol("C18:e2e:wrong-request-offered", format!("the application was offered a request with authority {authority:?}, the first admissible one has {want_authority:?}; fields {:?}", headers));
            }
        }
        Ok(Err(e)) => return viol("C18:e2e:server-failed", format!("server side failed: {e}")),
        Err(_) => return viol("C18:e2e:valid-not-offered", "the application was never offered the valid request".to_string()),
    }
    let defects: usize = case.requests.iter().map(|r| r.ps.iter().filter(|p| **p != Ps::Right).count()).filter(|d| *d == 1).count();
    CaseResult::Pass { nontrivial: defects >= 1, labels: vec!["mode:requests", if first_ok > 0 { "refused-then-valid" } else { "valid-first" }] }
}

fn classify(status: &Option<String>) -> &'static str {
    match status {
        None => "malformed",
        Some(s) => {
            let b = s.as_bytes();
            if b.len() == 3 && b.iter().all(|c| c.is_ascii_digit()) {
                let v: u32 = s.parse().unwrap();
                if (200..300).contains(&v) {
                    "2xx"
                } else if (100..600).contains(&v) {
                    "non-2xx"
                } else {
                    "malformed"
                }
            } else {
                // forms the statement leaves open (one leading '+', leading zeros with in-range value)
                let d = s.strip_prefix('+').unwrap_or(s);
                if !d.is_empty() && d.bytes().all(|c| c.is_ascii_digit()) && d.trim_start_matches('0').len() <= 3 {
                    let v: u32 = d.trim_start_matches('0').parse().unwrap_or(0);
                    if (100..600).contains(&v) {
                        return "open";
                    }
                }
                "malformed"
            }
        }
    }
}

async fn exec_status(case: Arc<Case>) -> CaseResult {
    let (raw_ep, addr) = match raw_server(&Tuning::default()) {
        Ok(x) => x,
        Err(e) => return CaseResult::Skip(e),
    };
    let client_ep = wt_client(&Tuning::default());
    let status = case.status.clone();
    let extra = case.extra.clone();
    let serve = async {
        let mut s = raw_server_accept(&raw_ep, &default_settings()).await?;
        let mut fields: Vec<(String, String)> = Vec::new();
        if let Some(st) = &status {
            fields.push((":status".into(), st.clone()));
        }
        fields.extend(extra.iter().filter(|(k, _)| !k.starts_with(':')).cloned());
        s.req_send.write_all(&enc(&fields)).await.map_err(|e| e.to_string())?;
        Ok::<_, String>(s)
    };
    let (s, c) = tokio::join!(serve, tokio::time::timeout(Duration::from_secs(8), client_ep.connect(url_for(addr, "/"))));
    let _s = match s {
        Ok(s) => s,
        Err(e) => return CaseResult::Skip(e),
    };
    let c = match c {
        Ok(c) => c,
        Err(_) => return CaseResult::Timeout("connect never completed".into()),
    };
    let class = classify(&case.status);
    let got = match &c {
        Ok(_) => "ok".to_string(),
        Err(ConnectingError::SessionRejected) => "rejected".to_string(),
        Err(ConnectingError::ConnectionError(e)) => format!("connection-error:{}", conn_err(e)),
        Err(e) => format!("other:{e}"),
    };
    let fine = match class {
        "2xx" => got == "ok",
        "non-2xx" => got == "rejected",
        "malformed" => got.starts_with("connection-error"),
        _ => true, // open forms: any outcome, but see range check below
    };
    if !fine {
        return viol(format!("C18:e2e:status:{class}"), format!(":status {:?} ({class}) -> connect = {got}", case.status));
    }
    let near = case.status.as_ref().and_then(|s| s.parse::<i64>().ok()).map(|v| [99, 100, 101, 199, 200, 201, 299, 300, 301, 598, 599, 600, 601].contains(&v)).unwrap_or(false);
    CaseResult::Pass { nontrivial: near, labels: vec!["mode:status", match class { "2xx" => "status:2xx", "non-2xx" => "status:non-2xx", "malformed" => "status:malformed", _ => "status:open-form" }] }
}

pub fn exec(case: &Case) -> CaseResult {
    let c = Arc::new(case.clone());
    let fut = async move {
        if c.requests_mode {
            exec_requests(c).await
        } else {
            exec_status(c).await
        }
    };
    match run_on(case.flavor, Duration::from_secs(30), fut) {
        Some(r) => r,
        None => CaseResult::Timeout("case did not finish in 30 s".into()),
    }
}

pub fn run(run: &Run) {
    run.set_rule(RULE);
    prop_search(
        run,
        Search { check: "admission-e2e", cases: run.tier.pick(1500, 60000), workers: 8, max_shrink_iters: 80 },
        case_strategy,
        |c| judge(|| exec(c), false, "C18:e2e:hang"),
        |c| serde_json::to_value(c).unwrap(),
    );
    for l in ["mode:requests", "mode:status", "refused-then-valid", "status:2xx", "status:non-2xx", "status:malformed"] {
        run.essential(l);
    }
}

pub fn replay(run: &Run, doc: &Value) -> bool {
    if doc["check"].as_str() != Some("admission-e2e") {
        return false;
    }
    let Ok(case) = serde_json::from_value::<Case>(doc["case"].clone()) else {
        return false;
    };
    run.eval("admission-e2e", true, 1);
    for _ in 0..3 {
        if let Outcome::Fail { signature, message } = judge(|| exec(&case), false, "C18:e2e:hang") {
            run.fail("admission-e2e", &signature, &message, doc["case"].clone());
            break;
        }
    }
    true
}
