fn main(){ eprintln!("echeck: not built yet"); std::process::exit(2) }
