mod common;
mod c01;

use vcore::{parse_args, Run};

fn main() {
    let args = parse_args();
    vcore::install_panic_hook();
    let run = Run::new(&args, "exploration");
    let id = args.prop.to_uppercase();
    type RunFn = fn(&Run);
    type ReplayFn = fn(&Run, &serde_json::Value) -> bool;
    let (run_fn, replay_fn): (RunFn, ReplayFn) = match id.as_str() {
        "C01" => (c01::run, c01::replay),
        other => {
            eprintln!("echeck: no end-to-end check for {other}");
            std::process::exit(2);
        }
    };
    if let Some(doc) = run.replay_doc() {
        if !replay_fn(&run, &doc) {
            eprintln!("echeck: replay file not understood by {id}");
            std::process::exit(2);
        }
        std::process::exit(run.finish());
    }
    for (_path, doc) in run.regress_docs() {
        if doc["engine"].as_str() == Some("echeck") {
            replay_fn(&run, &doc);
        }
    }
    run_fn(&run);
    std::process::exit(run.finish());
}
