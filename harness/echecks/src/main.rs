mod common;
mod c01;
mod c02;
mod c03;
mod c04;
mod c05;
mod c06;
mod c07;
mod c08;
mod c09;
mod c10;
mod c12;
mod c13;
mod c14;
mod c16;
mod c17;
mod c18;
mod c19;
mod c20;

use vcore::{parse_args, Run};

/// 62-bit values of every varint width (shared generator).
pub fn c17_ids() -> impl proptest::strategy::Strategy<Value = u64> {
    use proptest::prelude::*;
    prop_oneof![0u64..64, 64u64..16384, 16384u64..(1 << 30), (1u64 << 30)..(1u64 << 62)]
}

fn main() {
    let args = parse_args();
    vcore::install_panic_hook();
    let run = Run::new(&args, "exploration");
    let id = args.prop.to_uppercase();
    type RunFn = fn(&Run);
    type ReplayFn = fn(&Run, &serde_json::Value) -> bool;
    let (run_fn, replay_fn): (RunFn, ReplayFn) = match id.as_str() {
        "C01" => (c01::run, c01::replay),
        "C02" => (c02::run, c02::replay),
        "C03" => (c03::run, c03::replay),
        "C04" => (c04::run, c04::replay),
        "C05" => (c05::run, c05::replay),
        "C06" => (c06::run, c06::replay),
        "C07" => (c07::run, c07::replay),
        "C08" => (c08::run, c08::replay),
        "C09" => (c09::run, c09::replay),
        "C10" => (c10::run, c10::replay),
        "C12" => (c12::run, c12::replay),
        "C13" => (c13::run, c13::replay),
        "C14" => (c14::run, c14::replay),
        "C16" => (c16::run, c16::replay),
        "C17" => (c17::run, c17::replay),
        "C18" => (c18::run, c18::replay),
        "C19" => (c19::run, c19::replay),
        "C20" => (c20::run, c20::replay),
        other => {
            eprintln!("echeck: no end-to-end check for {other}");
            std::process::exit(2);
        }
    };
    if let Some(doc) = run.replay_doc() {
        if !replay_fn(&run, &doc) {
            eprintln!("echeck: replay file not understood by {id}");
            std::process::exit(2);
        }
        std::process::exit(run.finish());
    }
    for (_path, doc) in run.regress_docs() {
        if doc["engine"].as_str() == Some("echeck") {
            replay_fn(&run, &doc);
        }
    }
    run_fn(&run);
    std::process::exit(run.finish());
}
