//! C03 — datagram payloads are never altered and the size contract is exact.

use crate::common::*;
use proptest::prelude::*;
use serde::{Deserialize, Serialize};
use serde_json::{json, Value};
use std::collections::BTreeMap;
use std::sync::Arc;
use std::time::Duration;
use vcore::{prop_search, Outcome, Run, Search};
use wire::*;
use wtransport::error::SendDatagramError;
use wtransport::Connection;

const RULE: &str = "case = runtime flavour x direction (wtransport -> wtransport, wtransport -> raw recorder, raw peer -> wtransport) x sender role x receiver's advertised max_datagram_frame_size L in {disabled, 0..16 exhaustively, 17..1500 random, 65535} x MTU discovery off x batch of 1..40 payloads with lengths in {0, 1, max-1, max, max+1, max+2, random} and random contents (some starting with a plausible quarter-id varint) x relay policy in {pass, 20% loss, reorder} x receive pace; hook level: datagram_write/read with session ids whose quarter id needs 1, 2, 4 and 8 bytes. Oracle: (1) received payloads form a sub-multiset of the sent ones, payload() == Deref, session id is the session's, the raw receiver sees exactly quarter-id || payload; (2) with m = max_datagram_size(): len <= m is never TooLarge, len > m always is; (3) max_datagram_size() never panics and is None or Some(m <= 65535) with an m-byte payload really accepted; (4) hook: read(write(id, p)) = (id, p). Non-trivial: a delivered datagram with >= 1 byte, or a size probe at max / max+1, or L <= 16; distinct = distinct case";

#[derive(Clone, Debug, Serialize, Deserialize)]
pub struct Case {
    pub flavor: u8,
    /// 0 wt -> wt, 1 wt -> raw, 2 raw -> wt
    pub direction: u8,
    pub sender_is_client: bool,
    /// receiver's datagram receive buffer: None = datagrams disabled
    pub l: Option<u32>,
    /// (length selector, content seed): 0 => 0, 1 => 1, 2 => max-1, 3 => max, 4 => max+1, 5 => max+2, else random (value = length)
    pub payloads: Vec<(u16, u8)>,
    pub relay: u8,
    pub slow_receiver: bool,
}

pub fn case_strategy() -> impl Strategy<Value = Case> {
    let l = prop_oneof![
        1 => Just(None),
        4 => (0u32..=16).prop_map(Some),
        3 => (17u32..1500).prop_map(Some),
        2 => Just(Some(65535u32)),
        2 => Just(Some(1200u32)),
    ];
    (0u8..3, 0u8..3, any::<bool>(), l, proptest::collection::vec((prop_oneof![4 => 0u16..6, 3 => 6u16..1400], any::<u8>()), 1..40), prop_oneof![3 => Just(0u8), 1 => Just(1u8), 1 => Just(2u8)], any::<bool>())
        .prop_map(|(flavor, direction, sender_is_client, l, payloads, relay, slow_receiver)| Case { flavor, direction, sender_is_client, l, payloads, relay, slow_receiver })
}

fn content(len: usize, seed: u8, idx: usize) -> Vec<u8> {
    let mut v = payload(3000 + seed as u64 * 131 + idx as u64, len, &[]);
    // a fraction of payloads begins with something that looks like a quarter stream id varint
    if seed % 4 == 0 && len >= 2 {
        v[0] = 0x40;
        v[1] = seed;
    }
    v
}

async fn exec_async(case: Arc<Case>) -> CaseResult {
    let recv_tuning = Tuning { datagram_receive_buffer: Some(case.l.map(|l| l as usize)), mtu_discovery_off: true, initial_rtt_ms: Some(10), ..Default::default() };
    let send_tuning = Tuning { mtu_discovery_off: true, initial_rtt_ms: Some(10), datagram_send_buffer: Some(1 << 20), ..Default::default() };
    let mut relay_keep: Option<Relay> = None;
    let labels_l = match case.l {
        None => "L:disabled",
        Some(l) if l <= 16 => "L<=16",
        Some(65535) => "L:65535",
        _ => "L:mid",
    };
    // --- raw -> wt: unaltered delivery, session filter
    if case.direction % 3 == 2 {
        let (conn, raw_conn, session, _keep): (Connection, quinn::Connection, u64, Box<dyn std::any::Any + Send>) = if !case.sender_is_client {
            // raw is the server, wt the client
            match wt_client_vs_raw_server(&Tuning { mtu_discovery_off: true, ..Default::default() }, &send_tuning).await {
                Ok(p) => (p.client.clone(), p.raw.conn.clone(), p.raw.session_id, Box::new(p)),
                Err(e) => return CaseResult::Skip(e),
            }
        } else {
            match raw_client_vs_wt_server(&Tuning { mtu_discovery_off: true, ..Default::default() }, &send_tuning).await {
                Ok(p) => (p.server.clone(), p.raw.conn.clone(), p.raw.session_id, Box::new(p)),
                Err(e) => return CaseResult::Skip(e),
            }
        };
        let mut sent: BTreeMap<Vec<u8>, usize> = BTreeMap::new();
        let mut non_minimal = 0usize;
        let recv_task = {
            let conn = conn.clone();
            let slow = case.slow_receiver;
            tokio::spawn(async move {
                let mut got: Vec<(Vec<u8>, Vec<u8>, u64)> = Vec::new();
                loop {
                    match tokio::time::timeout(Duration::from_millis(250), conn.receive_datagram()).await {
                        Ok(Ok(d)) => {
                            got.push((d.payload().to_vec(), d.to_vec(), d.session_id().into_u64()));
                            if slow {
                                tokio::time::sleep(Duration::from_millis(2)).await;
                            }
                        }
                        _ => break,
                    }
                }
                got
            })
        };
        for (i, (sel, seed)) in case.payloads.iter().enumerate() {
            let len = (*sel as usize).min(1100);
            let p = content(len, *seed, i);
            // own session, and occasionally a datagram for a session that does not exist
            let target = if seed % 7 == 3 { session + 4 } else { session };
            // the quarter stream id may legally use a longer varint than necessary
            let width = [1usize, 2, 4, 8][(*seed as usize / 8) % 4].max(refcodec::varint_len(target / 4));
            let mut wire_bytes = refcodec::enc_varint_width(target / 4, width);
            wire_bytes.extend_from_slice(&p);
            if width > refcodec::varint_len(target / 4) {
                non_minimal += 1;
            }
            if raw_conn.send_datagram(wire_bytes.into()).is_ok() && target == session {
                *sent.entry(p).or_insert(0) += 1;
            }
            if i % 8 == 7 {
                tokio::time::sleep(Duration::from_millis(1)).await;
            }
        }
        let got = match tokio::time::timeout(Duration::from_secs(10), recv_task).await {
            Ok(Ok(g)) => g,
            _ => return CaseResult::Timeout("receiver task did not finish".into()),
        };
        let mut delivered_nonempty = false;
        let mut seen: BTreeMap<Vec<u8>, usize> = BTreeMap::new();
        for (p, deref, sid) in &got {
            if p != deref {
                return viol("C03:accessors", "payload() and Deref disagree");
            }
            if *sid != session {
                return viol("C03:session", format!("datagram delivered with session id {sid}, session is {session}"));
            }
            *seen.entry(p.clone()).or_insert(0) += 1;
            if !p.is_empty() {
                delivered_nonempty = true;
            }
        }
        for (p, n) in &seen {
            let s = sent.get(p).copied().unwrap_or(0);
            if *n > s {
                return viol("C03:altered", format!("received {n} datagram(s) with payload {} but the peer sent {s} such payload(s) for this session", short(p)));
            }
        }
        let mut labels = vec!["dir:raw-to-wt"];
        if non_minimal > 0 && delivered_nonempty {
            labels.push("non-minimal-quarter-id");
        }
        return CaseResult::Pass { nontrivial: delivered_nonempty, labels };
    }
    // --- wt sender
    let (sender, receiver_wt, raw_side, session, _keep): (Connection, Option<Connection>, Option<quinn::Connection>, u64, Box<dyn std::any::Any + Send>) = if case.direction % 3 == 0 {
        let (ts, tc) = if case.sender_is_client { (recv_tuning.clone(), send_tuning.clone()) } else { (send_tuning.clone(), recv_tuning.clone()) };
        // optional relay between client and server
        let server_ep = wt_server(&ts);
        let addr = server_ep.local_addr().unwrap();
        let target = if case.relay % 3 != 0 {
            let r = Relay::start(addr, 99 + case.payloads.len() as u64).await;
            let a = r.addr;
            relay_keep = Some(r);
            a
        } else {
            addr
        };
        let client_ep = wt_client(&tc);
        let accept = async {
            let incoming = server_ep.accept().await;
            let req = incoming.await.map_err(|e| format!("incoming: {e}"))?;
            req.accept().await.map_err(|e| format!("accept: {e}"))
        };
        let connect = async { client_ep.connect(url_for(target, "/")).await.map_err(|e| format!("connect: {e}")) };
        let (s, c) = tokio::join!(accept, connect);
        match (s, c) {
            (Ok(s), Ok(c)) => {
                let sid = c.session_id().into_u64();
                if case.sender_is_client {
                    (c.clone(), Some(s.clone()), None, sid, Box::new((server_ep, client_ep, s, c)))
                } else {
                    (s.clone(), Some(c.clone()), None, sid, Box::new((server_ep, client_ep, s, c)))
                }
            }
            (Err(e), _) | (_, Err(e)) => return CaseResult::Skip(e),
        }
    } else if case.sender_is_client {
        match wt_client_vs_raw_server(&send_tuning, &recv_tuning).await {
            Ok(p) => (p.client.clone(), None, Some(p.raw.conn.clone()), p.raw.session_id, Box::new(p)),
            Err(e) => return CaseResult::Skip(e),
        }
    } else {
        match raw_client_vs_wt_server(&send_tuning, &recv_tuning).await {
            Ok(p) => (p.server.clone(), None, Some(p.raw.conn.clone()), p.raw.session_id, Box::new(p)),
            Err(e) => return CaseResult::Skip(e),
        }
    };
    if let Some(r) = &relay_keep {
        match case.relay % 3 {
            1 => r.set_loss(13107),
            2 => r.set_reorder(3, 15),
            _ => {}
        }
    }
    // (3) the maximum is never nonsensical
    let m = match vcore::catch(|| sender.max_datagram_size()) {
        Ok(m) => m,
        Err(p) => return viol("C03:max-size:panic", format!("max_datagram_size() panicked with the peer advertising max_datagram_frame_size {:?}: {p}", case.l)),
    };
    if let Some(m) = m {
        if m > 65535 {
            return viol("C03:max-size:nonsense", format!("max_datagram_size() = {m} with the peer advertising {:?}", case.l));
        }
    }
    let quic_max = {
        // the transport's own limit for the whole frame payload
        #[allow(unused)]
        let q: Option<usize> = None;
        q
    };
    let _ = quic_max;
    // start receiver
    let recorder = raw_side.as_ref().map(Recorder::start);
    let recv_task = receiver_wt.clone().map(|conn| {
        let slow = case.slow_receiver;
        tokio::spawn(async move {
            let mut got: Vec<(Vec<u8>, Vec<u8>, u64)> = Vec::new();
            loop {
                match tokio::time::timeout(Duration::from_millis(300), conn.receive_datagram()).await {
                    Ok(Ok(d)) => {
                        got.push((d.payload().to_vec(), d.to_vec(), d.session_id().into_u64()));
                        if slow {
                            tokio::time::sleep(Duration::from_millis(2)).await;
                        }
                    }
                    _ => break,
                }
            }
            got
        })
    });
    let mut sent: BTreeMap<Vec<u8>, usize> = BTreeMap::new();
    let mut probed_boundary = false;
    let mut conn_lost = false;
    for (i, (sel, seed)) in case.payloads.iter().enumerate() {
        let base = m.unwrap_or(0);
        let len = match *sel {
            0 => 0,
            1 => 1,
            2 => base.saturating_sub(1),
            3 => base,
            4 => base + 1,
            5 => base + 2,
            n => n as usize,
        };
        let p = content(len, *seed, i);
        let res = match vcore::catch(|| sender.send_datagram(&p)) {
            Ok(r) => r,
            Err(pn) => return viol("C03:send:panic", format!("send_datagram({len} bytes) panicked: {pn}")),
        };
        if std::env::var("C03_DEBUG").is_ok() {
            eprintln!("send #{i} len {len} -> {res:?}; max {:?}; close_reason {:?}", sender.max_datagram_size(), sender.quic_connection().close_reason());
        }
        if matches!(res, Err(SendDatagramError::NotConnected)) && sender.quic_connection().close_reason().is_some() {
            // The connection is gone (quinn's receiver closes with "oversized datagram" when its own
            // receive buffer is smaller than a datagram plus bookkeeping overhead): the size contract
            // can no longer be observed; what was observed so far stands.
            conn_lost = true;
            break;
        }
        // the maximum may only change through MTU discovery, which is off
        let m_now = sender.max_datagram_size();
        if m_now != m {
            return CaseResult::Skip(format!("max_datagram_size changed during the case ({m:?} -> {m_now:?})"));
        }
        match m {
            None => {
                if res.is_ok() {
                    return viol("C03:contract:no-max-but-sent", format!("max_datagram_size() is None but a {len}-byte datagram was accepted"));
                }
            }
            Some(m) => {
                if len <= m && matches!(res, Err(SendDatagramError::TooLarge)) {
                    return viol("C03:contract:refused", format!("payload of {len} bytes refused as too large although max_datagram_size() = {m} (peer advertises {:?})", case.l));
                }
                if len > m && !matches!(res, Err(SendDatagramError::TooLarge)) {
                    return viol("C03:contract:accepted", format!("payload of {len} bytes was not refused as too large (result {:?}) although max_datagram_size() = {m} (peer advertises {:?})", res, case.l));
                }
                if len == m || len == m + 1 {
                    probed_boundary = true;
                }
            }
        }
        if res.is_ok() {
            *sent.entry(p).or_insert(0) += 1;
        }
        if i % 6 == 5 {
            tokio::time::sleep(Duration::from_millis(1)).await;
        }
    }
    // collect what arrived
    let mut delivered_nonempty = false;
    if let Some(t) = recv_task {
        let got = match tokio::time::timeout(Duration::from_secs(15), t).await {
            Ok(Ok(g)) => g,
            _ => return CaseResult::Timeout("receiver task did not finish".into()),
        };
        let mut seen: BTreeMap<Vec<u8>, usize> = BTreeMap::new();
        for (p, deref, sid) in &got {
            if p != deref {
                return viol("C03:accessors", "payload() and Deref disagree");
            }
            if *sid != session {
                return viol("C03:session", format!("datagram delivered with session id {sid}, session is {session}"));
            }
            *seen.entry(p.clone()).or_insert(0) += 1;
            if !p.is_empty() {
                delivered_nonempty = true;
            }
        }
        for (p, n) in &seen {
            let s = sent.get(p).copied().unwrap_or(0);
            if *n > s {
                return viol("C03:altered", format!("received {n} datagram(s) with payload {} ({} bytes) but only {s} such payload(s) were sent", short(p), p.len()));
            }
        }
    }
    if let Some(rec) = recorder {
        tokio::time::sleep(Duration::from_millis(60)).await;
        rec.stop();
        let (_, dgrams) = rec.snapshot();
        let mut seen: BTreeMap<Vec<u8>, usize> = BTreeMap::new();
        for d in &dgrams {
            match refcodec::dec_datagram(d) {
                Some((q, off)) => {
                    if q * 4 != session {
                        return viol("C03:wire:quarter-id", format!("datagram on the wire carries quarter stream id {q}, session is {session}"));
                    }
                    if off != refcodec::varint_len(q) {
                        return viol("C03:wire:varint", "quarter stream id not in shortest form");
                    }
                    *seen.entry(d[off..].to_vec()).or_insert(0) += 1;
                    if d.len() > off {
                        delivered_nonempty = true;
                    }
                }
                None => return viol("C03:wire:malformed", format!("datagram on the wire without a quarter stream id: {}", short(d))),
            }
        }
        for (p, n) in &seen {
            let s = sent.get(p).copied().unwrap_or(0);
            if *n > s {
                return viol("C03:wire:altered", format!("the peer received {n} datagram(s) with payload {} but only {s} were sent", short(p)));
            }
        }
    }
    let small_l = matches!(case.l, Some(l) if l <= 16);
    let mut labels = vec![labels_l, if case.direction % 3 == 0 { "dir:wt-to-wt" } else { "dir:wt-to-raw" }];
    if probed_boundary {
        labels.push("probe:max/max+1");
    }
    if delivered_nonempty {
        labels.push("delivered");
    }
    if relay_keep.is_some() {
        labels.push("relay");
    }
    if conn_lost {
        labels.push("conn-lost-by-transport");
    }
    CaseResult::Pass { nontrivial: delivered_nonempty || probed_boundary || small_l, labels }
}

pub fn exec(case: &Case) -> CaseResult {
    let c = Arc::new(case.clone());
    match run_on(case.flavor, Duration::from_secs(40), exec_async(c)) {
        Some(r) => r,
        None => CaseResult::Timeout("case did not finish in 40 s".into()),
    }
}

/// Hook level: the library's own datagram codec with session ids of every quarter-id width.
pub fn test_hook(session: u64, p: &[u8]) -> Result<(), (String, String)> {
    use wtransport::proto::ids::{SessionId, StreamId};
    let sid = SessionId::try_from_session_stream(StreamId::new(wtransport::VarInt::try_from_u64(session).unwrap())).unwrap();
    let wire = wtransport::verif_hooks::datagram_write(sid, p);
    let expect = refcodec::enc_datagram(session, p);
    if wire[..] != expect[..] {
        return Err(("C03:hook:encode".into(), format!("datagram_write(session {session}, {} bytes) = {}, expected {}", p.len(), short(&wire), short(&expect))));
    }
    let hs = wtransport::verif_hooks::datagram_header_size(sid);
    if hs != refcodec::varint_len(session / 4) {
        return Err(("C03:hook:header-size".into(), format!("header size {hs} for session {session}")));
    }
    // every wider (non-minimal) encoding of the quarter stream id carries the same payload
    for w in [2usize, 4, 8] {
        if w > refcodec::varint_len(session / 4) {
            let mut wide = refcodec::enc_varint_width(session / 4, w);
            wide.extend_from_slice(p);
            match wtransport::verif_hooks::datagram_read(wide.into()) {
                Ok(d) => {
                    if d.session_id() != sid || d.payload()[..] != p[..] || &d[..] != p {
                        return Err(("C03:hook:decode-wide".into(), format!("datagram whose quarter id {} is encoded on {w} bytes is delivered with session {} and payload {} (sent {})", session / 4, d.session_id().into_u64(), short(&d.payload()), short(p))));
                    }
                }
                Err(e) => return Err(("C03:hook:decode-wide".into(), format!("datagram with a {w}-byte quarter id rejected: {e:?}"))),
            }
        }
    }
    match wtransport::verif_hooks::datagram_read(wire) {
        Ok(d) => {
            if d.session_id() != sid || d.payload()[..] != p[..] || &d[..] != p {
                return Err(("C03:hook:decode".into(), format!("read(write(session {session}, {} bytes)) yields session {} and {} payload bytes: {}", p.len(), d.session_id().into_u64(), d.payload().len(), short(&d.payload()))));
            }
        }
        Err(e) => return Err(("C03:hook:decode".into(), format!("read(write(..)) failed: {e:?}"))),
    }
    Ok(())
}

pub fn run(run: &Run) {
    run.set_rule(RULE);
    run.assume("MTU discovery is off so that the maximum datagram size cannot change between the query and the send");
    run.assume("with max_datagram_size() == None every send must fail (no payload is 'no longer than the maximum')");
    run.assume("when the transport itself tears the connection down during a case (quinn's receiver rejects any datagram if its receive buffer is smaller than the datagram plus ~32 bytes of bookkeeping) later sends are not judged");
    let workers = run.workers();
    prop_search(
        run,
        Search { check: "codec-hook", cases: run.tier.pick(200_000, 3_000_000), workers, max_shrink_iters: 2000 },
        || (prop_oneof![0u64..64, 64u64..16384, 16384u64..(1 << 30), (1u64 << 30)..(1u64 << 60)].prop_map(|q| q * 4), proptest::collection::vec(any::<u8>(), 0..2000)),
        |(s, p)| match vcore::catch(|| test_hook(*s, p)) {
            Ok(Ok(())) => Outcome::pass(*s >= 256),
            Ok(Err((a, b))) => Outcome::fail(a, b),
            Err(pn) => Outcome::fail("C03:hook:panic", pn),
        },
        |(s, p)| json!({"session": s, "payload": vcore::hex(p)}),
    );
    // every small L deterministically, both roles, wt sender
    for l in 0u32..=20 {
        for sender_is_client in [true, false] {
            for direction in [0u8, 1] {
                let case = Case { flavor: (l % 3) as u8, direction, sender_is_client, l: Some(l), payloads: vec![(4, 4), (5, 5), (3, 3), (2, 6), (0, 1), (1, 2)], relay: 0, slow_receiver: false };
                match judge(|| exec(&case), false, "C03:hang") {
                    Outcome::Pass { nontrivial, labels } => {
                        run.eval("small-l-table", nontrivial, vcore::hash64(&format!("{case:?}")));
                        for lb in labels {
                            run.label(lb);
                        }
                        if run.wants_sample("small-l-table") {
                            run.sample("small-l-table", || serde_json::to_value(&case).unwrap());
                        }
                    }
                    Outcome::Fail { signature, message } => {
                        run.eval("small-l-table", false, 0);
                        run.fail("datagrams", &signature, &message, serde_json::to_value(&case).unwrap());
                    }
                    Outcome::Inconclusive(w) => run.inconclusive(&w),
                }
            }
        }
    }
    run.section_exhaustive("small-l-table", true, "L in 0..=20 x sender role x {wt, raw} receiver, probes at 0, 1, max-1, max, max+1, max+2");
    prop_search(
        run,
        Search { check: "datagrams", cases: run.tier.pick(600, 20000), workers: 8, max_shrink_iters: 60 },
        case_strategy,
        |c| judge(|| exec(c), false, "C03:hang"),
        |c| serde_json::to_value(c).unwrap(),
    );
    for l in ["L<=16", "L:mid", "L:65535", "L:disabled", "dir:wt-to-wt", "dir:wt-to-raw", "dir:raw-to-wt", "probe:max/max+1", "delivered", "relay", "non-minimal-quarter-id"] {
        run.essential(l);
    }
}

pub fn replay(run: &Run, doc: &Value) -> bool {
    let check = doc["check"].as_str().unwrap_or("");
    if check == "codec-hook" {
        let s = doc["case"]["session"].as_u64().unwrap_or(0);
        let p = doc["case"]["payload"].as_str().and_then(vcore::unhex).unwrap_or_default();
        run.eval(check, true, 1);
        if let Ok(Err((a, b))) = vcore::catch(|| test_hook(s, &p)) {
            run.fail(check, &a, &b, doc["case"].clone());
        }
        return true;
    }
    let Ok(case) = serde_json::from_value::<Case>(doc["case"].clone()) else {
        return false;
    };
    run.eval("datagrams", true, 1);
    for _ in 0..3 {
        if let Outcome::Fail { signature, message } = judge(|| exec(&case), false, "C03:hang") {
            run.fail("datagrams", &signature, &message, doc["case"].clone());
            break;
        }
    }
    true
}
