//! C04 — session termination is reported with the peer's exact code and reason.

use crate::common::*;
use proptest::prelude::*;
use serde::{Deserialize, Serialize};
use serde_json::Value;
use std::sync::{Arc, Mutex};
use std::time::Duration;
use vcore::{prop_search, Outcome, Run, Search};
use wire::*;
use wtransport::Connection;

const RULE: &str = "case = runtime flavour x role of the wtransport endpoint x termination style in {close capsule(code: u32 boundaries + random, reason: UTF-8 of 0..1024 bytes incl. multi-byte scalars at the 1024 boundary), clean FIN of the session stream, QUIC application close(code: 62-bit boundaries + random, reason bytes 0..1000 incl. non-UTF-8), abrupt: RESET of the session stream, FIN inside a DATA frame, malformed capsule: value shorter than 4 / longer than 1028 bytes / invalid UTF-8} x session phase in {idle, k open streams, pending accept_uni + accept_bi + receive_datagram in separate tasks}; wtransport<->wtransport with Connection::close on the other side. The capsule is written in one piece. Oracle: all pending and three subsequent peer-waiting calls return ApplicationClosed with exactly the peer's code and reason ((0, empty) for the clean FIN); abrupt / malformed styles give an error that is not ApplicationClosed and the raw peer sees a CONNECTION_CLOSE with an HTTP/3 error code. Non-trivial: non-zero code or non-empty reason or >= 1 pending call; distinct = distinct case";

#[derive(Clone, Debug, Serialize, Deserialize, PartialEq)]
pub enum Style {
    Capsule(u32, String),
    Fin,
    QuicClose(u64, Vec<u8>),
    /// wt<->wt: the other wtransport endpoint calls Connection::close
    WtClose(u64, Vec<u8>),
    Reset(u64),
    FinInsideData,
    /// FIN inside a frame: (type selector, declared length, bytes present: 0 = right after the
    /// length, 255 = FIN inside the length varint, 254 = FIN inside the type varint)
    #[serde(alias = "FinInsideFrame")]
    FinInsideFrame(u8, u8, u8),
    /// 0 value shorter than 4 bytes, 1 longer than 1028, 2 invalid UTF-8 reason
    Malformed(u8),
}

#[derive(Clone, Debug, Serialize, Deserialize)]
pub struct Case {
    pub flavor: u8,
    pub wt_is_server: bool,
    pub style: Style,
    /// 0 idle (calls issued after the close), 1 open streams + pending calls, 2 pending calls only
    pub phase: u8,
    pub open_streams: u8,
    /// peer streams / datagrams sent in the same flight right before the terminating action
    #[serde(default)]
    pub burst: u8,
}

fn reason_strategy() -> impl Strategy<Value = String> {
    prop_oneof![
        2 => Just(String::new()),
        3 => "[ -~]{1,40}",
        2 => "\\PC{1,60}",
        1 => "[a-z]{1020,1024}",
        1 => "é{511,512}",                 // 2-byte scalars up to exactly 1024 bytes
        1 => "€{340,341}x?",               // 3-byte scalars around the boundary
    ]
    .prop_map(|s| {
        // keep within the 1024-byte limit of the capsule without cutting a scalar
        let mut s = s;
        while s.len() > 1024 {
            s.pop();
        }
        s
    })
}

pub fn case_strategy() -> impl Strategy<Value = Case> {
    let code32 = prop_oneof![Just(0u32), Just(1), Just(255), Just(256), Just(u32::MAX), Just(1 << 31), any::<u32>()];
    let code62 = prop_oneof![Just(0u64), Just(63), Just(64), Just(16383), Just(16384), Just((1 << 30) - 1), Just(1 << 30), Just((1u64 << 62) - 1), 0u64..(1 << 62)];
    let style = prop_oneof![
        5 => (code32, reason_strategy()).prop_map(|(c, r)| Style::Capsule(c, r)),
        2 => Just(Style::Fin),
        4 => (code62.clone(), prop_oneof![proptest::collection::vec(any::<u8>(), 0..60), proptest::collection::vec(any::<u8>(), 900..1000)]).prop_map(|(c, r)| Style::QuicClose(c, r)),
        2 => (code62.clone(), proptest::collection::vec(any::<u8>(), 0..60)).prop_map(|(c, r)| Style::WtClose(c, r)),
        2 => code62.prop_map(Style::Reset),
        1 => Just(Style::FinInsideData),
        3 => (0u8..5, 1u8..60, prop_oneof![3 => Just(0u8), 2 => any::<u8>(), 1 => Just(255u8), 1 => Just(254u8)]).prop_map(|(t, d, p)| Style::FinInsideFrame(t, d, p)),
        3 => (0u8..3).prop_map(Style::Malformed),
    ];
    (0u8..3, any::<bool>(), style, 0u8..3, 0u8..4, prop_oneof![3 => Just(0u8), 1 => 1u8..8, 1 => 8u8..48]).prop_map(|(flavor, wt_is_server, style, phase, open_streams, burst)| Case { flavor, wt_is_server, style, phase, open_streams, burst })
}

#[derive(Default)]
struct Shared {
    results: Vec<(String, String)>,
}

async fn exec_async(case: Arc<Case>) -> CaseResult {
    let shared = Arc::new(Mutex::new(Shared::default()));
    let wt_wt = matches!(case.style, Style::WtClose(..));
    let mut keep: Vec<Box<dyn std::any::Any + Send>> = Vec::new();
    let conn: Connection;
    let mut raw: Option<(quinn::Connection, quinn::SendStream, u64)> = None;
    let mut other: Option<Connection> = None;
    if wt_wt {
        match wt_pair(&Tuning::default(), &Tuning::default()).await {
            Ok(p) => {
                let (a, b) = if case.wt_is_server { (p.server.clone(), p.client.clone()) } else { (p.client.clone(), p.server.clone()) };
                conn = a;
                other = Some(b);
                keep.push(Box::new(p));
            }
            Err(e) => return CaseResult::Skip(e),
        }
    } else if case.wt_is_server {
        match raw_client_vs_wt_server(&Tuning::default(), &Tuning::default()).await {
            Ok(p) => {
                let RawClientVsWt { server_ep, server, raw: r } = p;
                let RawClientSession { endpoint, conn: rc, control, req_send, req_recv, session_id, .. } = r;
                conn = server;
                raw = Some((rc, req_send, session_id));
                keep.push(Box::new((server_ep, endpoint, control, req_recv)));
            }
            Err(e) => return CaseResult::Skip(e),
        }
    } else {
        match wt_client_vs_raw_server(&Tuning::default(), &Tuning::default()).await {
            Ok(p) => {
                let WtClientVsRaw { client_ep, client, raw_ep, raw: r } = p;
                let RawServerSession { conn: rc, control, req_send, req_recv, session_id, .. } = r;
                conn = client;
                raw = Some((rc, req_send, session_id));
                keep.push(Box::new((client_ep, raw_ep, control, req_recv)));
            }
            Err(e) => return CaseResult::Skip(e),
        }
    }
    // phase: open streams in both directions that stay open
    if case.phase == 1 {
        for k in 0..case.open_streams {
            if let Some((rc, _, sid)) = &raw {
                if let Ok(mut s) = raw_open_wt_uni(rc, *sid).await {
                    let _ = s.write_all(b"open").await;
                    keep.push(Box::new(s));
                }
            }
            if k % 2 == 0 {
                if let Ok(o) = conn.open_uni().await {
                    if let Ok(mut s) = o.await {
                        let _ = s.write_all(b"mine").await;
                        keep.push(Box::new(s));
                    }
                }
            }
        }
        // the application accepts the peer's streams and holds them
        for _ in 0..case.open_streams {
            if raw.is_some() {
                if let Ok(Ok(r)) = tokio::time::timeout(Duration::from_secs(2), conn.accept_uni()).await {
                    keep.push(Box::new(r));
                }
            }
        }
    }
    // pending calls
    let mut tasks = Vec::new();
    if case.phase >= 1 {
        macro_rules! pend {
            ($name:expr, $call:ident) => {{
                let c = conn.clone();
                let sh = shared.clone();
                tasks.push(tokio::spawn(async move {
                    // traffic that arrives before the end is legitimately handed out first
                    let mut n = 0;
                    let r = loop {
                        match c.$call().await {
                            Ok(_) => {
                                n += 1;
                                if n > 200 {
                                    break "Ok".to_string();
                                }
                            }
                            Err(e) => break conn_err(&e),
                        }
                    };
                    sh.lock().unwrap().results.push(($name.to_string(), r));
                }));
            }};
        }
        pend!("pending accept_uni", accept_uni);
        pend!("pending accept_bi", accept_bi);
        pend!("pending receive_datagram", receive_datagram);
        tokio::time::sleep(Duration::from_millis(3)).await;
    }
    // the peer ends the session
    let expect: Option<String> = match &case.style {
        Style::Capsule(c, r) => Some(format!("ApplicationClosed({},{})", c, vcore::hex(r.as_bytes()))),
        Style::Fin => Some("ApplicationClosed(0,)".into()),
        Style::QuicClose(c, r) | Style::WtClose(c, r) => Some(format!("ApplicationClosed({},{})", c, vcore::hex(r))),
        _ => None,
    };
    // "at every point of the session's life": a burst of healthy peer traffic in the same flight
    if let Some((rc, _, sid)) = raw.as_ref() {
        for k in 0..case.burst {
            if k % 5 == 4 {
                let _ = rc.send_datagram(refcodec::enc_datagram(*sid, b"burst").into());
            } else if let Ok(mut s) = rc.open_uni().await {
                let mut b = refcodec::enc_uni_header_wt(*sid);
                b.extend_from_slice(b"burst");
                let _ = s.write_all(&b).await;
                let _ = s.finish();
                keep.push(Box::new(s));
            }
        }
    }
    {
        match &case.style {
            Style::WtClose(c, r) => other.as_ref().unwrap().close(wtransport::VarInt::try_from_u64(*c).unwrap(), r),
            style => {
                let (rc, req_send, _) = raw.as_mut().unwrap();
                match style {
                    Style::Capsule(c, r) => {
                        let bytes = refcodec::enc_frame(refcodec::registry::FRAME_DATA, &refcodec::enc_close_capsule(*c, r.as_bytes()));
                        if req_send.write_all(&bytes).await.is_err() {
                            return CaseResult::Skip("capsule write failed".into());
                        }
                        let _ = req_send.finish();
                    }
                    Style::Fin => {
                        let _ = req_send.finish();
                    }
                    Style::QuicClose(c, r) => rc.close(vi(*c), r),
                    Style::Reset(c) => {
                        let _ = req_send.reset(vi(*c));
                    }
                    Style::FinInsideData => {
                        let mut b = refcodec::enc_frame_header(refcodec::registry::FRAME_DATA, 30);
                        b.extend_from_slice(&[1, 2, 3]);
                        let _ = req_send.write_all(&b).await;
                        let _ = req_send.finish();
                    }
                    Style::FinInsideFrame(t, declared, present) => {
                        // DATA, HEADERS, GREASE, an unknown type (2-byte varint), an unknown type (1 byte)
                        let ty = [refcodec::registry::FRAME_DATA, refcodec::registry::FRAME_HEADERS, refcodec::grease(40), 0x4242, 0x2f][*t as usize % 5];
                        let mut b = refcodec::enc_frame_header(ty, (*declared as u64).max(1) + if *present == 255 { 100 } else { 0 });
                        match *present {
                            255 => {
                                // cut inside the (2-byte) length varint
                                b.truncate(b.len() - 1);
                            }
                            254 => {
                                // cut inside the type varint (only multi-byte types), else right after it
                                let tl = refcodec::varint_len(ty);
                                b.truncate(if tl > 1 { tl - 1 } else { tl });
                            }
                            p => b.extend(std::iter::repeat(0x5a).take((p as usize) % (*declared as usize).max(1))),
                        }
                        let _ = req_send.write_all(&b).await;
                        let _ = req_send.finish();
                    }
                    Style::Malformed(k) => {
                        let value: Vec<u8> = match k % 3 {
                            0 => vec![0, 0, 1],
                            1 => {
                                let mut v = 7u32.to_be_bytes().to_vec();
                                v.extend(std::iter::repeat(b'a').take(1025));
                                v
                            }
                            _ => {
                                let mut v = 7u32.to_be_bytes().to_vec();
                                v.extend_from_slice(&[b'o', b'k', 0xff, 0xfe]);
                                v
                            }
                        };
                        let bytes = refcodec::enc_frame(refcodec::registry::FRAME_DATA, &refcodec::enc_capsule(refcodec::registry::CAPSULE_CLOSE_WT_SESSION, &value));
                        let _ = req_send.write_all(&bytes).await;
                    }
                    Style::WtClose(..) => unreachable!(),
                }
            }
        }
    }
    let bound = Duration::from_secs(5);
    let n_pending = tasks.len();
    for t in tasks {
        if tokio::time::timeout(bound, t).await.is_err() {
            return CaseResult::Timeout(format!("a pending call did not complete {bound:?} after the peer ended the session ({:?})", case.style));
        }
    }
    for round in 0..3 {
        macro_rules! late {
            ($name:expr, $call:ident) => {{
                // items buffered before the end may still be handed out (bounded), then errors
                let mut n = 0;
                loop {
                    match tokio::time::timeout(bound, conn.$call()).await {
                        Ok(Ok(_)) => {
                            n += 1;
                            if n > 64 {
                                shared.lock().unwrap().results.push(($name.to_string(), "Ok".into()));
                                break;
                            }
                        }
                        Ok(Err(e)) => {
                            shared.lock().unwrap().results.push(($name.to_string(), conn_err(&e)));
                            break;
                        }
                        Err(_) => return CaseResult::Timeout(format!("{} (round {round}) hangs after the session ended", $name)),
                    }
                }
            }};
        }
        late!("later accept_uni", accept_uni);
        late!("later accept_bi", accept_bi);
        late!("later receive_datagram", receive_datagram);
    }
    let g = shared.lock().unwrap();
    for (op, got) in &g.results {
        match &expect {
            Some(want) => {
                if got != want {
                    return viol(format!("C04:value:{}", style_name(&case.style)), format!("{op} reported {got}, the peer ended the session with {want}"));
                }
            }
            None => {
                if got == "Ok" || got.starts_with("ApplicationClosed") {
                    return viol(format!("C04:abrupt-as-close:{}", style_name(&case.style)), format!("{op} reported {got} although the session stream was terminated abruptly / the capsule is malformed ({:?})", case.style));
                }
            }
        }
    }
    drop(g);
    // transport-level view
    match &case.style {
        Style::QuicClose(..) | Style::WtClose(..) => {
            let e = match tokio::time::timeout(bound, conn.closed()).await {
                Ok(e) => conn_err(&e),
                Err(_) => return CaseResult::Timeout("closed() hangs".into()),
            };
            if Some(&e) != expect.as_ref() {
                return viol("C04:closed-value", format!("closed() reported {e}, expected {:?}", expect));
            }
        }
        Style::Reset(_) | Style::FinInsideData | Style::FinInsideFrame(..) | Style::Malformed(_) => {
            let (rc, _, _) = raw.as_ref().unwrap();
            match tokio::time::timeout(bound, rc.closed()).await {
                Ok(e) => match close_seen(&e) {
                    CloseSeen::Application(code, _) if (0x100..=0x110).contains(&code) || code == 0x33 || code == 0x200 => {}
                    other => return viol("C04:abrupt-wire-code", format!("after {:?} the peer saw {:?}, expected a CONNECTION_CLOSE with an HTTP/3 error code", case.style, other)),
                },
                Err(_) => return CaseResult::Timeout(format!("after {:?} the endpoint never closed the connection", case.style)),
            }
        }
        _ => {}
    }
    drop(keep);
    let nt = match &case.style {
        Style::Capsule(c, r) => *c != 0 || !r.is_empty(),
        Style::QuicClose(c, r) | Style::WtClose(c, r) => *c != 0 || !r.is_empty(),
        _ => false,
    } || n_pending > 0;
    let mut labels = vec![style_label(&case.style)];
    if case.burst > 0 && raw.is_some() {
        labels.push("burst-before-end");
    }
    CaseResult::Pass { nontrivial: nt, labels }
}

fn style_name(s: &Style) -> &'static str {
    match s {
        Style::Capsule(..) => "capsule",
        Style::Fin => "fin",
        Style::QuicClose(..) => "quic-close",
        Style::WtClose(..) => "wt-close",
        Style::Reset(_) => "reset",
        Style::FinInsideData => "fin-inside-data",
        Style::FinInsideFrame(..) => "fin-inside-frame",
        Style::Malformed(_) => "malformed-capsule",
    }
}

fn style_label(s: &Style) -> &'static str {
    match s {
        Style::Capsule(_, r) if r.len() >= 1020 => "style:capsule-long-reason",
        Style::Capsule(..) => "style:capsule",
        Style::Fin => "style:fin",
        Style::QuicClose(..) => "style:quic-close",
        Style::WtClose(..) => "style:wt-close",
        Style::Reset(_) => "style:reset",
        Style::FinInsideData => "style:fin-inside-data",
        Style::FinInsideFrame(t, _, 0) if *t % 5 >= 3 => "style:fin-after-unknown-frame-header",
        Style::FinInsideFrame(..) => "style:fin-inside-frame",
        Style::Malformed(_) => "style:malformed-capsule",
    }
}

pub fn exec(case: &Case) -> CaseResult {
    let c = Arc::new(case.clone());
    match run_on(case.flavor, Duration::from_secs(30), exec_async(c)) {
        Some(r) => r,
        None => CaseResult::Timeout("case did not finish in 30 s".into()),
    }
}

pub fn run(run: &Run) {
    run.set_rule(RULE);
    run.assume("QUIC close reasons stay below 1000 bytes (longer ones are truncated by the transport by design)");
    prop_search(
        run,
        Search { check: "termination-value", cases: run.tier.pick(3000, 100000), workers: 8, max_shrink_iters: 60 },
        case_strategy,
        |c| judge(|| exec(c), true, "C04:hang"),
        |c| serde_json::to_value(c).unwrap(),
    );
    for l in ["style:capsule", "style:capsule-long-reason", "style:fin", "style:quic-close", "style:wt-close", "style:reset", "style:fin-inside-data", "style:fin-inside-frame", "style:fin-after-unknown-frame-header", "style:malformed-capsule", "burst-before-end"] {
        run.essential(l);
    }
}

pub fn replay(run: &Run, doc: &Value) -> bool {
    let Ok(case) = serde_json::from_value::<Case>(doc["case"].clone()) else {
        return false;
    };
    run.eval("termination-value", true, 1);
    for _ in 0..3 {
        if let Outcome::Fail { signature, message } = judge(|| exec(&case), true, "C04:hang") {
            run.fail("termination-value", &signature, &message, doc["case"].clone());
            break;
        }
    }
    true
}
