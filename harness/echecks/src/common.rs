//! Shared end-to-end infrastructure: runtimes, endpoint pairs, liveness judgement.

use std::future::Future;
use std::time::Duration;
use vcore::Outcome;
use wire::*;
use wtransport::endpoint::endpoint_side::{Client, Server};
use wtransport::{Connection, Endpoint};

pub use wire::Res;

/// Result of one end-to-end case.
pub enum CaseResult {
    Pass { nontrivial: bool, labels: Vec<&'static str> },
    Violation { signature: String, message: String },
    /// The case did not finish within its bound (judged by the liveness rule).
    Timeout(String),
    /// The harness itself could not run the case (setup failure unrelated to the property).
    Skip(String),
}

pub fn viol(sig: impl Into<String>, msg: impl Into<String>) -> CaseResult {
    CaseResult::Violation { signature: sig.into(), message: msg.into() }
}

pub fn build_rt(flavor: u8) -> tokio::runtime::Runtime {
    build_rt_named(flavor, "case-rt")
}

fn build_rt_named(flavor: u8, name: &str) -> tokio::runtime::Runtime {
    match flavor % 3 {
        0 => tokio::runtime::Builder::new_current_thread().enable_all().build().unwrap(),
        1 => tokio::runtime::Builder::new_multi_thread().worker_threads(2).thread_name(name).enable_all().build().unwrap(),
        _ => tokio::runtime::Builder::new_multi_thread().worker_threads(4).thread_name(name).enable_all().build().unwrap(),
    }
}

/// Runs `fut` on a fresh runtime of the given flavour under `bound`.
pub fn run_on<F, T>(flavor: u8, bound: Duration, fut: F) -> Option<T>
where
    F: Future<Output = T>,
{
    static RT_SEQ: std::sync::atomic::AtomicU64 = std::sync::atomic::AtomicU64::new(0);
    let rt_name = format!("case-rt-{}-", RT_SEQ.fetch_add(1, std::sync::atomic::Ordering::Relaxed));
    let rt = build_rt_named(flavor, &rt_name);
    // a panic of the code under test on this thread (current-thread runtime) must not take the
    // harness down: it is recorded by the panic hook and judged by `judge`
    let r = std::panic::catch_unwind(std::panic::AssertUnwindSafe(|| rt.block_on(async { tokio::time::timeout(bound, fut).await.ok() })));
    // Tearing the runtime down destroys the library's background tasks while application tasks of
    // the case may still be polled on other worker threads; what they observe then (e.g. the
    // driver's result channel closed without a result) is an artefact of the teardown, not a
    // behaviour of a connection that ended: panics logged from this runtime's threads during the
    // shutdown are tagged and not judged.
    vcore::mark_teardown(&rt_name, true);
    rt.shutdown_timeout(Duration::from_millis(200));
    vcore::mark_teardown(&rt_name, false);
    r.unwrap_or(None)
}

/// A panic logged while the harness was tearing the case's runtime down.
fn teardown_panic(p: &str) -> bool {
    p.ends_with("[teardown]")
}

/// A panic raised inside the library under test (not by the harness, quinn or tokio).
fn library_panic(p: &str) -> bool {
    p.contains("/repo/wtransport") && !p.ends_with("[teardown]")
}

/// Liveness rule: where the statement promises completion, a timeout that reproduces on 3 of 3
/// re-executions is a violation; otherwise the case is inconclusive.
pub fn judge(exec: impl Fn() -> CaseResult, liveness_promised: bool, timeout_signature: &str) -> Outcome {
    let panics_before = vcore::panic_log_len();
    let mut r = exec();
    // a case whose set-up failed (e.g. a connect lost under load) is retried before it is given up
    for _ in 0..2 {
        if matches!(r, CaseResult::Skip(_)) {
            r = exec();
        }
    }
    let panics = vcore::panic_log_since(panics_before);
    // the library itself panicked and the case did not come to a verdict of its own: the panic
    // is the finding if it comes back when the case is executed again
    if !matches!(r, CaseResult::Violation { .. } | CaseResult::Pass { .. }) {
        if let Some(p) = panics.iter().find(|p| library_panic(p)) {
            for _ in 0..2 {
                let before = vcore::panic_log_len();
                let _ = exec();
                if vcore::panic_log_since(before).iter().any(|q| library_panic(q)) {
                    let prop = timeout_signature.split(':').next().unwrap_or("C00");
                    return Outcome::fail(format!("{prop}:library-panic"), format!("the library panicked while the case was executed (reproduced): {p}"));
                }
            }
        }
    }
    match r {
        CaseResult::Pass { nontrivial, labels } => {
            if let Some(p) = panics.iter().find(|p| !benign_panic(p) && !teardown_panic(p)) {
                // like every other deviation: reported only if it shows again
                for _ in 0..3 {
                    let before = vcore::panic_log_len();
                    let _ = exec();
                    if vcore::panic_log_since(before).iter().any(|q| !benign_panic(q) && !teardown_panic(q)) {
                        return Outcome::fail("panic-in-task", format!("a task panicked during the case (reproduced): {p}"));
                    }
                }
                return Outcome::Inconclusive(format!("a task panicked once during the case but not in 3 re-executions: {p}"));
            }
            Outcome::pass_l(nontrivial, labels)
        }
        CaseResult::Violation { signature, message } => {
            // Confirm by re-execution: a deviation caused by the environment (a CONNECTION_CLOSE
            // packet dropped by an overloaded loop-back socket, a connect lost under load) does
            // not come back, a defect of the code under test does (the harness arranges the
            // timing the case needs). Reported only if it shows again in 3 more executions.
            for _ in 0..3 {
                if let CaseResult::Violation { signature: s2, message: m2 } = exec() {
                    let same_class = s2.split(':').take(2).eq(signature.split(':').take(2));
                    return if same_class { Outcome::fail(signature, message) } else { Outcome::fail(s2, m2) };
                }
            }
            Outcome::Inconclusive(format!("a deviation was observed once but not in 3 re-executions ({signature}: {message})"))
        }
        CaseResult::Skip(why) => Outcome::Inconclusive(format!("case skipped: {why}")),
        CaseResult::Timeout(what) => {
            if !liveness_promised {
                return Outcome::Inconclusive(format!("watchdog: {what}"));
            }
            let mut again = 0;
            for _ in 0..3 {
                match exec() {
                    CaseResult::Timeout(_) => again += 1,
                    CaseResult::Violation { signature, message } => return Outcome::fail(signature, message),
                    _ => break,
                }
            }
            if again == 3 {
                Outcome::fail(timeout_signature, format!("did not complete within the bound on 4 of 4 executions: {what}"))
            } else {
                Outcome::Inconclusive(format!("watchdog fired once but did not reproduce: {what}"))
            }
        }
    }
}

fn benign_panic(p: &str) -> bool {
    // panics raised by the harness's own expectations are reported through CaseResult
    p.contains("echecks/src") || p.contains("wire/src")
}

pub struct WtPair {
    pub server_ep: Endpoint<Server>,
    pub client_ep: Endpoint<Client>,
    pub server: Connection,
    pub client: Connection,
}

/// Establishes a wtransport <-> wtransport session on loop-back.
pub async fn wt_pair(ts: &Tuning, tc: &Tuning) -> Res<WtPair> {
    let server_ep = wt_server(ts);
    let addr = server_ep.local_addr().map_err(|e| e.to_string())?;
    let client_ep = wt_client(tc);
    let url = url_for(addr, "/");
    let accept = async {
        let incoming = server_ep.accept().await;
        let req = incoming.await.map_err(|e| format!("incoming: {e}"))?;
        req.accept().await.map_err(|e| format!("accept: {e}"))
    };
    let connect = async { client_ep.connect(url).await.map_err(|e| format!("connect: {e}")) };
    let (s, c) = tokio::join!(accept, connect);
    Ok(WtPair { server: s?, client: c?, server_ep, client_ep })
}

pub struct RawClientVsWt {
    pub server_ep: Endpoint<Server>,
    pub server: Connection,
    pub raw: RawClientSession,
}

/// wtransport server accepted a session opened by the raw client.
pub async fn raw_client_vs_wt_server(ts: &Tuning, traw: &Tuning) -> Res<RawClientVsWt> {
    let server_ep = wt_server(ts);
    let addr = server_ep.local_addr().map_err(|e| e.to_string())?;
    let accept = async {
        let incoming = server_ep.accept().await;
        let req = incoming.await.map_err(|e| format!("incoming: {e}"))?;
        req.accept().await.map_err(|e| format!("accept: {e}"))
    };
    let raw = raw_client_session(addr, traw, "/");
    let (s, r) = tokio::join!(accept, raw);
    let raw = r?;
    if !raw.response.iter().any(|(k, v)| k == ":status" && v == "200") {
        return Err(format!("unexpected response {:?}", raw.response));
    }
    Ok(RawClientVsWt { server: s?, server_ep, raw })
}

pub struct WtClientVsRaw {
    pub client_ep: Endpoint<Client>,
    pub client: Connection,
    pub raw_ep: quinn::Endpoint,
    pub raw: RawServerSession,
}

/// wtransport client connected to the raw server, which answered 200.
pub async fn wt_client_vs_raw_server(tc: &Tuning, traw: &Tuning) -> Res<WtClientVsRaw> {
    let (raw_ep, addr) = raw_server(traw)?;
    let client_ep = wt_client(tc);
    let url = url_for(addr, "/");
    let serve = async {
        let mut s = raw_server_accept(&raw_ep, &default_settings()).await?;
        s.respond("200", &[]).await?;
        Ok::<_, String>(s)
    };
    let connect = async { client_ep.connect(url).await.map_err(|e| format!("connect: {e}")) };
    let (s, c) = tokio::join!(serve, connect);
    Ok(WtClientVsRaw { client: c?, client_ep, raw: s?, raw_ep })
}

/// Deterministic payload: byte at `off` of the stream tagged `tag`.
pub fn pbyte(tag: u64, off: usize) -> u8 {
    let x = (tag.wrapping_mul(0x9e3779b97f4a7c15)) ^ (off as u64).wrapping_mul(0xbf58476d1ce4e5b9);
    ((x ^ (x >> 29) ^ (x >> 47)) & 0xff) as u8
}

pub fn payload(tag: u64, len: usize, head: &[u8]) -> Vec<u8> {
    let mut v: Vec<u8> = (0..len).map(|o| pbyte(tag, o)).collect();
    let n = head.len().min(len);
    v[..n].copy_from_slice(&head[..n]);
    v
}

pub fn short(b: &[u8]) -> String {
    vcore::hex_short(b)
}

/// First position where two byte strings differ.
pub fn first_diff(a: &[u8], b: &[u8]) -> Option<usize> {
    let n = a.len().min(b.len());
    for i in 0..n {
        if a[i] != b[i] {
            return Some(i);
        }
    }
    if a.len() != b.len() {
        Some(n)
    } else {
        None
    }
}

/// Polls the inner future at most `left` times, then drops it (a cancellation point that does
/// not involve time).
pub struct CancelAfter<F> {
    fut: Option<std::pin::Pin<Box<F>>>,
    left: usize,
}

pub fn cancel_after<F: Future>(fut: F, polls: usize) -> CancelAfter<F> {
    CancelAfter { fut: Some(Box::pin(fut)), left: polls }
}

impl<F: Future> Future for CancelAfter<F> {
    type Output = Option<F::Output>;
    fn poll(mut self: std::pin::Pin<&mut Self>, cx: &mut std::task::Context<'_>) -> std::task::Poll<Self::Output> {
        use std::task::Poll;
        if self.left == 0 {
            self.fut = None;
            return Poll::Ready(None);
        }
        self.left -= 1;
        let r = self.fut.as_mut().expect("polled after completion").as_mut().poll(cx);
        match r {
            Poll::Ready(v) => {
                self.fut = None;
                Poll::Ready(Some(v))
            }
            Poll::Pending => {
                if self.left == 0 {
                    self.fut = None;
                    Poll::Ready(None)
                } else {
                    Poll::Pending
                }
            }
        }
    }
}

/// Rendering of a `ConnectionError` that is stable and comparable.
pub fn conn_err(e: &wtransport::error::ConnectionError) -> String {
    use wtransport::error::ConnectionError as E;
    match e {
        E::ApplicationClosed(c) => format!("ApplicationClosed({},{})", c.code().into_inner(), vcore::hex(c.reason())),
        E::ConnectionClosed(c) => format!("ConnectionClosed({c})"),
        E::LocallyClosed => "LocallyClosed".into(),
        E::LocalH3Error(h) => format!("LocalH3Error({h})"),
        E::TimedOut => "TimedOut".into(),
        E::QuicProto(q) => format!("QuicProto({q})"),
        E::CidsExhausted => "CidsExhausted".into(),
    }
}

/// Display name the library uses for an H3 error code (ErrorCode's Display).
pub fn h3_display(code: u64) -> &'static str {
    match code {
        0x33 => "DatagramError",
        0x100 => "NoError",
        0x103 => "StreamCreationError",
        0x104 => "ClosedCriticalStreamError",
        0x105 => "FrameUnexpectedError",
        0x106 => "FrameError",
        0x107 => "ExcessiveLoad",
        0x108 => "IdError",
        0x109 => "SettingsError",
        0x10a => "MissingSettingsError",
        0x10b => "RequestRejectedError",
        0x10e => "MessageError",
        0x200 => "DecompressionError",
        0x3994_bd84 => "BufferedStreamRejected",
        0x170d_7b68 => "SessionGone",
        _ => "?",
    }
}

/// Like `raw_client_vs_wt_server`, with the server built through the default builder path.
pub async fn raw_client_vs_default_wt_server(traw: &Tuning) -> Res<RawClientVsWt> {
    let server_ep = wt_server_default();
    let addr = server_ep.local_addr().map_err(|e| e.to_string())?;
    let accept = async {
        let incoming = server_ep.accept().await;
        let req = incoming.await.map_err(|e| format!("incoming: {e}"))?;
        req.accept().await.map_err(|e| format!("accept: {e}"))
    };
    let raw = raw_client_session(addr, traw, "/");
    let (s, r) = tokio::join!(accept, raw);
    Ok(RawClientVsWt { server: s?, server_ep, raw: r? })
}

/// Like `wt_client_vs_raw_server`, with the client built through the default transport.
pub async fn default_wt_client_vs_raw_server(traw: &Tuning) -> Res<WtClientVsRaw> {
    let (raw_ep, addr) = raw_server(traw)?;
    let client_ep = wt_client_default();
    let url = url_for(addr, "/");
    let serve = async {
        let mut s = raw_server_accept(&raw_ep, &default_settings()).await?;
        s.respond("200", &[]).await?;
        Ok::<_, String>(s)
    };
    let connect = async { client_ep.connect(url).await.map_err(|e| format!("connect: {e}")) };
    let (s, c) = tokio::join!(serve, connect);
    Ok(WtClientVsRaw { client: c?, client_ep, raw: s?, raw_ep })
}

/// wtransport <-> wtransport with both endpoints built through the default builder paths.
pub async fn wt_pair_default() -> Res<WtPair> {
    let server_ep = wt_server_default();
    let addr = server_ep.local_addr().map_err(|e| e.to_string())?;
    let client_ep = wt_client_default();
    let url = url_for(addr, "/");
    let accept = async {
        let incoming = server_ep.accept().await;
        let req = incoming.await.map_err(|e| format!("incoming: {e}"))?;
        req.accept().await.map_err(|e| format!("accept: {e}"))
    };
    let connect = async { client_ep.connect(url).await.map_err(|e| format!("connect: {e}")) };
    let (s, c) = tokio::join!(accept, connect);
    Ok(WtPair { server: s?, client: c?, server_ep, client_ep })
}
