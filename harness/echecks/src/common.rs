//! Shared end-to-end infrastructure: runtimes, endpoint pairs, liveness judgement.

use std::future::Future;
use std::time::Duration;
use vcore::Outcome;
use wire::*;
use wtransport::endpoint::endpoint_side::{Client, Server};
use wtransport::{Connection, Endpoint};

pub use wire::Res;

/// Result of one end-to-end case.
pub enum CaseResult {
    Pass { nontrivial: bool, labels: Vec<&'static str> },
    Violation { signature: String, message: String },
    /// The case did not finish within its bound (judged by the liveness rule).
    Timeout(String),
    /// The harness itself could not run the case (setup failure unrelated to the property).
    Skip(String),
}

pub fn viol(sig: impl Into<String>, msg: impl Into<String>) -> CaseResult {
    CaseResult::Violation { signature: sig.into(), message: msg.into() }
}

pub fn build_rt(flavor: u8) -> tokio::runtime::Runtime {
    match flavor % 3 {
        0 => tokio::runtime::Builder::new_current_thread().enable_all().build().unwrap(),
        1 => tokio::runtime::Builder::new_multi_thread().worker_threads(2).enable_all().build().unwrap(),
        _ => tokio::runtime::Builder::new_multi_thread().worker_threads(4).enable_all().build().unwrap(),
    }
}

/// Runs `fut` on a fresh runtime of the given flavour under `bound`.
pub fn run_on<F, T>(flavor: u8, bound: Duration, fut: F) -> Option<T>
where
    F: Future<Output = T>,
{
    let rt = build_rt(flavor);
    let r = rt.block_on(async { tokio::time::timeout(bound, fut).await.ok() });
    rt.shutdown_timeout(Duration::from_millis(200));
    r
}

/// Liveness rule: where the statement promises completion, a timeout that reproduces on 3 of 3
/// re-executions is a violation; otherwise the case is inconclusive.
pub fn judge(exec: impl Fn() -> CaseResult, liveness_promised: bool, timeout_signature: &str) -> Outcome {
    let panics_before = vcore::panic_log_len();
    let r = exec();
    let panics = vcore::panic_log_since(panics_before);
    match r {
        CaseResult::Pass { nontrivial, labels } => {
            if let Some(p) = panics.iter().find(|p| !benign_panic(p)) {
                return Outcome::fail("panic-in-task", format!("a task panicked during the case: {p}"));
            }
            Outcome::pass_l(nontrivial, labels)
        }
        CaseResult::Violation { signature, message } => Outcome::fail(signature, message),
        CaseResult::Skip(why) => Outcome::Inconclusive(format!("case skipped: {why}")),
        CaseResult::Timeout(what) => {
            if !liveness_promised {
                return Outcome::Inconclusive(format!("watchdog: {what}"));
            }
            let mut again = 0;
            for _ in 0..3 {
                match exec() {
                    CaseResult::Timeout(_) => again += 1,
                    CaseResult::Violation { signature, message } => return Outcome::fail(signature, message),
                    _ => break,
                }
            }
            if again == 3 {
                Outcome::fail(timeout_signature, format!("did not complete within the bound on 4 of 4 executions: {what}"))
            } else {
                Outcome::Inconclusive(format!("watchdog fired once but did not reproduce: {what}"))
            }
        }
    }
}

fn benign_panic(p: &str) -> bool {
    // panics raised by the harness's own expectations are reported through CaseResult
    p.contains("echecks/src") || p.contains("wire/src")
}

pub struct WtPair {
    pub server_ep: Endpoint<Server>,
    pub client_ep: Endpoint<Client>,
    pub server: Connection,
    pub client: Connection,
}

/// Establishes a wtransport <-> wtransport session on loop-back.
pub async fn wt_pair(ts: &Tuning, tc: &Tuning) -> Res<WtPair> {
    let server_ep = wt_server(ts);
    let addr = server_ep.local_addr().map_err(|e| e.to_string())?;
    let client_ep = wt_client(tc);
    let url = url_for(addr, "/");
    let accept = async {
        let incoming = server_ep.accept().await;
        let req = incoming.await.map_err(|e| format!("incoming: {e}"))?;
        req.accept().await.map_err(|e| format!("accept: {e}"))
    };
    let connect = async { client_ep.connect(url).await.map_err(|e| format!("connect: {e}")) };
    let (s, c) = tokio::join!(accept, connect);
    Ok(WtPair { server: s?, client: c?, server_ep, client_ep })
}

pub struct RawClientVsWt {
    pub server_ep: Endpoint<Server>,
    pub server: Connection,
    pub raw: RawClientSession,
}

/// wtransport server accepted a session opened by the raw client.
pub async fn raw_client_vs_wt_server(ts: &Tuning, traw: &Tuning) -> Res<RawClientVsWt> {
    let server_ep = wt_server(ts);
    let addr = server_ep.local_addr().map_err(|e| e.to_string())?;
    let accept = async {
        let incoming = server_ep.accept().await;
        let req = incoming.await.map_err(|e| format!("incoming: {e}"))?;
        req.accept().await.map_err(|e| format!("accept: {e}"))
    };
    let raw = raw_client_session(addr, traw, "/");
    let (s, r) = tokio::join!(accept, raw);
    let raw = r?;
    if !raw.response.iter().any(|(k, v)| k == ":status" && v == "200") {
        return Err(format!("unexpected response {:?}", raw.response));
    }
    Ok(RawClientVsWt { server: s?, server_ep, raw })
}

pub struct WtClientVsRaw {
    pub client_ep: Endpoint<Client>,
    pub client: Connection,
    pub raw_ep: quinn::Endpoint,
    pub raw: RawServerSession,
}

/// wtransport client connected to the raw server, which answered 200.
pub async fn wt_client_vs_raw_server(tc: &Tuning, traw: &Tuning) -> Res<WtClientVsRaw> {
    let (raw_ep, addr) = raw_server(traw)?;
    let client_ep = wt_client(tc);
    let url = url_for(addr, "/");
    let serve = async {
        let mut s = raw_server_accept(&raw_ep, &default_settings()).await?;
        s.respond("200", &[]).await?;
        Ok::<_, String>(s)
    };
    let connect = async { client_ep.connect(url).await.map_err(|e| format!("connect: {e}")) };
    let (s, c) = tokio::join!(serve, connect);
    Ok(WtClientVsRaw { client: c?, client_ep, raw: s?, raw_ep })
}

/// Deterministic payload: byte at `off` of the stream tagged `tag`.
pub fn pbyte(tag: u64, off: usize) -> u8 {
    let x = (tag.wrapping_mul(0x9e3779b97f4a7c15)) ^ (off as u64).wrapping_mul(0xbf58476d1ce4e5b9);
    ((x ^ (x >> 29) ^ (x >> 47)) & 0xff) as u8
}

pub fn payload(tag: u64, len: usize, head: &[u8]) -> Vec<u8> {
    let mut v: Vec<u8> = (0..len).map(|o| pbyte(tag, o)).collect();
    let n = head.len().min(len);
    v[..n].copy_from_slice(&head[..n]);
    v
}

pub fn short(b: &[u8]) -> String {
    vcore::hex_short(b)
}

/// First position where two byte strings differ.
pub fn first_diff(a: &[u8], b: &[u8]) -> Option<usize> {
    let n = a.len().min(b.len());
    for i in 0..n {
        if a[i] != b[i] {
            return Some(i);
        }
    }
    if a.len() != b.len() {
        Some(n)
    } else {
        None
    }
}
