//! C05 — control-plane interpretation is independent of segmentation and interleaving.

use crate::common::*;
use proptest::prelude::*;
use serde::{Deserialize, Serialize};
use serde_json::Value;
use std::sync::atomic::Ordering;
use std::sync::{Arc, Mutex};
use std::time::Duration;
use vcore::{prop_search, Outcome, Run, Search};
use wire::*;
use wtransport::Connection;

const RULE: &str = "case = role x runtime flavour x target frame in {control-stream type byte + SETTINGS, GREASE frame after SETTINGS, request HEADERS (wtransport server), response HEADERS (wtransport client), GREASE frame before the response, close capsule on the established session stream, unknown capsule before the close capsule} x 1..3 cut positions inside the target (table: every single position of every target) x events injected between the pieces in {none, datagram of the session, datagram of a foreign session, WebTransport uni stream, GREASE uni stream, WebTransport bidi stream, bytes on the QPACK encoder stream, the session request itself (new bidi stream with the CONNECT HEADERS, while the control stream's type byte + SETTINGS are still incomplete), several}. Metamorphic oracle: the outcome (session established, kept alive, termination value, close code seen by the raw peer) equals that of the same script delivered in one piece with nothing in between (re-executed as twin whenever the perturbed run deviates), and the injected healthy traffic is itself delivered. Non-trivial: a worker loop iteration and a partially-progressed control-plane read future drop were observed between two pieces (hook counters; coverage only) or the cut falls on a field boundary with an event in between; distinct = distinct case";

#[derive(Clone, Copy, Debug, Serialize, Deserialize, PartialEq, Eq, Hash)]
pub enum Target {
    Settings,
    GreaseAfterSettings,
    RequestHeaders,
    ResponseHeaders,
    GreaseBeforeResponse,
    CloseCapsule,
    UnknownCapsuleBeforeClose,
}

#[derive(Clone, Copy, Debug, Serialize, Deserialize, PartialEq, Eq, Hash)]
pub enum Event {
    DatagramOwn,
    DatagramForeign,
    UniWt,
    UniGrease,
    BidiWt,
    QpackBytes,
    /// the session request itself (new bidi stream with the CONNECT HEADERS) is sent here instead
    /// of after the target; only meaningful while the peer's SETTINGS are still incomplete
    Request,
}

#[derive(Clone, Debug, Serialize, Deserialize)]
pub struct Case {
    pub flavor: u8,
    pub wt_is_server: bool,
    pub target: Target,
    /// cut selectors mapped monotonically onto 1..len-1 of the target bytes
    pub cuts: Vec<u16>,
    /// events injected after each piece (cycled)
    pub events: Vec<Vec<Event>>,
    pub code: u32,
    pub reason: String,
}

fn target_strategy() -> impl Strategy<Value = Target> {
    prop_oneof![
        3 => Just(Target::Settings),
        2 => Just(Target::GreaseAfterSettings),
        2 => Just(Target::RequestHeaders),
        2 => Just(Target::ResponseHeaders),
        1 => Just(Target::GreaseBeforeResponse),
        4 => Just(Target::CloseCapsule),
        2 => Just(Target::UnknownCapsuleBeforeClose),
    ]
}

fn event_strategy() -> impl Strategy<Value = Event> {
    prop_oneof![3 => Just(Event::DatagramOwn), 1 => Just(Event::DatagramForeign), 2 => Just(Event::UniWt), 1 => Just(Event::UniGrease), 2 => Just(Event::BidiWt), 1 => Just(Event::QpackBytes), 2 => Just(Event::Request)]
}

pub fn case_strategy() -> impl Strategy<Value = Case> {
    (0u8..3, any::<bool>(), target_strategy(), proptest::collection::vec(any::<u16>(), 1..4), proptest::collection::vec(proptest::collection::vec(event_strategy(), 0..3), 1..4), any::<u32>(), "[a-z ]{0,20}")
        .prop_map(|(flavor, wt_is_server, target, cuts, events, code, reason)| {
            // targets that only exist for one role
            let wt_is_server = match target {
                Target::RequestHeaders => true,
                Target::ResponseHeaders | Target::GreaseBeforeResponse => false,
                _ => wt_is_server,
            };
            Case { flavor, wt_is_server, target, cuts, events, code, reason }
        })
}

/// Bytes of the target frame(s) for this case and the stream they travel on.
fn target_bytes(case: &Case, authority: &str) -> Vec<u8> {
    match case.target {
        // the control stream's type byte followed by the SETTINGS frame
        Target::Settings => {
            let mut b = refcodec::enc_varint(refcodec::registry::STREAM_CONTROL);
            b.extend(refcodec::enc_frame(refcodec::registry::FRAME_SETTINGS, &refcodec::enc_settings(&default_settings())));
            b
        }
        Target::GreaseAfterSettings => refcodec::enc_frame(refcodec::grease(5), b"grease payload 0123456789"),
        Target::RequestHeaders => headers_frame(&{
            let mut f = connect_request_fields(authority, "/c05/some/longer/path?with=query");
            f.push(("origin".into(), "https://example.org".into(), Default::default()));
            f
        }),
        Target::ResponseHeaders => response_frame("200", &[("server".into(), "raw-peer".into())]),
        Target::GreaseBeforeResponse => refcodec::enc_frame(refcodec::grease(9), b"0123456789abcdef"),
        Target::CloseCapsule => refcodec::enc_frame(refcodec::registry::FRAME_DATA, &refcodec::enc_close_capsule(case.code, case.reason.as_bytes())),
        Target::UnknownCapsuleBeforeClose => refcodec::enc_frame(refcodec::registry::FRAME_DATA, &refcodec::enc_capsule(refcodec::registry::CAPSULE_DRAIN_WT_SESSION, b"")),
    }
}

fn pieces(bytes: &[u8], cuts: &[u16]) -> Vec<Vec<u8>> {
    let n = bytes.len();
    let mut pos: Vec<usize> = cuts.iter().map(|c| 1 + vcore::pick_idx(*c, n.saturating_sub(1).max(1))).filter(|p| *p < n).collect();
    pos.sort();
    pos.dedup();
    let mut out = Vec::new();
    let mut last = 0;
    for p in pos {
        out.push(bytes[last..p].to_vec());
        last = p;
    }
    out.push(bytes[last..].to_vec());
    out
}

#[derive(Default, Debug, Clone, PartialEq)]
struct Injected {
    own_datagrams: usize,
    wt_uni: usize,
    wt_bi: usize,
}

struct Raw {
    conn: quinn::Connection,
    qpack: Option<quinn::SendStream>,
    held: Vec<Box<dyn std::any::Any + Send>>,
    injected: Injected,
    /// request stream and request bytes not sent yet (raw client role only)
    rs: Option<quinn::SendStream>,
    request: Option<Vec<u8>>,
}

impl Raw {
    async fn inject(&mut self, ev: Event, session: u64) {
        match ev {
            Event::DatagramOwn => {
                let n = self.injected.own_datagrams;
                if self.conn.send_datagram(refcodec::enc_datagram(session, format!("own-{n}").as_bytes()).into()).is_ok() {
                    self.injected.own_datagrams += 1;
                }
            }
            Event::DatagramForeign => {
                let _ = self.conn.send_datagram(refcodec::enc_datagram(session + 8, b"foreign").into());
            }
            Event::UniWt => {
                if let Ok(mut s) = self.conn.open_uni().await {
                    let mut b = refcodec::enc_uni_header_wt(session);
                    b.extend_from_slice(format!("uni-{}", self.injected.wt_uni).as_bytes());
                    if s.write_all(&b).await.is_ok() {
                        let _ = s.finish();
                        self.injected.wt_uni += 1;
                    }
                    self.held.push(Box::new(s));
                }
            }
            Event::UniGrease => {
                if let Ok(mut s) = self.conn.open_uni().await {
                    let mut b = refcodec::enc_varint(refcodec::grease(3));
                    b.extend_from_slice(b"whatever");
                    let _ = s.write_all(&b).await;
                    self.held.push(Box::new(s));
                }
            }
            Event::BidiWt => {
                if let Ok((mut s, r)) = self.conn.open_bi().await {
                    let mut b = refcodec::enc_bi_header_wt(session);
                    b.extend_from_slice(format!("bi-{}", self.injected.wt_bi).as_bytes());
                    if s.write_all(&b).await.is_ok() {
                        let _ = s.finish();
                        self.injected.wt_bi += 1;
                    }
                    self.held.push(Box::new((s, r)));
                }
            }
            Event::Request => {
                if let (Some(rs), Some(b)) = (self.rs.as_mut(), self.request.take()) {
                    let _ = rs.write_all(&b).await;
                }
            }
            Event::QpackBytes => {
                if self.qpack.is_none() {
                    if let Ok(mut s) = self.conn.open_uni().await {
                        let _ = s.write_all(&refcodec::enc_varint(refcodec::registry::STREAM_QPACK_ENCODER)).await;
                        self.qpack = Some(s);
                    }
                }
                if let Some(s) = self.qpack.as_mut() {
                    // "set dynamic table capacity 0" instruction: harmless for a zero-capacity table
                    let _ = s.write_all(&[0x20]).await;
                }
            }
        }
    }

    /// Writes the target in pieces with the case's events in between.
    async fn write_perturbed(&mut self, s: &mut quinn::SendStream, bytes: &[u8], case: &Case, session: u64, perturb: bool, hazard: &mut bool) -> Res<()> {
        if !perturb {
            return s.write_all(bytes).await.map_err(|e| e.to_string());
        }
        let ps = pieces(bytes, &case.cuts);
        let n = ps.len();
        for (i, p) in ps.iter().enumerate() {
            if i + 1 < n {
                write_cut(&self.conn, s, p, Duration::from_millis(12)).await?;
                let loops0 = wtransport::verif_hooks::WORKER_LOOP_ITERATIONS.load(Ordering::Relaxed);
                let drops0 = wtransport::proto::verif_hooks::PARTIAL_READ_DROPS.load(Ordering::Relaxed);
                for ev in &case.events[i % case.events.len()] {
                    self.inject(*ev, session).await;
                }
                flush_acked(&self.conn, Duration::from_millis(200)).await;
                tokio::time::sleep(Duration::from_millis(12)).await;
                let loops1 = wtransport::verif_hooks::WORKER_LOOP_ITERATIONS.load(Ordering::Relaxed);
                let drops1 = wtransport::proto::verif_hooks::PARTIAL_READ_DROPS.load(Ordering::Relaxed);
                if loops1 > loops0 && drops1 > drops0 {
                    *hazard = true;
                }
            } else {
                s.write_all(p).await.map_err(|e| e.to_string())?;
            }
        }
        Ok(())
    }
}

/// Observable outcome of a run.
#[derive(Debug, Clone, PartialEq)]
struct Out {
    established: bool,
    alive: bool,
    termination: Option<String>,
    peer_saw_close: Option<String>,
    delivered: Injected,
    injected: Injected,
    hazard: bool,
    note: String,
}

async fn drain_app(conn: &Connection, inj: &Injected, bound: Duration) -> Injected {
    let got = Arc::new(Mutex::new(Injected::default()));
    let deadline = tokio::time::Instant::now() + bound;
    let want = inj.clone();
    let c1 = conn.clone();
    let g1 = got.clone();
    let t1 = tokio::spawn(async move {
        while g1.lock().unwrap().wt_uni < want.wt_uni {
            match tokio::time::timeout_at(deadline, c1.accept_uni()).await {
                Ok(Ok(mut r)) => {
                    let mut b = [0u8; 32];
                    if let Ok(Some(n)) = r.read(&mut b).await {
                        if b[..n].starts_with(b"uni-") {
                            g1.lock().unwrap().wt_uni += 1;
                        }
                    }
                }
                _ => break,
            }
        }
    });
    let want = inj.clone();
    let c2 = conn.clone();
    let g2 = got.clone();
    let t2 = tokio::spawn(async move {
        while g2.lock().unwrap().wt_bi < want.wt_bi {
            match tokio::time::timeout_at(deadline, c2.accept_bi()).await {
                Ok(Ok((_s, mut r))) => {
                    let mut b = [0u8; 32];
                    if let Ok(Some(n)) = r.read(&mut b).await {
                        if b[..n].starts_with(b"bi-") {
                            g2.lock().unwrap().wt_bi += 1;
                        }
                    }
                }
                _ => break,
            }
        }
    });
    let want = inj.clone();
    let c3 = conn.clone();
    let g3 = got.clone();
    let t3 = tokio::spawn(async move {
        // datagrams may legitimately be dropped when queues are full: one is enough
        while want.own_datagrams > 0 && g3.lock().unwrap().own_datagrams == 0 {
            match tokio::time::timeout_at(deadline, c3.receive_datagram()).await {
                Ok(Ok(d)) => {
                    if d.payload().starts_with(b"own-") {
                        g3.lock().unwrap().own_datagrams += 1;
                    }
                }
                _ => break,
            }
        }
    });
    let _ = tokio::join!(t1, t2, t3);
    let g = got.lock().unwrap().clone();
    g
}

async fn run_script(case: Arc<Case>, perturb: bool) -> Result<Out, String> {
    let mut out = Out { established: false, alive: false, termination: None, peer_saw_close: None, delivered: Injected::default(), injected: Injected::default(), hazard: false, note: String::new() };
    let session = 0u64;
    let t = Tuning::default();
    if case.wt_is_server {
        let server_ep = wt_server(&t);
        let addr = server_ep.local_addr().map_err(|e| e.to_string())?;
        let authority = addr.to_string();
        let accept = async {
            let incoming = server_ep.accept().await;
            let req = incoming.await.map_err(|e| format!("incoming: {}", conn_err(&e)))?;
            req.accept().await.map_err(|e| format!("accept: {}", conn_err(&e)))
        };
        let case2 = case.clone();
        let script = async {
            let (ep, conn) = raw_connect(addr, &t).await?;
            let mut raw = Raw { conn: conn.clone(), qpack: None, held: vec![], injected: Injected::default(), rs: None, request: None };
            let mut hazard = false;
            // reserve stream 0 for the CONNECT request before any injected bidi stream takes it
            let (rs0, mut rr) = conn.open_bi().await.map_err(|e| e.to_string())?;
            let mut control = conn.open_uni().await.map_err(|e| e.to_string())?;
            let settings = refcodec::enc_frame(refcodec::registry::FRAME_SETTINGS, &refcodec::enc_settings(&default_settings()));
            if case2.target == Target::Settings {
                // the request may be injected between the pieces of the control-stream opening
                raw.rs = Some(rs0);
                raw.request = Some(headers_frame(&connect_request_fields(&authority, "/")));
                let b = target_bytes(&case2, &authority);
                raw.write_perturbed(&mut control, &b, &case2, session, perturb, &mut hazard).await?;
            } else {
                raw.rs = Some(rs0);
                control.write_all(&refcodec::enc_varint(refcodec::registry::STREAM_CONTROL)).await.map_err(|e| e.to_string())?;
                control.write_all(&settings).await.map_err(|e| e.to_string())?;
            }
            let mut rs = raw.rs.take().expect("request stream");
            let request_sent = case2.target == Target::Settings && raw.request.take().is_none();
            if case2.target == Target::GreaseAfterSettings {
                let b = target_bytes(&case2, &authority);
                raw.write_perturbed(&mut control, &b, &case2, session, perturb, &mut hazard).await?;
            }
            if case2.target == Target::RequestHeaders {
                let b = target_bytes(&case2, &authority);
                raw.write_perturbed(&mut rs, &b, &case2, session, perturb, &mut hazard).await?;
            } else if !request_sent {
                rs.write_all(&headers_frame(&connect_request_fields(&authority, "/"))).await.map_err(|e| e.to_string())?;
            }
            let mut buf = Vec::new();
            let resp = read_frame_of(&mut rr, &mut buf, &[refcodec::registry::FRAME_HEADERS], Duration::from_secs(4)).await;
            Ok::<_, String>((ep, conn, raw, control, rs, rr, hazard, resp.is_ok()))
        };
        let (s, c) = tokio::join!(tokio::time::timeout(Duration::from_secs(6), accept), script);
        let (ep, conn, mut raw, control, mut rs, rr, mut hazard, got_response) = c?;
        let server = match s {
            Ok(Ok(s)) => Some(s),
            Ok(Err(e)) => {
                out.note = e;
                None
            }
            Err(_) => {
                out.note = "server never obtained the session".into();
                None
            }
        };
        out.established = server.is_some() && got_response;
        if let Some(server) = &server {
            finish_script(&case, perturb, &mut out, server, &mut raw, &mut rs, session, &mut hazard).await?;
        } else {
            out.peer_saw_close = conn.close_reason().map(|e| format!("{:?}", close_seen(&e)));
        }
        out.injected = raw.injected.clone();
        out.hazard = hazard;
        drop((ep, control, rr, server_ep));
        Ok(out)
    } else {
        let (raw_ep, addr) = raw_server(&t)?;
        let client_ep = wt_client(&t);
        let case2 = case.clone();
        let serve = async {
            let incoming = tokio::time::timeout(Duration::from_secs(5), raw_ep.accept()).await.map_err(|_| "no incoming")?.ok_or("closed")?;
            let conn = incoming.await.map_err(|e| e.to_string())?;
            let mut raw = Raw { conn: conn.clone(), qpack: None, held: vec![], injected: Injected::default(), rs: None, request: None };
            let mut hazard = false;
            let mut control = conn.open_uni().await.map_err(|e| e.to_string())?;
            let settings = refcodec::enc_frame(refcodec::registry::FRAME_SETTINGS, &refcodec::enc_settings(&default_settings()));
            if case2.target == Target::Settings {
                let b = target_bytes(&case2, "");
                raw.write_perturbed(&mut control, &b, &case2, session, perturb, &mut hazard).await?;
            } else {
                control.write_all(&refcodec::enc_varint(refcodec::registry::STREAM_CONTROL)).await.map_err(|e| e.to_string())?;
                control.write_all(&settings).await.map_err(|e| e.to_string())?;
            }
            if case2.target == Target::GreaseAfterSettings {
                let b = target_bytes(&case2, "");
                raw.write_perturbed(&mut control, &b, &case2, session, perturb, &mut hazard).await?;
            }
            let (mut rs, mut rr) = tokio::time::timeout(Duration::from_secs(5), conn.accept_bi()).await.map_err(|_| "no request stream")?.map_err(|e| e.to_string())?;
            let mut buf = Vec::new();
            read_frame_of(&mut rr, &mut buf, &[refcodec::registry::FRAME_HEADERS], Duration::from_secs(4)).await?;
            if case2.target == Target::GreaseBeforeResponse {
                let b = target_bytes(&case2, "");
                raw.write_perturbed(&mut rs, &b, &case2, session, perturb, &mut hazard).await?;
            }
            if case2.target == Target::ResponseHeaders {
                let b = target_bytes(&case2, "");
                raw.write_perturbed(&mut rs, &b, &case2, session, perturb, &mut hazard).await?;
            } else {
                rs.write_all(&response_frame("200", &[])).await.map_err(|e| e.to_string())?;
            }
            Ok::<_, String>((conn, raw, control, rs, rr, hazard))
        };
        let connect = async { tokio::time::timeout(Duration::from_secs(8), client_ep.connect(url_for(addr, "/"))).await };
        let (s, c) = tokio::join!(serve, connect);
        let (conn, mut raw, control, mut rs, rr, mut hazard) = s?;
        let client = match c {
            Ok(Ok(c)) => Some(c),
            Ok(Err(e)) => {
                out.note = format!("connect: {e}");
                None
            }
            Err(_) => {
                out.note = "connect never completed".into();
                None
            }
        };
        out.established = client.is_some();
        if let Some(client) = &client {
            finish_script(&case, perturb, &mut out, client, &mut raw, &mut rs, session, &mut hazard).await?;
        } else {
            tokio::time::sleep(Duration::from_millis(50)).await;
            out.peer_saw_close = conn.close_reason().map(|e| format!("{:?}", close_seen(&e)));
        }
        out.injected = raw.injected.clone();
        out.hazard = hazard;
        drop((control, rr, raw_ep, client_ep));
        Ok(out)
    }
}

/// Second half of the script once the session is up: liveness, delivery of the injected traffic,
/// and (for the capsule targets) the termination value.
async fn finish_script(case: &Arc<Case>, perturb: bool, out: &mut Out, app: &Connection, raw: &mut Raw, req_send: &mut quinn::SendStream, session: u64, hazard: &mut bool) -> Result<(), String> {
    let capsule_target = matches!(case.target, Target::CloseCapsule | Target::UnknownCapsuleBeforeClose);
    if capsule_target {
        // pending peer-waiting calls while the capsule arrives in pieces
        let c = app.clone();
        let pending = tokio::spawn(async move {
            match c.accept_bi().await {
                Ok(_) => "Ok".to_string(),
                Err(e) => conn_err(&e),
            }
        });
        let close = refcodec::enc_frame(refcodec::registry::FRAME_DATA, &refcodec::enc_close_capsule(case.code, case.reason.as_bytes()));
        if case.target == Target::UnknownCapsuleBeforeClose {
            let b = target_bytes(case, "");
            raw.write_perturbed(req_send, &b, case, session, perturb, hazard).await?;
            req_send.write_all(&close).await.map_err(|e| e.to_string())?;
        } else {
            raw.write_perturbed(req_send, &close, case, session, perturb, hazard).await?;
        }
        let _ = req_send.finish();
        // a pending accept_bi may be satisfied by an injected bidi stream first: keep asking
        let mut res = match tokio::time::timeout(Duration::from_secs(4), pending).await {
            Ok(Ok(r)) => r,
            _ => "hang".to_string(),
        };
        let mut guard = 0;
        while res == "Ok" && guard < 8 {
            guard += 1;
            res = match tokio::time::timeout(Duration::from_secs(4), app.accept_bi()).await {
                Ok(Ok(_)) => "Ok".to_string(),
                Ok(Err(e)) => conn_err(&e),
                Err(_) => "hang".to_string(),
            };
        }
        out.termination = Some(res);
        out.alive = true;
        tokio::time::sleep(Duration::from_millis(30)).await;
        out.peer_saw_close = raw.conn.close_reason().map(|e| format!("{:?}", close_seen(&e)));
        return Ok(());
    }
    // kept alive?
    tokio::time::sleep(Duration::from_millis(150)).await;
    out.peer_saw_close = raw.conn.close_reason().map(|e| format!("{:?}", close_seen(&e)));
    // a fresh exchange still works
    raw.inject(Event::UniWt, session).await;
    out.delivered = drain_app(app, &raw.injected, Duration::from_secs(3)).await;
    out.alive = raw.conn.close_reason().is_none() && out.delivered.wt_uni == raw.injected.wt_uni;
    Ok(())
}

fn expected_termination(case: &Case) -> Option<String> {
    match case.target {
        Target::CloseCapsule | Target::UnknownCapsuleBeforeClose => Some(format!("ApplicationClosed({},{})", case.code, vcore::hex(case.reason.as_bytes()))),
        _ => None,
    }
}

fn judge_out(case: &Case, o: &Out) -> Option<String> {
    if !o.established {
        return Some(format!("session not established ({}); peer saw {:?}", o.note, o.peer_saw_close));
    }
    if let Some(want) = expected_termination(case) {
        if o.termination.as_deref() != Some(want.as_str()) {
            return Some(format!("termination reported as {:?}, the peer sent {want}; peer saw {:?}", o.termination, o.peer_saw_close));
        }
        return None;
    }
    if !o.alive {
        return Some(format!("session not kept alive: peer saw close {:?}; injected {:?}, delivered {:?}", o.peer_saw_close, o.injected, o.delivered));
    }
    if o.delivered.wt_bi != o.injected.wt_bi || (o.injected.own_datagrams > 0 && o.delivered.own_datagrams == 0) {
        return Some(format!("injected healthy traffic not delivered: injected {:?}, delivered {:?}", o.injected, o.delivered));
    }
    None
}

pub fn exec(case: &Case) -> CaseResult {
    let c = Arc::new(case.clone());
    let perturbed = match run_on(case.flavor, Duration::from_secs(30), run_script(c.clone(), true)) {
        Some(Ok(o)) => o,
        Some(Err(e)) => return CaseResult::Skip(format!("script failed: {e}")),
        None => return CaseResult::Timeout("perturbed run did not finish in 30 s".into()),
    };
    let any_event = case.events.iter().any(|e| !e.is_empty());
    let labels = vec![
        match case.target {
            Target::Settings => "target:settings",
            Target::GreaseAfterSettings => "target:grease-after-settings",
            Target::RequestHeaders => "target:request-headers",
            Target::ResponseHeaders => "target:response-headers",
            Target::GreaseBeforeResponse => "target:grease-before-response",
            Target::CloseCapsule => "target:close-capsule",
            Target::UnknownCapsuleBeforeClose => "target:unknown-capsule",
        },
        if perturbed.hazard { "hazard-window-observed" } else { "hazard-window-not-observed" },
    ];
    match judge_out(case, &perturbed) {
        None => CaseResult::Pass { nontrivial: perturbed.hazard || any_event, labels },
        Some(problem) => {
            // metamorphic twin: the same script in one piece with nothing in between
            let twin = match run_on(case.flavor, Duration::from_secs(30), run_script(c, false)) {
                Some(Ok(o)) => o,
                Some(Err(e)) => return CaseResult::Skip(format!("twin script failed: {e}")),
                None => return CaseResult::Skip("twin run did not finish".into()),
            };
            if judge_out(case, &twin).is_some() {
                return CaseResult::Skip(format!("the unperturbed twin deviates as well ({problem}); not attributable to segmentation"));
            }
            viol(
                format!("C05:torn:{:?}", case.target),
                format!("with the {:?} frame cut into {} pieces and events {:?} in between: {problem}; the same script in one piece behaves as expected", case.target, pieces(&target_bytes(case, "127.0.0.1:1"), &case.cuts).len(), case.events),
            )
        }
    }
}

pub fn run(run: &Run) {
    run.set_rule(RULE);
    run.assume("cases run one at a time so that the hook counters (coverage labels only) are attributable to the case");
    run.trust("hook counters WORKER_LOOP_ITERATIONS / PARTIAL_READ_DROPS are used for labelling only, never for the verdict");
    // table: every single cut position of SETTINGS and of the close capsule with one datagram in between
    let mut table: Vec<Case> = Vec::new();
    for (target, wt_is_server) in [(Target::Settings, true), (Target::Settings, false), (Target::CloseCapsule, true), (Target::CloseCapsule, false), (Target::ResponseHeaders, false), (Target::RequestHeaders, true)] {
        let probe = Case { flavor: 0, wt_is_server, target, cuts: vec![0], events: vec![vec![Event::DatagramOwn]], code: 77, reason: "bye".into() };
        let n = target_bytes(&probe, "127.0.0.1:65535").len();
        let step = run.tier.pick(if n > 24 { (n / 12).max(1) } else { 2 }, 1);
        let mut p = 1;
        while p < n {
            // selector that maps onto position p
            let sel = (((p - 1) as u64 * 65536 + 65535) / (n as u64 - 1).max(1)).min(65535) as u16;
            table.push(Case { flavor: (p % 3) as u8, wt_is_server, target, cuts: vec![sel], events: vec![vec![if p % 2 == 0 { Event::DatagramOwn } else { Event::UniWt }]], code: 77, reason: "bye".into() });
            if target == Target::Settings && wt_is_server {
                // the session request arrives while the peer's SETTINGS are incomplete
                table.push(Case { flavor: ((p + 1) % 3) as u8, wt_is_server, target, cuts: vec![sel], events: vec![vec![Event::Request]], code: 77, reason: "bye".into() });
            }
            p += step;
        }
    }
    for case in &table {
        match judge(|| exec(case), false, "C05:hang") {
            Outcome::Pass { nontrivial, labels } => {
                run.eval("cut-table", nontrivial, vcore::hash64(&format!("{case:?}")));
                for l in labels {
                    run.label(l);
                }
                if nontrivial && run.wants_sample("cut-table") {
                    run.sample("cut-table", || serde_json::to_value(case).unwrap());
                }
            }
            Outcome::Fail { signature, message } => {
                run.eval("cut-table", false, 0);
                run.fail("segmentation", &signature, &message, serde_json::to_value(case).unwrap());
            }
            Outcome::Inconclusive(w) => run.inconclusive(&w),
        }
    }
    run.section_exhaustive("cut-table", run.tier == vcore::Tier::Thorough, "single cut positions of SETTINGS, close capsule, request and response HEADERS (every position in the thorough tier, every n/12-th in quick) with one event in between, both roles");
    prop_search(
        run,
        Search { check: "segmentation", cases: run.tier.pick(110, 2500), workers: 1, max_shrink_iters: 40 },
        case_strategy,
        |c| judge(|| exec(c), false, "C05:hang"),
        |c| serde_json::to_value(c).unwrap(),
    );
    for l in ["target:settings", "target:close-capsule", "target:request-headers", "target:response-headers", "target:grease-after-settings", "target:unknown-capsule", "hazard-window-observed"] {
        run.essential(l);
    }
}

pub fn replay(run: &Run, doc: &Value) -> bool {
    let Ok(case) = serde_json::from_value::<Case>(doc["case"].clone()) else {
        return false;
    };
    run.eval("segmentation", true, 1);
    for _ in 0..3 {
        if let Outcome::Fail { signature, message } = judge(|| exec(&case), false, "C05:hang") {
            run.fail("segmentation", &signature, &message, doc["case"].clone());
            break;
        }
    }
    true
}
