//! (not built yet)
use serde_json::Value;
use vcore::Run;

pub fn run(run: &Run) {
    run.inconclusive("check not built yet");
}

pub fn replay(_run: &Run, _doc: &Value) -> bool {
    false
}
