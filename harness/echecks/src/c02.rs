//! C02 — session setup carries the request faithfully and mirrors the decision.

use crate::common::*;
use proptest::prelude::*;
use refcodec::qpack as rq;
use serde::{Deserialize, Serialize};
use serde_json::Value;
use std::collections::HashMap;
use std::net::SocketAddr;
use std::sync::Arc;
use std::time::Duration;
use vcore::{prop_search, Outcome, Run, Search};
use wire::*;
use wtransport::endpoint::ConnectOptions;
use wtransport::error::ConnectingError;

pub const RULE: &str = "case = runtime flavour x URL from normal-form components (host in {127.0.0.1, [::1], generated domains and punycode labels resolved by a harness DnsResolver}, default or explicit port, 0..6 path segments over unreserved / sub-delims / pct-encoded characters, optional query, optional fragment) x 0..12 additional header fields (names: QPACK static-table names and generated tokens with lengths across the 3-bit prefix boundary; values: static-table exact values, visible ASCII with inner SP/HTAB, non-ASCII UTF-8, Huffman-shrinking and non-shrinking strings, lengths 0..2000, whole section < 4096 bytes) x the way the request is handed to connect (ConnectOptions built, the ConnectRequestBuilder itself, the bare URL) x server decision in {accept, accept_with_headers(extra fields), forbidden, not_found, too_many_requests}; variants: wtransport<->wtransport, raw server answering generated 2xx / non-2xx statuses with extra fields, raw client encoding the request with the reference QPACK encoder under generated representation choices; per-stream receive window of both endpoints in {default, 32..300 bytes, but at least 1/30 of the field section} (HEADERS frames written and read across flow-control boundaries). Oracle: the server application sees exactly authority (port elided iff 443), path-with-query, the five fixed pseudo-fields and every additional field, nothing else; connect is Ok iff accepted, SessionRejected iff non-2xx; both ends report the session id of the CONNECT stream. Non-trivial: >= 1 additional header or non-root path or a rejecting decision; distinct = distinct case";

#[derive(Clone, Debug, Serialize, Deserialize, PartialEq)]
pub enum Decision {
    Accept,
    AcceptWithHeaders(Vec<(String, String)>),
    Forbidden,
    NotFound,
    TooManyRequests,
}

#[derive(Clone, Debug, Serialize, Deserialize)]
pub struct Case {
    pub flavor: u8,
    /// 0 wt<->wt, 1 wt client vs raw server(status), 2 raw client (reference QPACK) vs wt server
    pub variant: u8,
    /// 0 IPv4 literal, 1 IPv6 literal, 2 domain (resolved by the harness)
    pub host_kind: u8,
    pub domain: String,
    pub explicit_port: bool,
    pub path: String,
    pub query: Option<String>,
    pub fragment: Option<String>,
    pub headers: Vec<(String, String)>,
    pub decision: Decision,
    /// variant 1: status answered by the raw server and its extra fields
    pub status: u16,
    /// variant 2: reference encoder options per field
    pub enc: Vec<(u8, bool, bool, u8, bool)>,
    /// per-stream receive window (bytes) both endpoints advertise; 0 = the library's / transport's
    /// default. Small values make the HEADERS frames travel across many flow-control boundaries
    /// (partial writes on the sending side, many small reads on the receiving side).
    #[serde(default)]
    pub window: u16,
}

/// Which of the documented ways of handing the request to `connect` the case uses (derived from
/// the case so that old replay files keep their meaning): 0 = `ConnectOptions` built with
/// `.build()`, 1 = the `ConnectRequestBuilder` itself, 2 = the bare URL (`&str` / `String`) when
/// there are no additional headers, else the builder itself. All of them implement
/// `IntoConnectOptions` and must carry the same request.
pub fn option_path(case: &Case) -> u8 {
    ((case.headers.len() + case.path.len() + case.flavor as usize) % 3) as u8
}

async fn connect_via(
    ep: &wtransport::Endpoint<wtransport::endpoint::endpoint_side::Client>,
    url: &str,
    headers: &[(String, String)],
    how: u8,
) -> Result<wtransport::Connection, wtransport::error::ConnectingError> {
    let mut opts = ConnectOptions::builder(url);
    for (k, v) in headers {
        opts = opts.add_header(k, v);
    }
    match how {
        0 => ep.connect(opts.build()).await,
        2 if headers.is_empty() => {
            if url.len() % 2 == 0 {
                ep.connect(url).await
            } else {
                ep.connect(url.to_string()).await
            }
        }
        _ => ep.connect(opts).await,
    }
}

/// Transport tuning for the case's window.
pub fn tuning_of(case: &Case) -> Tuning {
    Tuning { stream_receive_window: if case.window > 0 { Some(case.window as u32) } else { None }, ..Default::default() }
}

pub fn header_name() -> impl Strategy<Value = String> {
    let statics: Vec<String> = rq::STATIC_TABLE.iter().map(|r| r.0.to_string()).filter(|n| !n.starts_with(':')).collect();
    prop_oneof![
        3 => proptest::sample::select(statics),
        4 => "[a-z][a-z0-9-]{0,14}",
        1 => "[a-z]{6,8}",
        1 => "x-[a-z0-9!#$%&'*+.^_`|~-]{1,12}",
        1 => "[a-z0-9-]{130,138}",
        // encoded length exactly at the 3-bit prefix + 128 = 135 (literal: '#' does not shrink under
        // Huffman; Huffman: 216 x 'a' take exactly 135 bytes) and its neighbours
        1 => proptest::sample::select(vec!["#".repeat(134), "#".repeat(135), "#".repeat(136), "a".repeat(215), "a".repeat(216), "a".repeat(217)]),
    ]
}

pub fn header_value() -> impl Strategy<Value = String> {
    let statics: Vec<String> = rq::STATIC_TABLE.iter().map(|r| r.1.to_string()).collect();
    prop_oneof![
        2 => proptest::sample::select(statics),
        4 => "[!-~]([ -~\t]{0,40}[!-~])?",
        1 => Just(String::new()),
        1 => "[a-z]{120,135}",
        1 => "[a-z][a-z ]{250,260}[a-z]",
        // encoded length exactly at the 7-bit prefix + 128 = 255 and its neighbours
        1 => proptest::sample::select(vec!["#".repeat(254), "#".repeat(255), "#".repeat(256), "a".repeat(407), "a".repeat(408), "a".repeat(409)]),
        1 => "[#-&(-+]{100,140}",
        2 => "[!-~]\\PC{0,30}[!-~]",
        1 => "[!-~]{900,1900}",
    ]
}

/// A (name, value) pair derived from one static-table row: the exact value, a case variant of
/// it, or the value with a character appended / removed.
pub fn static_pair() -> impl Strategy<Value = (String, String)> {
    let rows: Vec<(String, String)> = rq::STATIC_TABLE.iter().filter(|r| !r.0.starts_with(':')).map(|r| (r.0.to_string(), r.1.to_string())).collect();
    (proptest::sample::select(rows), 0u8..6).prop_map(|((n, v), m)| {
        let v2 = match m {
            0 => v.clone(),
            1 => v.to_ascii_uppercase(),
            2 => v.to_ascii_lowercase(),
            3 => {
                let mut c = v.chars();
                match c.next() {
                    Some(f) => f.to_ascii_uppercase().to_string() + c.as_str(),
                    None => String::new(),
                }
            }
            4 => format!("{v}x"),
            _ => v.chars().skip(1).collect(),
        };
        (n, v2.trim().to_string())
    })
}

fn headers_strategy(max: usize) -> impl Strategy<Value = Vec<(String, String)>> {
    proptest::collection::vec(prop_oneof![3 => (header_name(), header_value()).boxed(), 1 => static_pair().boxed()], 0..=max).prop_map(|v| {
        let mut out: Vec<(String, String)> = Vec::new();
        let mut total = 200usize;
        for (n, val) in v {
            if out.iter().any(|(k, _)| *k == n) || total + n.len() + val.len() + 8 > 3600 {
                continue;
            }
            total += n.len() + val.len() + 8;
            out.push((n, val));
        }
        out
    })
}

pub fn case_strategy() -> impl Strategy<Value = Case> {
    let decision = prop_oneof![
        3 => Just(Decision::Accept),
        2 => headers_strategy(4).prop_map(Decision::AcceptWithHeaders),
        1 => Just(Decision::Forbidden),
        1 => Just(Decision::NotFound),
        1 => Just(Decision::TooManyRequests),
    ];
    (
        (0u8..3, prop_oneof![3 => Just(0u8), 2 => Just(1u8), 2 => Just(2u8)], 0u8..3),
        // generated labels never contain "--": a label that happens to start with "xn--" would be
        // read as (invalid) punycode by URL parsing; the punycode case is the explicit constant
        prop_oneof!["[a-z][a-z0-9]{0,8}(\\.[a-z][a-z0-9-]{0,6}[a-z0-9]){0,2}".prop_map(|d: String| d.replace("--", "-a")), Just("xn--bcher-kva.example".to_string()), Just("localhost".to_string())],
        any::<bool>(),
        prop_oneof![2 => Just("/".to_string()), 4 => "(/[A-Za-z0-9_~!$&'()*+,;=:@-][A-Za-z0-9._~!$&'()*+,;=:@-]{0,7}){1,6}/?", 1 => "(/%[3-7][0-9A-F][a-z]{0,3}){1,3}"],
        proptest::option::of("[A-Za-z0-9._~!$&()*+,;=:@/?%-]{0,24}"),
        proptest::option::of("[A-Za-z0-9]{0,6}"),
        headers_strategy(12),
        decision,
        prop_oneof![Just(200u16), Just(204), Just(299), Just(300), Just(199), Just(403), Just(404), Just(429), Just(500), Just(599), 200u16..300, 300u16..600],
        (proptest::collection::vec((0u8..3, any::<bool>(), any::<bool>(), any::<u8>(), any::<bool>()), 17), prop_oneof![4 => Just(0u16), 2 => Just(32u16), 1 => Just(40), 1 => 32u16..300]),
    )
        .prop_map(|((flavor, variant, host_kind), domain, explicit_port, path, query, fragment, headers, decision, status, (enc, window))| {
            // every window update costs a round trip: keep the number of flow-control boundaries
            // a HEADERS frame crosses bounded (<= ~30) by scaling the window with the section size
            let section: usize = 120 + path.len() + headers.iter().map(|(k, v)| k.len() + v.len() + 4).sum::<usize>();
            // and never below 32 bytes: each endpoint writes its whole control-stream opening
            // (25 bytes) before it starts reading the peer's, so two endpoints that both advertise
            // a smaller window wait for each other forever — no listed property covers such
            // transport limits, therefore the generator stays inside the working range
            let window = if window == 0 { 0 } else { window.max(32).max((section / 30 + 1) as u16) };
            Case { flavor, variant, host_kind, domain, explicit_port, path, query, fragment, headers, decision, status, enc, window }
        })
}

#[derive(Debug)]
struct FixedResolver(SocketAddr);

impl wtransport::config::DnsResolver for FixedResolver {
    fn resolve(&self, _host: &str) -> std::pin::Pin<Box<dyn wtransport::config::DnsLookupFuture>> {
        let a = self.0;
        Box::pin(async move { Ok(Some(a)) })
    }
}

/// Builds (url, expected authority, expected path) for a server listening on `addr`.
pub fn url_of(case: &Case, addr: SocketAddr) -> (String, String, String) {
    let port = addr.port();
    let host = match case.host_kind % 3 {
        0 => "127.0.0.1".to_string(),
        1 => "[::1]".to_string(),
        _ => case.domain.clone(),
    };
    // literal addresses must carry the real port; domains may use the default port because the
    // harness resolver points them at the server whatever the port says
    let with_port = case.explicit_port || case.host_kind % 3 != 2;
    let authority = if with_port && port != 443 { format!("{host}:{port}") } else { host.clone() };
    let mut url = format!("https://{authority}{}", case.path);
    let mut path = case.path.clone();
    if let Some(q) = &case.query {
        url.push('?');
        url.push_str(q);
        path.push('?');
        path.push_str(q);
    }
    if let Some(f) = &case.fragment {
        url.push('#');
        url.push_str(f);
    }
    (url, authority, path)
}

fn nontrivial(case: &Case) -> bool {
    !case.headers.is_empty() || case.path != "/" || !matches!(case.decision, Decision::Accept | Decision::AcceptWithHeaders(_))
}

fn bind_addr(case: &Case) -> SocketAddr {
    if case.host_kind % 3 == 1 {
        "[::1]:0".parse().unwrap()
    } else {
        "127.0.0.1:0".parse().unwrap()
    }
}

pub fn wt_client_for(addr: SocketAddr) -> wtransport::Endpoint<wtransport::endpoint::endpoint_side::Client> {
    wt_client_for_window(addr, 0)
}

/// Client resolving every host name to `addr`; `window` > 0 installs a transport with that
/// per-stream receive window, 0 keeps the library's default transport.
pub fn wt_client_for_window(addr: SocketAddr, window: u16) -> wtransport::Endpoint<wtransport::endpoint::endpoint_side::Client> {
    let bind: SocketAddr = if addr.is_ipv6() { "[::1]:0".parse().unwrap() } else { "127.0.0.1:0".parse().unwrap() };
    let mut cfg = wtransport::ClientConfig::builder().with_bind_address(bind).with_no_cert_validation().build();
    cfg.set_dns_resolver(FixedResolver(addr));
    if window > 0 {
        let t = Tuning { stream_receive_window: Some(window as u32), ..Default::default() };
        cfg.quic_config_mut().transport_config(Arc::new(wire::transport(&t)));
    }
    wtransport::Endpoint::client(cfg).expect("client endpoint")
}

/// What the server application saw.
#[derive(Debug, Clone)]
pub struct Seen {
    pub authority: String,
    pub path: String,
    pub headers: HashMap<String, String>,
    pub origin: Option<String>,
    pub user_agent: Option<String>,
}

fn check_seen(case: &Case, seen: &Seen, authority: &str, path: &str) -> Result<(), CaseResult> {
    if seen.authority != authority {
        return Err(viol("C02:authority", format!("server saw authority {:?}, expected {authority:?}", seen.authority)));
    }
    if seen.path != path {
        return Err(viol("C02:path", format!("server saw path {:?}, expected {path:?}", seen.path)));
    }
    let mut want: HashMap<String, String> = HashMap::new();
    want.insert(":method".into(), "CONNECT".into());
    want.insert(":scheme".into(), "https".into());
    want.insert(":protocol".into(), "webtransport".into());
    want.insert(":authority".into(), authority.into());
    want.insert(":path".into(), path.into());
    for (k, v) in &case.headers {
        want.insert(k.clone(), v.clone());
    }
    if seen.headers != want {
        let missing: Vec<_> = want.iter().filter(|(k, v)| seen.headers.get(*k) != Some(*v)).map(|(k, v)| (k.clone(), short(v.as_bytes()), seen.headers.get(k).map(|x| short(x.as_bytes())))).collect();
        let extra: Vec<_> = seen.headers.keys().filter(|k| !want.contains_key(*k)).cloned().collect();
        return Err(viol("C02:fields", format!("request fields differ: wrong/missing (name, sent, seen) {:?}; unexpected {:?}", missing, extra)));
    }
    let o = case.headers.iter().find(|(k, _)| k == "origin").map(|(_, v)| v.clone());
    let ua = case.headers.iter().find(|(k, _)| k == "user-agent").map(|(_, v)| v.clone());
    if seen.origin != o || seen.user_agent != ua {
        return Err(viol("C02:accessors", format!("origin()/user_agent() = {:?}/{:?}, expected {:?}/{:?}", seen.origin, seen.user_agent, o, ua)));
    }
    Ok(())
}

async fn exec_wt_wt(case: Arc<Case>) -> CaseResult {
    let server_ep = wt_server_at(bind_addr(&case), &tuning_of(&case));
    let addr = server_ep.local_addr().unwrap();
    let (url, authority, path) = url_of(&case, addr);
    let client_ep = wt_client_for_window(addr, case.window);
    let decision = case.decision.clone();
    let serve = async {
        let incoming = server_ep.accept().await;
        let req = incoming.await.map_err(|e| format!("incoming: {}", conn_err(&e)))?;
        let seen = Seen { authority: req.authority().to_string(), path: req.path().to_string(), headers: req.headers().clone(), origin: req.origin().map(|s| s.to_string()), user_agent: req.user_agent().map(|s| s.to_string()) };
        let conn = match decision {
            Decision::Accept => Some(req.accept().await.map_err(|e| format!("accept: {}", conn_err(&e)))?),
            Decision::AcceptWithHeaders(h) => Some(req.accept_with_headers(h).await.map_err(|e| format!("accept_with_headers: {}", conn_err(&e)))?),
            Decision::Forbidden => {
                req.forbidden().await;
                None
            }
            Decision::NotFound => {
                req.not_found().await;
                None
            }
            Decision::TooManyRequests => {
                req.too_many_requests().await;
                None
            }
        };
        Ok::<_, String>((seen, conn))
    };
    let connect = connect_via(&client_ep, &url, &case.headers, option_path(&case));
    let (s, c) = tokio::join!(serve, connect);
    let (seen, server_conn) = match s {
        Ok(x) => x,
        Err(e) => return viol("C02:server-failed", format!("server side failed for {url:?} with {} headers: {e}", case.headers.len())),
    };
    if let Err(r) = check_seen(&case, &seen, &authority, &path) {
        return r;
    }
    let accepted = server_conn.is_some();
    match (&c, accepted) {
        (Ok(conn), true) => {
            let sc = server_conn.as_ref().unwrap();
            if conn.session_id() != sc.session_id() || conn.session_id().into_u64() != 0 {
                return viol("C02:session-id", format!("client session id {}, server {}", conn.session_id(), sc.session_id()));
            }
            // the session is usable
            let echo = async {
                let mut s = conn.open_uni().await.map_err(|e| conn_err(&e))?.await.map_err(|e| e.to_string())?;
                s.write_all(b"ping").await.map_err(|e| e.to_string())?;
                s.finish().await.map_err(|e| e.to_string())?;
                let mut r = sc.accept_uni().await.map_err(|e| conn_err(&e))?;
                let mut b = [0u8; 4];
                r.read_exact(&mut b).await.map_err(|e| e.to_string())?;
                Ok::<_, String>(b)
            };
            match tokio::time::timeout(Duration::from_secs(5), echo).await {
                Ok(Ok(b)) if &b == b"ping" => {}
                other => return viol("C02:unusable", format!("accepted session is not usable: {other:?}")),
            }
        }
        (Err(ConnectingError::SessionRejected), false) => {}
        (Ok(_), false) => return viol("C02:outcome", format!("connect succeeded although the server answered {:?}", case.decision)),
        (Err(e), true) => return viol("C02:outcome", format!("connect failed with {e} although the server accepted")),
        (Err(e), false) => return viol("C02:outcome", format!("connect failed with {e} instead of SessionRejected for decision {:?}", case.decision)),
    }
    CaseResult::Pass { nontrivial: nontrivial(&case), labels: vec!["variant:wt-wt", decision_label(&case.decision), host_label(&case), option_label(&case)] }
}

fn option_label(c: &Case) -> &'static str {
    match option_path(c) {
        0 => "options:built",
        2 if c.headers.is_empty() => "options:bare-url",
        _ => "options:builder-itself",
    }
}

fn decision_label(d: &Decision) -> &'static str {
    match d {
        Decision::Accept => "decision:accept",
        Decision::AcceptWithHeaders(_) => "decision:accept-with-headers",
        Decision::Forbidden => "decision:forbidden",
        Decision::NotFound => "decision:not-found",
        Decision::TooManyRequests => "decision:too-many-requests",
    }
}

fn host_label(c: &Case) -> &'static str {
    match c.host_kind % 3 {
        0 => "host:ipv4",
        1 => "host:ipv6",
        _ => "host:domain",
    }
}

/// wtransport client against a raw server answering `status` (+ extra fields).
async fn exec_raw_server(case: Arc<Case>) -> CaseResult {
    let (raw_ep, addr) = match raw_server(&tuning_of(&case)) {
        Ok(x) => x,
        Err(e) => return CaseResult::Skip(e),
    };
    let mut c2 = (*case).clone();
    c2.host_kind = if case.host_kind % 3 == 1 { 2 } else { case.host_kind }; // the raw server listens on IPv4
    let (url, authority, path) = url_of(&c2, addr);
    let client_ep = wt_client_for_window(addr, case.window);
    let extra = match &case.decision {
        Decision::AcceptWithHeaders(h) => h.clone(),
        _ => vec![],
    };
    let status = case.status.to_string();
    let serve = async {
        let mut s = raw_server_accept(&raw_ep, &default_settings()).await?;
        s.respond(&status, &extra).await?;
        Ok::<_, String>(s)
    };
    let (s, c) = tokio::join!(serve, connect_via(&client_ep, &url, &case.headers, option_path(&case)));
    let s = match s {
        Ok(s) => s,
        Err(e) => return viol("C02:request-undecodable", format!("the raw server could not read the request for {url:?}: {e}")),
    };
    let seen = Seen {
        authority: s.request.iter().find(|(k, _)| k == ":authority").map(|(_, v)| v.clone()).unwrap_or_default(),
        path: s.request.iter().find(|(k, _)| k == ":path").map(|(_, v)| v.clone()).unwrap_or_default(),
        headers: s.request.iter().cloned().collect(),
        origin: case.headers.iter().find(|(k, _)| k == "origin").map(|(_, v)| v.clone()),
        user_agent: case.headers.iter().find(|(k, _)| k == "user-agent").map(|(_, v)| v.clone()),
    };
    if s.request.len() != seen.headers.len() {
        return viol("C02:duplicate-field", format!("request carries a field twice: {:?}", s.request.iter().map(|(k, _)| k).collect::<Vec<_>>()));
    }
    if let Err(r) = check_seen(&c2, &seen, &authority, &path) {
        return r;
    }
    let ok2xx = (200..300).contains(&case.status);
    match (&c, ok2xx) {
        (Ok(conn), true) => {
            if conn.session_id().into_u64() != s.session_id {
                return viol("C02:session-id", format!("client session id {}, CONNECT stream {}", conn.session_id(), s.session_id));
            }
        }
        (Err(ConnectingError::SessionRejected), false) => {}
        (other, _) => return viol("C02:outcome", format!("status {} with {} extra fields: connect = {:?}", case.status, extra.len(), other.as_ref().map(|_| "Ok").map_err(|e| e.to_string()))),
    }
    CaseResult::Pass { nontrivial: nontrivial(&case) || !ok2xx, labels: vec!["variant:raw-server", if ok2xx { "status:2xx" } else { "status:non-2xx" }, option_label(&case)] }
}

/// Raw client (reference QPACK encoder, generated representations) against the wtransport server.
async fn exec_raw_client(case: Arc<Case>) -> CaseResult {
    let server_ep = wt_server(&tuning_of(&case));
    let addr = server_ep.local_addr().unwrap();
    let mut c2 = (*case).clone();
    c2.host_kind = if case.host_kind % 3 == 1 { 2 } else { case.host_kind };
    let (_url, authority, path) = url_of(&c2, addr);
    let decision = case.decision.clone();
    let serve = async {
        let incoming = server_ep.accept().await;
        let req = incoming.await.map_err(|e| format!("incoming: {}", conn_err(&e)))?;
        let seen = Seen { authority: req.authority().to_string(), path: req.path().to_string(), headers: req.headers().clone(), origin: req.origin().map(|s| s.to_string()), user_agent: req.user_agent().map(|s| s.to_string()) };
        let conn = match decision {
            Decision::Accept => Some(req.accept().await.map_err(|e| conn_err(&e))?),
            Decision::AcceptWithHeaders(h) => Some(req.accept_with_headers(h).await.map_err(|e| conn_err(&e))?),
            Decision::Forbidden => {
                req.forbidden().await;
                None
            }
            Decision::NotFound => {
                req.not_found().await;
                None
            }
            Decision::TooManyRequests => {
                req.too_many_requests().await;
                None
            }
        };
        Ok::<_, String>((seen, conn))
    };
    let fields_plain: Vec<(String, String)> = {
        let mut f = vec![
            (":method".to_string(), "CONNECT".to_string()),
            (":scheme".into(), "https".into()),
            (":protocol".into(), "webtransport".into()),
            (":authority".into(), authority.clone()),
            (":path".into(), path.clone()),
        ];
        f.extend(case.headers.iter().cloned());
        f
    };
    let fields: Vec<(String, String, rq::EncOpts)> = fields_plain
        .iter()
        .enumerate()
        .map(|(i, (k, v))| {
            let o = case.enc[i % case.enc.len()];
            (k.clone(), v.clone(), rq::EncOpts { choice: match o.0 { 0 => rq::Choice::Best, 1 => rq::Choice::NameRef, _ => rq::Choice::Literal }, huffman_name: o.1, huffman_value: o.2, row_sel: o.3, n_bit: o.4 })
        })
        .collect();
    let client = async {
        let (ep, conn) = raw_connect(addr, &tuning_of(&case)).await?;
        let control = open_control(&conn, &default_settings()).await?;
        let (mut rs, mut rr) = conn.open_bi().await.map_err(|e| e.to_string())?;
        let sid = quinn::VarInt::from(rs.id()).into_inner();
        rs.write_all(&headers_frame(&fields)).await.map_err(|e| e.to_string())?;
        let mut buf = Vec::new();
        let (_, payload) = read_frame_of(&mut rr, &mut buf, &[refcodec::registry::FRAME_HEADERS], Duration::from_secs(5)).await?;
        let resp = decode_fields(&payload)?;
        Ok::<_, String>((ep, conn, control, rs, rr, sid, resp))
    };
    let (s, c) = tokio::join!(serve, client);
    let (seen, server_conn) = match s {
        Ok(x) => x,
        Err(e) => return viol("C02:server-failed", format!("server side failed on a request encoded by the reference QPACK encoder: {e}")),
    };
    if let Err(r) = check_seen(&c2, &seen, &authority, &path) {
        return r;
    }
    let (_ep, _conn, _control, _rs, _rr, sid, resp) = match c {
        Ok(x) => x,
        Err(e) => return viol("C02:response-undecodable", format!("raw client could not read the response: {e}")),
    };
    let status = resp.iter().find(|(k, _)| k == ":status").map(|(_, v)| v.clone());
    let want_status = match &case.decision {
        Decision::Accept | Decision::AcceptWithHeaders(_) => "200",
        Decision::Forbidden => "403",
        Decision::NotFound => "404",
        Decision::TooManyRequests => "429",
    };
    if status.as_deref() != Some(want_status) {
        return viol("C02:response-status", format!("decision {:?} produced :status {:?}", case.decision, status));
    }
    if let Decision::AcceptWithHeaders(h) = &case.decision {
        for (k, v) in h {
            if resp.iter().find(|(n, _)| n == k).map(|(_, x)| x) != Some(v) {
                return viol("C02:response-fields", format!("extra response field {k:?} missing or altered"));
            }
        }
    }
    if let Some(sc) = &server_conn {
        if sc.session_id().into_u64() != sid {
            return viol("C02:session-id", format!("server session id {}, CONNECT stream {sid}", sc.session_id()));
        }
    }
    CaseResult::Pass { nontrivial: nontrivial(&case), labels: vec!["variant:raw-client", decision_label(&case.decision)] }
}

pub fn exec(case: &Case) -> CaseResult {
    let c = Arc::new(case.clone());
    let fut = async move {
        match c.variant % 3 {
            0 => exec_wt_wt(c).await,
            1 => exec_raw_server(c).await,
            _ => exec_raw_client(c).await,
        }
    };
    match run_on(case.flavor, Duration::from_secs(20), fut) {
        Some(r) => r,
        None => CaseResult::Timeout("case did not finish in 20 s".into()),
    }
}

pub fn run(run: &Run) {
    run.set_rule(RULE);
    run.assume("field names are lower-case RFC 9110 tokens not starting with ':'; values have no leading/trailing whitespace and no CR/LF/NUL; the encoded section stays below the peer's 4096-byte parse cap; URLs are in WHATWG-normalised form");
    prop_search(
        run,
        Search { check: "session-setup", cases: run.tier.pick(3000, 120000), workers: 8, max_shrink_iters: 200 },
        case_strategy,
        |c| judge(|| exec(c), true, "C02:hang"),
        |c| serde_json::to_value(c).unwrap(),
    );
    for l in ["variant:wt-wt", "variant:raw-server", "variant:raw-client", "decision:accept", "decision:accept-with-headers", "decision:forbidden", "decision:not-found", "decision:too-many-requests", "host:ipv4", "host:ipv6", "host:domain", "status:2xx", "status:non-2xx"] {
        run.essential(l);
    }
}

pub fn replay(run: &Run, doc: &Value) -> bool {
    let Ok(case) = serde_json::from_value::<Case>(doc["case"].clone()) else {
        return false;
    };
    run.eval("session-setup", true, 1);
    for _ in 0..3 {
        if let Outcome::Fail { signature, message } = judge(|| exec(&case), true, "C02:hang") {
            run.fail("session-setup", &signature, &message, doc["case"].clone());
            break;
        }
    }
    true
}
