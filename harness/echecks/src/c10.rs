//! C10 — certificate-hash pinning accepts exactly the pinned, short-lived P-256 leaf.
//!
//! Two halves:
//!  * direct calls of `ServerCertVerifier::verify_server_cert` on the library's public
//!    `wtransport::tls::client::ServerHashVerification` with an injected `UnixTime`
//!    (exhaustive boundary table + proptest-generated cases);
//!  * an enumerated matrix of real handshakes over loop-back: client trust policy x server identity.

use crate::common::*;
use proptest::prelude::*;
use rustls_pki_types::{CertificateDer, ServerName, UnixTime};
use serde::{Deserialize, Serialize};
use serde_json::{json, Value};
use sha2::{Digest, Sha256};
use std::cell::RefCell;
use std::net::IpAddr;
use std::sync::{Arc, Mutex, OnceLock};
use std::time::Duration;
use time::OffsetDateTime;
use vcore::{prop_search, Outcome, Run, Search};
use wire::localhost0;
use wtransport::tls::client::ServerHashVerification;
use wtransport::tls::rustls::client::danger::ServerCertVerifier;
use wtransport::tls::{Certificate, CertificateChain, PrivateKey, Sha256Digest};
use wtransport::{ClientConfig, Endpoint, Identity, ServerConfig};

const RULE: &str = "verifier half: case = (not_before nb in unix seconds, validity d = not_after - nb in seconds, key algorithm P-256 / P-384 / Ed25519, injected verification time `now`, pinned hash set, plus inputs that must not matter: server name, intermediates (none, the leaf again, garbage, another admissible certificate that is itself pinned), OCSP bytes); the certificate is generated with rcgen for exactly (nb, nb + d, key) and h = SHA-256(DER) is computed by the harness. Boundary table (exhaustive): nb in {2001, window crossing 2038-01-19, window crossing the UTCTime/GeneralizedTime switch 2050-01-01, 2026} x d in {14d-1s, 14d, 14d+1s, 1s, 13d, 15d, 365d} x key in {P-256, P-384, Ed25519} x now in {nb-1, nb, nb+1, mid, na-1, na, na+1} x set in {empty, {h}, {h with one bit flipped}, {h + 20 others}, {20 others}}. Random cases: nb anywhere in 1970..2190, d from boundary values / 1 s..30 days / +-100 s around 14 days / 1..4 s / up to 400 days, now at +-3 s of either end, inside the window or far outside, all set shapes (any flipped bit, 0..40 others), all server-name / intermediates / OCSP shapes. Separate exhaustive tables cover a pre-2050 not_before encoded as GeneralizedTime, and degenerate windows (not_after == not_before, i.e. a one-second window since RFC 5280 bounds are inclusive, and not_after < not_before). Oracle: Ok <=> h in set AND nb <= now <= na AND na - nb <= 14 days AND key is ECDSA P-256. End-to-end half (exhaustive matrix, real handshakes on 127.0.0.1): client policy in {certificate hashes, native roots, no validation, custom TLS carrying the hash verifier, custom TLS with a harness CA as only root} x server identity in {pinned valid self-signed, valid but other hash pinned, 15 days, P-384, expired, not yet valid, Ed25519, harness-CA-signed 10-day P-256 leaf} x runtime flavour; oracle: connect succeeds <=> the policy admits the identity, native roots never admit, and after a refusal the server application never obtains a SessionRequest/session. Non-trivial: exactly one of the four conjuncts false, or all true (verifier); every matrix cell (e2e); distinct = distinct case";

const DAY: i64 = 86_400;
/// 2050-01-01T00:00:00Z: X.509 validity switches from UTCTime to GeneralizedTime here
const Y2050: i64 = 2_524_608_000;
const MAX_VALIDITY: i64 = 14 * DAY;

// ---------------------------------------------------------------------------------------------
// verifier half
// ---------------------------------------------------------------------------------------------

#[derive(Clone, Debug, Serialize, Deserialize, Hash, PartialEq, Eq)]
pub enum PinSet {
    Empty,
    /// exactly {h}
    Exact,
    /// {h'} where h' = h with bit `bit` (0..256) flipped
    Flipped { bit: u16 },
    /// {h} plus `others` unrelated digests
    ExactAmong { others: u8, seed: u64 },
    /// `n` unrelated digests
    Others { n: u8, seed: u64 },
    /// {h'} plus unrelated digests
    FlippedAmong { bit: u16, others: u8, seed: u64 },
}

#[derive(Clone, Debug, Serialize, Deserialize, Hash)]
pub struct Case {
    /// not_before (unix seconds)
    pub nb: i64,
    /// not_after - not_before (seconds)
    pub d: i64,
    /// 0 ECDSA P-256, 1 ECDSA P-384, 2 Ed25519
    pub key: u8,
    /// which pooled key pair of that algorithm
    pub key_ix: u8,
    /// injected verification time (unix seconds, >= 0)
    pub now: i64,
    pub set: PinSet,
    /// 0 "localhost" (in SAN), 1 "evil.example" (not in SAN), 2 127.0.0.1, 3 ::1
    pub name: u8,
    /// intermediates handed to the verifier (mod 5): 0 none, 1 the leaf again, 2 garbage + the leaf
    /// again, 3 another admissible certificate (P-256, valid at `now`, 1000 s validity) **whose
    /// SHA-256 is added to the pinned set**, 4 the leaf again + that pinned other certificate
    pub inter: u8,
    /// OCSP response bytes handed to the verifier
    pub ocsp: u8,
    /// UTC offset (minutes) of the not_before value handed to the certificate generator; the instant
    /// is unchanged, but rcgen picks UTCTime / GeneralizedTime by the local year, so a non-zero
    /// offset next to 2050-01-01 yields a pre-2050 not_before encoded as GeneralizedTime
    #[serde(default)]
    pub nb_off_min: i16,
}

const POOL: usize = 3;

fn key_pair(key: u8, ix: u8) -> &'static rcgen::KeyPair {
    static KEYS: OnceLock<Vec<rcgen::KeyPair>> = OnceLock::new();
    let keys = KEYS.get_or_init(|| {
        let mut v = Vec::new();
        for alg in [&rcgen::PKCS_ECDSA_P256_SHA256, &rcgen::PKCS_ECDSA_P384_SHA384, &rcgen::PKCS_ED25519] {
            for _ in 0..POOL {
                v.push(rcgen::KeyPair::generate_for(alg).expect("key generation"));
            }
        }
        v
    });
    &keys[(key as usize % 3) * POOL + (ix as usize % POOL)]
}

fn sha256(b: &[u8]) -> [u8; 32] {
    let mut out = [0u8; 32];
    out.copy_from_slice(&Sha256::digest(b)[..]);
    out
}

/// Self-signed certificate with exactly the given validity and key; SAN localhost, 127.0.0.1, ::1.
fn make_cert(nb: i64, na: i64, key: &rcgen::KeyPair, nb_off_min: i16) -> Result<Vec<u8>, String> {
    let mut p = rcgen::CertificateParams::new(vec!["localhost".to_string(), "127.0.0.1".to_string(), "::1".to_string()]).map_err(|e| format!("rcgen params: {e}"))?;
    let mut dn = rcgen::DistinguishedName::new();
    dn.push(rcgen::DnType::CommonName, "verif C10");
    p.distinguished_name = dn;
    p.not_before = OffsetDateTime::from_unix_timestamp(nb).map_err(|e| format!("nb {nb}: {e}"))?.to_offset(time::UtcOffset::from_whole_seconds(nb_off_min as i32 * 60).map_err(|e| e.to_string())?);
    p.not_after = OffsetDateTime::from_unix_timestamp(na).map_err(|e| format!("na {na}: {e}"))?;
    let cert = p.self_signed(key).map_err(|e| format!("rcgen sign: {e}"))?;
    Ok(cert.der().to_vec())
}

thread_local! {
    static LAST_CERT: RefCell<Option<((i64, i64, u8, u8, i16), Vec<u8>)>> = const { RefCell::new(None) };
}

fn cert_for(c: &Case) -> Result<Vec<u8>, String> {
    let k = (c.nb, c.d, c.key % 3, c.key_ix % POOL as u8, c.nb_off_min);
    if let Some(hit) = LAST_CERT.with(|l| l.borrow().as_ref().filter(|(kk, _)| *kk == k).map(|(_, d)| d.clone())) {
        return Ok(hit);
    }
    let der = make_cert(c.nb, c.nb + c.d, key_pair(c.key, c.key_ix), c.nb_off_min)?;
    // generator sanity, independent of the code under test: validity and key algorithm are as requested
    {
        use x509_parser::prelude::FromDer;
        let (rem, x) = x509_parser::certificate::X509Certificate::from_der(&der).map_err(|e| format!("generated certificate does not parse: {e}"))?;
        if !rem.is_empty() {
            return Err("generated certificate has trailing bytes".into());
        }
        let (gnb, gna) = (x.validity().not_before.timestamp(), x.validity().not_after.timestamp());
        if gnb != c.nb || gna != c.nb + c.d {
            return Err(format!("generated certificate has validity [{gnb}, {gna}], wanted [{}, {}]", c.nb, c.nb + c.d));
        }
        if c.nb_off_min != 0 && !(x.validity().not_before.is_generalizedtime() && c.nb < Y2050) {
            return Err("the generator did not produce a pre-2050 not_before in GeneralizedTime".into());
        }
        let alg = x.public_key().algorithm.algorithm.to_id_string();
        let curve = x.public_key().algorithm.parameters.as_ref().and_then(|p| p.as_oid().ok()).map(|o| o.to_id_string());
        let want: (&str, Option<&str>) = match c.key % 3 {
            0 => ("1.2.840.10045.2.1", Some("1.2.840.10045.3.1.7")),
            1 => ("1.2.840.10045.2.1", Some("1.3.132.0.34")),
            _ => ("1.3.101.112", None),
        };
        if alg != want.0 || curve.as_deref() != want.1 {
            return Err(format!("generated certificate has key algorithm {alg} / {curve:?}, wanted {want:?}"));
        }
    }
    LAST_CERT.with(|l| *l.borrow_mut() = Some((k, der.clone())));
    Ok(der)
}

fn other_digest(seed: u64, i: u64) -> [u8; 32] {
    let mut out = [0u8; 32];
    for k in 0..4u64 {
        out[k as usize * 8..k as usize * 8 + 8].copy_from_slice(&vcore::hash64(&("C10-other", seed, i, k)).to_le_bytes());
    }
    out
}

fn flip(h: &[u8; 32], bit: u16) -> [u8; 32] {
    let mut o = *h;
    let b = (bit % 256) as usize;
    o[b / 8] ^= 1 << (b % 8);
    o
}

fn pin_set(set: &PinSet, h: &[u8; 32]) -> Vec<[u8; 32]> {
    let others = |n: u8, seed: u64| (0..n as u64).map(move |i| other_digest(seed, i));
    match set {
        PinSet::Empty => vec![],
        PinSet::Exact => vec![*h],
        PinSet::Flipped { bit } => vec![flip(h, *bit)],
        PinSet::ExactAmong { others: n, seed } => {
            let mut v: Vec<[u8; 32]> = others(*n, *seed).collect();
            // position of h among the others depends on the seed
            let at = if v.is_empty() { 0 } else { (*seed as usize) % (v.len() + 1) };
            v.insert(at, *h);
            v
        }
        PinSet::Others { n, seed } => others(*n, *seed).collect(),
        PinSet::FlippedAmong { bit, others: n, seed } => {
            let mut v: Vec<[u8; 32]> = others(*n, *seed).collect();
            v.push(flip(h, *bit));
            v
        }
    }
}

fn server_name(sel: u8) -> ServerName<'static> {
    match sel % 4 {
        0 => ServerName::try_from("localhost").unwrap(),
        1 => ServerName::try_from("evil.example").unwrap(),
        2 => ServerName::IpAddress(IpAddr::from([127, 0, 0, 1]).into()),
        _ => ServerName::IpAddress(IpAddr::from([0u16, 0, 0, 0, 0, 0, 0, 1]).into()),
    }
}

struct Conj {
    hash: bool,
    time: bool,
    period: bool,
    key: bool,
}

impl Conj {
    fn all(&self) -> bool {
        self.hash && self.time && self.period && self.key
    }
    fn false_count(&self) -> usize {
        [self.hash, self.time, self.period, self.key].iter().filter(|b| !**b).count()
    }
}

thread_local! {
    static LAST_OTHER: RefCell<Option<((i64, u8), Vec<u8>)>> = const { RefCell::new(None) };
}

/// Another certificate that would itself be admissible at `c.now`: ECDSA P-256 (a different pooled
/// key), valid from now-100 s for 1000 s. Pinned in addition when it travels as an intermediate.
fn other_admissible_cert(c: &Case) -> Result<Vec<u8>, String> {
    let k = (c.now, c.key_ix % POOL as u8);
    if let Some(hit) = LAST_OTHER.with(|l| l.borrow().as_ref().filter(|(kk, _)| *kk == k).map(|(_, d)| d.clone())) {
        return Ok(hit);
    }
    let nb = (c.now - 100).max(0);
    let der = make_cert(nb, nb + 1000, key_pair(0, c.key_ix.wrapping_add(1)), 0)?;
    LAST_OTHER.with(|l| *l.borrow_mut() = Some((k, der.clone())));
    Ok(der)
}

fn pins_inter(c: &Case) -> bool {
    matches!(c.inter % 5, 3 | 4)
}

fn verify_once(der: &[u8], pins: &[[u8; 32]], c: &Case, now: i64) -> Result<bool, String> {
    let mut pins = pins.to_vec();
    let leaf = CertificateDer::from(der);
    let junk: Vec<u8> = vec![0x30, 0x03, 0x02, 0x01, 0x2a];
    let other = if pins_inter(c) { other_admissible_cert(c)? } else { Vec::new() };
    if pins_inter(c) {
        pins.push(sha256(&other));
    }
    let verifier = ServerHashVerification::new(pins.iter().map(|p| Sha256Digest::new(*p)));
    let inter: Vec<CertificateDer> = match c.inter % 5 {
        0 => vec![],
        1 => vec![CertificateDer::from(der)],
        2 => vec![CertificateDer::from(junk.as_slice()), CertificateDer::from(der)],
        3 => vec![CertificateDer::from(other.as_slice())],
        _ => vec![CertificateDer::from(der), CertificateDer::from(other.as_slice())],
    };
    let ocsp: Vec<u8> = (0..c.ocsp).collect();
    let name = server_name(c.name);
    let t = UnixTime::since_unix_epoch(Duration::from_secs(now as u64));
    vcore::catch(|| verifier.verify_server_cert(&leaf, &inter, &name, &ocsp, t).is_ok())
}

pub fn exec_verifier(c: &Case) -> Outcome {
    if c.now < 0 || c.nb < 0 || c.nb.checked_add(c.d).map(|na| !(0..=200_000_000_000).contains(&na)).unwrap_or(true) {
        return Outcome::Inconclusive(format!("case outside the generator's domain: {c:?}"));
    }
    let der = match cert_for(c) {
        Ok(d) => d,
        Err(e) => return Outcome::Inconclusive(format!("certificate generation: {e}")),
    };
    let h = sha256(&der);
    let pins = pin_set(&c.set, &h);
    let na = c.nb + c.d;
    let conj = Conj { hash: pins.iter().any(|p| *p == h), time: c.nb <= c.now && c.now <= na, period: c.d <= MAX_VALIDITY, key: c.key % 3 == 0 };
    let want = conj.all();
    let got = match verify_once(&der, &pins, c, c.now) {
        Ok(g) => g,
        Err(p) => return Outcome::fail("C10:verifier-panic", format!("verify_server_cert panicked ({p}) for nb={} na={} now={} key={} set={:?}", c.nb, na, c.now, key_name(c.key), c.set)),
    };
    let describe = || {
        format!(
            "certificate nb={}{} na={} (validity {} s = 14 d {:+} s), key {}, now={} (nb{:+}, na{:+}), pinned set {:?} ({} digests, contains SHA-256 of the certificate: {}), server name #{}, intermediates shape {} (3/4: another admissible certificate travels as intermediate and is pinned), {} OCSP bytes; conjuncts: hash={} time={} period={} key={}",
            c.nb,
            if c.nb_off_min != 0 { " (encoded as GeneralizedTime although before 2050)" } else { "" },
            na,
            c.d,
            c.d - MAX_VALIDITY,
            key_name(c.key),
            c.now,
            c.now - c.nb,
            c.now - na,
            c.set,
            pins.len(),
            conj.hash,
            c.name % 4,
            c.inter % 5,
            c.ocsp,
            conj.hash,
            conj.time,
            conj.period,
            conj.key
        )
    };
    if got && !want {
        let sig = if !conj.hash {
            "C10:accepts-unpinned-hash"
        } else if c.now < c.nb {
            "C10:accepts-before-not-before"
        } else if c.now > na {
            "C10:accepts-after-not-after"
        } else if !conj.period {
            "C10:accepts-over-14-days"
        } else {
            "C10:accepts-non-p256-key"
        };
        return Outcome::fail(sig, format!("verifier returned Ok although the conjunction is false: {}", describe()));
    }
    if !got && want {
        // which boundary is involved? probe the same certificate in the middle of its window
        let probe = if c.nb + c.d / 2 != c.now { c.nb + c.d / 2 } else { na };
        let mid_ok = probe != c.now && verify_once(&der, &pins, c, probe).unwrap_or(false);
        let sig = if mid_ok && c.now == c.nb && c.nb_off_min != 0 {
            "C10:rejects-at-not-before:generalizedtime-before-2050"
        } else if mid_ok && c.now == c.nb {
            "C10:rejects-at-not-before"
        } else if mid_ok && c.now == na {
            "C10:rejects-at-not-after"
        } else if mid_ok {
            "C10:rejects-inside-validity"
        } else if c.d == 0 {
            "C10:rejects-zero-length-validity"
        } else if c.d == MAX_VALIDITY {
            "C10:rejects-exactly-14-days"
        } else {
            "C10:rejects-admissible"
        };
        return Outcome::fail(sig, format!("verifier returned Err although all four conditions hold: {}", describe()));
    }
    let mut labels = Vec::new();
    let fc = conj.false_count();
    if fc == 0 {
        labels.push("all-true");
        if c.d == MAX_VALIDITY {
            labels.push("boundary:d=14d:accepted");
        }
        if c.d == MAX_VALIDITY - 1 {
            labels.push("boundary:d=14d-1s:accepted");
        }
        if c.now == c.nb {
            labels.push("boundary:now=nb:accepted");
        }
        if c.now == na {
            labels.push("boundary:now=na:accepted");
        }
        if c.name % 4 == 1 {
            labels.push("all-true:name-not-in-san");
        }
    } else if fc == 1 {
        if !conj.hash {
            labels.push("only-false:hash");
            if pins_inter(c) {
                labels.push("only-false:hash:pinned-certificate-among-intermediates");
            }
            if matches!(c.set, PinSet::Flipped { .. } | PinSet::FlippedAmong { .. }) {
                labels.push("only-false:hash:one-bit-flipped");
            }
        } else if !conj.time {
            labels.push("only-false:time");
            if c.now == c.nb - 1 {
                labels.push("boundary:now=nb-1:refused");
            }
            if c.now == na + 1 {
                labels.push("boundary:now=na+1:refused");
            }
        } else if !conj.period {
            labels.push("only-false:period");
            if c.d == MAX_VALIDITY + 1 {
                labels.push("boundary:d=14d+1s:refused");
            }
        } else {
            labels.push("only-false:key");
            labels.push(if c.key % 3 == 1 { "only-false:key:p384" } else { "only-false:key:ed25519" });
        }
    }
    Outcome::pass_l(fc <= 1, labels)
}

fn key_name(k: u8) -> &'static str {
    match k % 3 {
        0 => "ECDSA-P256",
        1 => "ECDSA-P384",
        _ => "Ed25519",
    }
}

const VERIFIER_ESSENTIAL: [&str; 17] = [
    "all-true",
    "only-false:hash",
    "only-false:hash:one-bit-flipped",
    "only-false:time",
    "only-false:period",
    "only-false:key",
    "only-false:key:p384",
    "only-false:key:ed25519",
    "boundary:d=14d:accepted",
    "boundary:d=14d-1s:accepted",
    "boundary:d=14d+1s:refused",
    "boundary:now=nb:accepted",
    "boundary:now=na:accepted",
    "boundary:now=nb-1:refused",
    "boundary:now=na+1:refused",
    "all-true:name-not-in-san",
    "only-false:hash:pinned-certificate-among-intermediates",
];

// boundary table -------------------------------------------------------------------------------

const TABLE_D: [i64; 7] = [MAX_VALIDITY - 1, MAX_VALIDITY, MAX_VALIDITY + 1, 1, 13 * DAY, 15 * DAY, 365 * DAY];
/// 2001-09-09; a window that crosses 2038-01-19T03:14:07Z (i32 seconds); a window that crosses
/// 2050-01-01 (UTCTime -> GeneralizedTime in the encoding); 2026-09-22
const TABLE_NB: [i64; 4] = [1_000_000_000, 2_147_483_647 - 7 * DAY, 2_524_608_000 - 7 * DAY, 1_790_000_000];
const TABLE_LEN: u64 = (4 * 7 * 3 * 7 * 5) as u64;

fn table_case(i: u64) -> Case {
    let set_i = i % 5;
    let now_i = (i / 5) % 7;
    let key = ((i / 35) % 3) as u8;
    let d = TABLE_D[((i / 105) % 7) as usize];
    let nb = TABLE_NB[((i / 735) % 4) as usize];
    let na = nb + d;
    let now = match now_i {
        0 => nb - 1,
        1 => nb,
        2 => nb + 1,
        3 => nb + d / 2,
        4 => na - 1,
        5 => na,
        _ => na + 1,
    };
    let seed = vcore::hash64(&("C10-table", i));
    let set = match set_i {
        0 => PinSet::Empty,
        1 => PinSet::Exact,
        2 => PinSet::Flipped { bit: (seed % 256) as u16 },
        3 => PinSet::ExactAmong { others: 20, seed },
        _ => PinSet::Others { n: 20, seed },
    };
    // the inputs that must not matter rotate through the table deterministically
    Case { nb, d, key, key_ix: ((i / 735) % POOL as u64) as u8, now, set, name: (seed >> 8) as u8 % 4, inter: (seed >> 16) as u8 % 5, ocsp: (seed >> 24) as u8 % 5, nb_off_min: 0 }
}

// degenerate windows: not_after == not_before (a one-second window, RFC 5280 bounds are inclusive)
// and not_after < not_before (never valid)
const DEGENERATE_LEN: u64 = (2 * 4 * 3 * 3 * 2) as u64;

fn degenerate_case(i: u64) -> Case {
    let set = if i % 2 == 0 { PinSet::Exact } else { PinSet::Empty };
    let now_i = (i / 2) % 3;
    let key = ((i / 6) % 3) as u8;
    let d = [0i64, -1, -DAY, -15 * DAY][((i / 18) % 4) as usize];
    let nb = [TABLE_NB[0], TABLE_NB[3]][((i / 72) % 2) as usize];
    let now = match now_i {
        0 => nb,
        1 => nb + d,
        _ => nb + 1,
    };
    Case { nb, d, key, key_ix: 0, now, set, name: 0, inter: 0, ocsp: 0, nb_off_min: 0 }
}

// unusual time encoding: not_before before 2050 but written as GeneralizedTime (RFC 5280 4.1.2.5
// obliges relying parties to process either encoding)
const ENCODING_LEN: u64 = (3 * 3 * 5) as u64;

fn encoding_case(i: u64) -> Case {
    let off = [345i16, 60, 840][(i % 3) as usize];
    let d = [1i64, 7 * DAY, MAX_VALIDITY][((i / 3) % 3) as usize];
    // local midnight 2050-01-01 in that offset, i.e. still 2049 in UTC
    let nb = Y2050 - off as i64 * 60;
    let now = match (i / 9) % 5 {
        0 => nb - 1,
        1 => nb,
        2 => nb + 1,
        3 => nb + d / 2,
        _ => nb + d,
    };
    Case { nb, d, key: 0, key_ix: 0, now, set: PinSet::Exact, name: 0, inter: 0, ocsp: 0, nb_off_min: off }
}

// random cases ---------------------------------------------------------------------------------

fn nb_strategy() -> impl Strategy<Value = i64> {
    prop_oneof![
        3 => 1i64..7_000_000_000,
        2 => 1_700_000_000i64..1_900_000_000,
        1 => (2_147_483_647 - 20 * DAY)..(2_147_483_647 + 2 * DAY),
        1 => (2_524_608_000 - 20 * DAY)..(2_524_608_000 + 2 * DAY),
        1 => 1i64..40 * DAY,
    ]
}

fn d_strategy() -> impl Strategy<Value = i64> {
    prop_oneof![
        3 => proptest::sample::select(TABLE_D.to_vec()),
        3 => 1i64..30 * DAY,
        3 => (MAX_VALIDITY - 100)..(MAX_VALIDITY + 100),
        1 => 1i64..5,
        1 => (MAX_VALIDITY + 1)..400 * DAY,
        1 => proptest::sample::select(vec![7 * DAY, 14 * DAY, 14 * DAY + 3600, 13 * DAY + 86_399, 28 * DAY, 3650 * DAY]),
    ]
}

fn set_strategy() -> impl Strategy<Value = PinSet> {
    prop_oneof![
        1 => Just(PinSet::Empty),
        4 => Just(PinSet::Exact),
        2 => (0u16..256).prop_map(|bit| PinSet::Flipped { bit }),
        3 => (0u8..41, any::<u64>()).prop_map(|(others, seed)| PinSet::ExactAmong { others, seed }),
        1 => (1u8..41, any::<u64>()).prop_map(|(n, seed)| PinSet::Others { n, seed }),
        1 => (0u16..256, 1u8..41, any::<u64>()).prop_map(|(bit, others, seed)| PinSet::FlippedAmong { bit, others, seed }),
    ]
}

pub fn case_strategy() -> impl Strategy<Value = Case> {
    let now_sel = prop_oneof![
        3 => (-3i64..=3).prop_map(|o| (0u8, o, 0u32)),
        3 => (-3i64..=3).prop_map(|o| (1u8, o, 0u32)),
        4 => any::<u32>().prop_map(|f| (2u8, 0i64, f)),
        1 => any::<u32>().prop_map(|f| (3u8, 0i64, f)),
        1 => any::<u32>().prop_map(|f| (4u8, 0i64, f)),
    ];
    (nb_strategy(), d_strategy(), prop_oneof![3 => Just(0u8), 1 => Just(1u8), 1 => Just(2u8)], 0u8..POOL as u8, now_sel, set_strategy(), 0u8..4, 0u8..5, prop_oneof![3 => Just(0u8), 1 => 1u8..200]).prop_map(|(nb, d, key, key_ix, (kind, off, frac), set, name, inter, ocsp)| {
        let na = nb + d;
        let span = d.abs().max(1);
        let now = match kind {
            0 => nb + off,
            1 => na + off,
            2 => nb.min(na) + ((frac as i64 as i128 * (span as i128 + 1)) >> 32) as i64,
            3 => nb.min(na) - 1 - ((frac as i64 as i128 * (2 * span as i128 + 10)) >> 32) as i64,
            _ => nb.max(na) + 1 + ((frac as i64 as i128 * (2 * span as i128 + 10)) >> 32) as i64,
        }
        .max(0);
        Case { nb, d, key, key_ix, now, set, name, inter, ocsp, nb_off_min: 0 }
    })
}

// ---------------------------------------------------------------------------------------------
// end-to-end half
// ---------------------------------------------------------------------------------------------

#[derive(Clone, Debug, Serialize, Deserialize, Hash)]
pub struct E2eCase {
    /// 0 certificate hashes, 1 native roots, 2 no validation, 3 custom TLS (hash verifier), 4 custom TLS (harness CA root)
    pub policy: u8,
    /// 0 pinned valid self-signed, 1 valid but another hash is pinned, 2 validity 15 days, 3 P-384,
    /// 4 expired, 5 not yet valid, 6 Ed25519, 7 harness-CA-signed P-256 leaf (10 days, pinned)
    pub identity: u8,
    pub flavor: u8,
}

const N_POLICY: u8 = 5;
const N_IDENTITY: u8 = 8;

fn policy_name(p: u8) -> &'static str {
    ["hashes", "native-roots", "no-validation", "custom-tls-hashes", "custom-tls-harness-ca"][(p % N_POLICY) as usize]
}
fn identity_name(i: u8) -> &'static str {
    ["pinned-valid", "wrong-hash", "validity-15d", "p384", "expired", "not-yet-valid", "ed25519", "ca-signed-leaf"][(i % N_IDENTITY) as usize]
}

/// The statement's admission predicate for the matrix.
fn admits(policy: u8, identity: u8) -> bool {
    match policy % N_POLICY {
        0 | 3 => matches!(identity % N_IDENTITY, 0 | 7),
        1 => false,
        2 => true,
        _ => identity % N_IDENTITY == 7,
    }
}

struct Ca {
    der: Vec<u8>,
    params: rcgen::CertificateParams,
    key: rcgen::KeyPair,
}

fn harness_ca() -> &'static Ca {
    static CA: OnceLock<Ca> = OnceLock::new();
    CA.get_or_init(|| {
        let key = rcgen::KeyPair::generate_for(&rcgen::PKCS_ECDSA_P256_SHA256).expect("ca key");
        let mut p = rcgen::CertificateParams::new(Vec::<String>::new()).expect("ca params");
        let mut dn = rcgen::DistinguishedName::new();
        dn.push(rcgen::DnType::CommonName, "verif harness CA");
        p.distinguished_name = dn;
        p.is_ca = rcgen::IsCa::Ca(rcgen::BasicConstraints::Unconstrained);
        p.key_usages = vec![rcgen::KeyUsagePurpose::KeyCertSign, rcgen::KeyUsagePurpose::DigitalSignature, rcgen::KeyUsagePurpose::CrlSign];
        let now = OffsetDateTime::now_utc();
        p.not_before = now - time::Duration::days(1);
        p.not_after = now + time::Duration::days(365);
        let der = p.self_signed(&key).expect("ca cert").der().to_vec();
        Ca { der, params: p, key }
    })
}

fn rcgen_identity(alg: &'static rcgen::SignatureAlgorithm, nb: OffsetDateTime, na: OffsetDateTime, ca: bool) -> Res<Identity> {
    let key = rcgen::KeyPair::generate_for(alg).map_err(|e| e.to_string())?;
    let mut p = rcgen::CertificateParams::new(vec!["localhost".to_string(), "127.0.0.1".to_string(), "::1".to_string()]).map_err(|e| e.to_string())?;
    let mut dn = rcgen::DistinguishedName::new();
    dn.push(rcgen::DnType::CommonName, "verif C10 e2e");
    p.distinguished_name = dn;
    p.not_before = nb;
    p.not_after = na;
    let der = if ca {
        let ca = harness_ca();
        let issuer = rcgen::Issuer::from_params(&ca.params, &ca.key);
        p.signed_by(&key, &issuer).map_err(|e| e.to_string())?.der().to_vec()
    } else {
        p.self_signed(&key).map_err(|e| e.to_string())?.der().to_vec()
    };
    let cert = Certificate::from_der(der).map_err(|e| e.to_string())?;
    Ok(Identity::new(CertificateChain::single(cert), PrivateKey::from_der_pkcs8(key.serialize_der())))
}

fn build_identity(sel: u8) -> Res<Identity> {
    use wtransport::tls::self_signed::time as wtime;
    let sans = ["localhost", "127.0.0.1", "::1"];
    let now = OffsetDateTime::now_utc();
    let h = time::Duration::hours(1);
    match sel % N_IDENTITY {
        0 | 1 => Identity::self_signed(sans).map_err(|e| e.to_string()),
        2 => Identity::self_signed_builder().subject_alt_names(sans).from_now_utc().validity_days(15).build().map_err(|e| e.to_string()),
        3 => rcgen_identity(&rcgen::PKCS_ECDSA_P384_SHA384, now - h, now - h + time::Duration::days(7), false),
        4 => {
            let wnow = wtime::OffsetDateTime::now_utc();
            Identity::self_signed_builder().subject_alt_names(sans).not_before(wnow - wtime::Duration::days(10)).not_after(wnow - wtime::Duration::days(1)).build().map_err(|e| e.to_string())
        }
        5 => {
            let wnow = wtime::OffsetDateTime::now_utc();
            Identity::self_signed_builder().subject_alt_names(sans).not_before(wnow + wtime::Duration::days(1)).offset_from_not_before(wtime::Duration::days(7)).build().map_err(|e| e.to_string())
        }
        6 => rcgen_identity(&rcgen::PKCS_ED25519, now - h, now - h + time::Duration::days(7), false),
        _ => rcgen_identity(&rcgen::PKCS_ECDSA_P256_SHA256, now - h, now - h + time::Duration::days(10), true),
    }
}

fn client_config(policy: u8, pin: Sha256Digest) -> ClientConfig {
    use wtransport::tls::client::build_default_tls_config;
    use wtransport::tls::rustls::RootCertStore;
    let b = ClientConfig::builder().with_bind_address(localhost0());
    match policy % N_POLICY {
        0 => b.with_server_certificate_hashes([pin]).build(),
        1 => b.with_native_certs().build(),
        2 => b.with_no_cert_validation().build(),
        3 => b.with_custom_tls(build_default_tls_config(Arc::new(RootCertStore::empty()), Some(Arc::new(ServerHashVerification::new([pin]))))).build(),
        _ => {
            let mut roots = RootCertStore::empty();
            roots.add(CertificateDer::from(harness_ca().der.clone())).expect("harness CA is a valid trust anchor");
            b.with_custom_tls(build_default_tls_config(Arc::new(roots), None)).build()
        }
    }
}

#[derive(Default)]
struct ServerLog {
    requests: u32,
    sessions: u32,
    errors: Vec<String>,
}

async fn exec_e2e(case: E2eCase) -> CaseResult {
    let identity = match build_identity(case.identity) {
        Ok(i) => i,
        Err(e) => return CaseResult::Skip(format!("identity {}: {e}", identity_name(case.identity))),
    };
    let leaf_hash = identity.certificate_chain().as_slice()[0].hash();
    // sanity: the library's hash is the SHA-256 of the DER (independent computation)
    if *leaf_hash.as_ref() != sha256(identity.certificate_chain().as_slice()[0].der()) {
        return viol("C10:hash-not-sha256-of-der", "Certificate::hash() differs from SHA-256 of the DER encoding");
    }
    let pin = if case.identity % N_IDENTITY == 1 {
        // another perfectly valid certificate is pinned, not the server's
        match build_identity(0) {
            Ok(o) => o.certificate_chain().as_slice()[0].hash(),
            Err(e) => return CaseResult::Skip(e),
        }
    } else {
        leaf_hash
    };
    let server_ep = match Endpoint::server(ServerConfig::builder().with_bind_address(localhost0()).with_identity(identity).build()) {
        Ok(e) => e,
        Err(e) => return CaseResult::Skip(format!("server endpoint: {e}")),
    };
    let addr = match server_ep.local_addr() {
        Ok(a) => a,
        Err(e) => return CaseResult::Skip(e.to_string()),
    };
    let log = Arc::new(Mutex::new(ServerLog::default()));
    let log2 = log.clone();
    let server = tokio::spawn(async move {
        let mut keep = Vec::new();
        loop {
            let incoming = server_ep.accept().await;
            match incoming.await {
                Ok(req) => {
                    log2.lock().unwrap().requests += 1;
                    match req.accept().await {
                        Ok(conn) => {
                            log2.lock().unwrap().sessions += 1;
                            keep.push(conn);
                        }
                        Err(e) => log2.lock().unwrap().errors.push(format!("accept: {e}")),
                    }
                }
                Err(e) => log2.lock().unwrap().errors.push(format!("incoming: {e}")),
            }
        }
    });
    let client_ep = match Endpoint::client(client_config(case.policy, pin)) {
        Ok(e) => e,
        Err(e) => {
            server.abort();
            return CaseResult::Skip(format!("client endpoint: {e}"));
        }
    };
    let want = admits(case.policy, case.identity);
    let cell = format!("policy {} x identity {}", policy_name(case.policy), identity_name(case.identity));
    let r = tokio::time::timeout(Duration::from_secs(6), client_ep.connect(wire::url_for(addr, "/c10"))).await;
    let out = match (r, want) {
        (Ok(Ok(conn)), true) => {
            // the session exists on both sides
            let mut ok = false;
            for _ in 0..300 {
                if log.lock().unwrap().sessions >= 1 {
                    ok = true;
                    break;
                }
                tokio::time::sleep(Duration::from_millis(5)).await;
            }
            drop(conn);
            if ok {
                CaseResult::Pass { nontrivial: true, labels: vec!["e2e:admitted"] }
            } else {
                CaseResult::Timeout(format!("{cell}: client connected but the server produced no session within 1.5 s"))
            }
        }
        (Ok(Ok(_conn)), false) => viol(format!("C10:e2e-admits:{}/{}", policy_name(case.policy), identity_name(case.identity)), format!("{cell}: connect() succeeded although the policy does not admit this identity")),
        (Ok(Err(e)), true) => CaseResult::Violation { signature: format!("C10:e2e-refuses:{}/{}", policy_name(case.policy), identity_name(case.identity)), message: format!("{cell}: connect() failed with '{e}' although the policy admits this identity") },
        (Err(_), true) => CaseResult::Timeout(format!("{cell}: connect() did not complete within 6 s")),
        (refused, false) => {
            // the server must notice the failed handshake without ever producing a request/session
            let by_timeout = refused.is_err();
            for _ in 0..60 {
                if !log.lock().unwrap().errors.is_empty() {
                    break;
                }
                tokio::time::sleep(Duration::from_millis(5)).await;
            }
            tokio::time::sleep(Duration::from_millis(30)).await;
            let g = log.lock().unwrap();
            if g.requests > 0 || g.sessions > 0 {
                viol("C10:e2e-server-session-after-refusal", format!("{cell}: the client refused the server, yet the server application obtained {} session request(s) / {} session(s)", g.requests, g.sessions))
            } else {
                let mut labels = vec!["e2e:refused"];
                if case.policy % N_POLICY == 1 {
                    labels.push("e2e:native-roots-refuse");
                }
                if by_timeout {
                    labels.push("e2e:refused-by-timeout");
                }
                if !g.errors.is_empty() {
                    labels.push("e2e:server-saw-handshake-failure");
                }
                CaseResult::Pass { nontrivial: true, labels }
            }
        }
    };
    server.abort();
    out
}

/// An unexpected refusal of an admissible identity could also be a lost datagram on a loaded
/// machine: it counts only when it reproduces on 3 of 3 executions.
pub fn judge_e2e(case: &E2eCase) -> Outcome {
    let exec = || run_on(case.flavor, Duration::from_secs(12), exec_e2e(case.clone())).unwrap_or_else(|| CaseResult::Timeout("case did not finish in 12 s".into()));
    let first = judge(exec, true, "C10:e2e-timeout");
    if let Outcome::Fail { signature, .. } = &first {
        if signature.starts_with("C10:e2e-refuses:") {
            for _ in 0..2 {
                match judge(exec, true, "C10:e2e-timeout") {
                    Outcome::Fail { signature: s2, .. } if s2 == *signature => {}
                    Outcome::Fail { signature, message } => return Outcome::fail(signature, message),
                    _ => return Outcome::Inconclusive(format!("{signature} did not reproduce")),
                }
            }
        }
    }
    first
}

// ---------------------------------------------------------------------------------------------

fn record(run: &Run, check: &str, case: Value, fp: u64, o: Outcome) {
    match o {
        Outcome::Pass { nontrivial, labels } => {
            run.eval(check, nontrivial, fp);
            for l in labels {
                run.label(l);
            }
            if nontrivial && run.wants_sample(check) {
                run.sample(check, || vcore::abbreviate(case));
            }
        }
        Outcome::Fail { signature, message } => {
            run.eval(check, false, 0);
            run.fail(check, &signature, &message, case);
        }
        Outcome::Inconclusive(w) => run.inconclusive(&format!("{check}: {w}")),
    }
}

pub fn run(run: &Run) {
    run.set_rule(RULE);
    run.assume("verification times are whole seconds between 1970 and year 2190 (rustls hands the verifier its time provider's UnixTime; X.509 validity has 1-second resolution)");
    run.assume("'validity period at most 14 days' is read as not_after - not_before <= 14 * 86400 s, the reading of the W3C text used by browsers");
    run.assume("end-to-end identities are generated relative to the wall clock (valid ones from now or now - 1 h, expired ones ending now - 1 d, future ones starting now + 1 d); no verdict depends on sub-day timing");
    run.trust("rcgen + ring to emit certificates with the requested validity and key (cross-checked per certificate with x509-parser); sha2 for the reference digest; quinn / loop-back UDP for the handshakes");
    run.extra("verifier_access", json!("wtransport::tls::client::ServerHashVerification::new(hashes) (public), called through rustls::client::danger::ServerCertVerifier::verify_server_cert with an injected UnixTime; end to end through ClientConfig::builder().with_server_certificate_hashes / with_native_certs / with_no_cert_validation / with_custom_tls(tls::client::build_default_tls_config(..))"));
    let workers = run.workers();
    // warm the key pool outside the workers
    let _ = key_pair(0, 0);

    // 1. exhaustive boundary table
    vcore::par_ranges(workers, TABLE_LEN, |_w, range| {
        for i in range {
            let case = table_case(i);
            let o = exec_verifier(&case);
            record(run, "verifier-table", serde_json::to_value(&case).unwrap(), vcore::hash64(&case), o);
        }
    });
    run.section_exhaustive("verifier-table", true, "4 not_before anchors x 7 validity lengths x 3 key algorithms x 7 positions of now x 5 hash-set shapes = 2940 cells");

    vcore::par_ranges(workers, DEGENERATE_LEN, |_w, range| {
        for i in range {
            let case = degenerate_case(i);
            let o = exec_verifier(&case);
            record(run, "verifier-degenerate", serde_json::to_value(&case).unwrap(), vcore::hash64(&case), o);
        }
    });
    run.section_exhaustive("verifier-degenerate", true, "validity length in {0, -1 s, -1 d, -15 d} x now in {nb, na, nb+1} x 3 key algorithms x {pinned, empty set} x 2 anchors");

    vcore::par_ranges(workers, ENCODING_LEN, |_w, range| {
        for i in range {
            let case = encoding_case(i);
            let o = exec_verifier(&case);
            record(run, "verifier-encoding", serde_json::to_value(&case).unwrap(), vcore::hash64(&case), o);
        }
    });
    run.section_exhaustive("verifier-encoding", true, "pinned P-256 certificate whose pre-2050 not_before is encoded as GeneralizedTime (3 instants) x validity {1 s, 7 d, 14 d} x now in {nb-1, nb, nb+1, mid, na}");

    // 2. random cases
    prop_search(run, Search { check: "verifier-random", cases: run.tier.pick(60_000, 3_000_000), workers, max_shrink_iters: 400 }, case_strategy, exec_verifier, |c| serde_json::to_value(c).unwrap());

    // 3. end-to-end matrix (sequential: the native-roots policy touches process environment variables)
    let flavors: &[u8] = run.tier.pick(&[0, 1], &[0, 1, 2]);
    let rounds = run.tier.pick(1, 4);
    for _round in 0..rounds {
        for &flavor in flavors {
            for policy in 0..N_POLICY {
                for identity in 0..N_IDENTITY {
                    let case = E2eCase { policy, identity, flavor };
                    let o = judge_e2e(&case);
                    record(run, "e2e-matrix", serde_json::to_value(&case).unwrap(), vcore::hash64(&case), o);
                }
            }
        }
    }
    run.section_exhaustive("e2e-matrix", true, "5 client trust policies x 8 server identities x runtime flavours, real handshakes on 127.0.0.1");

    for l in VERIFIER_ESSENTIAL {
        run.essential(l);
    }
    for l in ["e2e:admitted", "e2e:refused", "e2e:native-roots-refuse", "e2e:server-saw-handshake-failure"] {
        run.essential(l);
    }
}

pub fn replay(run: &Run, doc: &Value) -> bool {
    let check = doc["check"].as_str().unwrap_or("");
    match check {
        "verifier-table" | "verifier-random" | "verifier-degenerate" | "verifier-encoding" => {
            let Ok(case) = serde_json::from_value::<Case>(doc["case"].clone()) else { return false };
            let o = exec_verifier(&case);
            record(run, check, doc["case"].clone(), vcore::hash64(&case), o);
            true
        }
        "e2e-matrix" => {
            let Ok(case) = serde_json::from_value::<E2eCase>(doc["case"].clone()) else { return false };
            let o = judge_e2e(&case);
            record(run, check, doc["case"].clone(), vcore::hash64(&case), o);
            true
        }
        _ => false,
    }
}
