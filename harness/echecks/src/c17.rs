//! C17 (end-to-end half) — foreign-session traffic is never delivered.

use crate::common::*;
use proptest::prelude::*;
use refcodec::registry as reg;
use serde::{Deserialize, Serialize};
use serde_json::Value;
use std::collections::BTreeMap;
use std::sync::{Arc, Mutex};
use std::time::Duration;
use vcore::{prop_search, Outcome, Run, Search};
use wire::*;

const RULE: &str = "end-to-end: the raw peer interleaves live traffic of the session (WT uni / bidi streams with tagged payloads, datagrams) with streams and datagrams naming a different, valid but unused session id (4, 8, 2^k*4 up to 2^62-4; for the client role also ids that would belong to later requests), in generated order, on both roles; the application issues its accept / receive calls either awaited to completion or polled 1..3 times, dropped and re-issued (the calls are documented as cancel safe). Oracle: no foreign stream or datagram is ever returned by accept_uni / accept_bi / receive_datagram; every foreign stream is refused with the WebTransport buffered-stream-rejected code 0x3994bd84 (STOP_SENDING on the peer's send half) once the application asks for streams; all live streams are delivered with their bytes, a live datagram still arrives, and the session stays up. Non-trivial: >= 1 foreign element between two live ones; distinct = distinct case";

#[derive(Clone, Debug, Serialize, Deserialize)]
pub enum Item {
    LiveUni(u8),
    LiveBi(u8),
    LiveDatagram(u8),
    ForeignUni(u64),
    ForeignBi(u64),
    ForeignDatagram(u64),
}

#[derive(Clone, Debug, Serialize, Deserialize)]
pub struct Case {
    pub flavor: u8,
    pub wt_is_server: bool,
    pub items: Vec<Item>,
    /// how the application issues accept_uni / accept_bi / receive_datagram (documented as cancel
    /// safe): empty = awaited to completion; otherwise call i is polled `plan[i % len] % 4` times and
    /// dropped if still pending (0 = awaited to completion), then re-issued 1 ms later — the shape of
    /// a `select!` loop whose other branch is ready
    #[serde(default)]
    pub accept_plan: Vec<u8>,
}

/// One accept call under the plan: Some(result) or None when the call was cancelled.
async fn planned<T, F: std::future::Future<Output = T>>(plan: &[u8], i: &mut usize, fut: F) -> Option<T> {
    if plan.is_empty() {
        return Some(fut.await);
    }
    let polls = plan[*i % plan.len()] % 4;
    *i += 1;
    if polls == 0 {
        return Some(fut.await);
    }
    match cancel_after(fut, polls as usize).await {
        Some(v) => Some(v),
        None => {
            tokio::time::sleep(Duration::from_millis(1)).await;
            None
        }
    }
}

fn foreign_id() -> impl Strategy<Value = u64> {
    prop_oneof![
        3 => proptest::sample::select(vec![4u64, 8, 12, 16, 252, 256, 16380, 16384]),
        2 => (2u32..60).prop_map(|k| (1u64 << k) * 4),
        1 => Just((1u64 << 62) - 4),
        1 => (1u64..(1 << 60)).prop_map(|q| q * 4),
    ]
}

pub fn case_strategy() -> impl Strategy<Value = Case> {
    let item = prop_oneof![
        2 => any::<u8>().prop_map(Item::LiveUni),
        2 => any::<u8>().prop_map(Item::LiveBi),
        1 => any::<u8>().prop_map(Item::LiveDatagram),
        2 => foreign_id().prop_map(Item::ForeignUni),
        2 => foreign_id().prop_map(Item::ForeignBi),
        1 => foreign_id().prop_map(Item::ForeignDatagram),
    ];
    (0u8..3, any::<bool>(), proptest::collection::vec(item, 2..12), prop_oneof![1 => Just(Vec::new()), 1 => Just(vec![1u8]), 1 => proptest::collection::vec(0u8..4, 1..5)])
        .prop_map(|(flavor, wt_is_server, items, accept_plan)| Case { flavor, wt_is_server, items, accept_plan })
}

#[derive(Default)]
struct Got {
    uni: Vec<Vec<u8>>,
    bi: Vec<Vec<u8>>,
    dgram: Vec<Vec<u8>>,
    errors: Vec<String>,
}

async fn exec_async(case: Arc<Case>) -> CaseResult {
    let (conn, raw_conn, session, _keep): (wtransport::Connection, quinn::Connection, u64, Box<dyn std::any::Any + Send>) = if case.wt_is_server {
        match raw_client_vs_wt_server(&Tuning::default(), &Tuning::default()).await {
            Ok(p) => (p.server.clone(), p.raw.conn.clone(), p.raw.session_id, Box::new(p)),
            Err(e) => return CaseResult::Skip(e),
        }
    } else {
        match wt_client_vs_raw_server(&Tuning::default(), &Tuning::default()).await {
            Ok(p) => (p.client.clone(), p.raw.conn.clone(), p.raw.session_id, Box::new(p)),
            Err(e) => return CaseResult::Skip(e),
        }
    };
    let got = Arc::new(Mutex::new(Got::default()));
    // the application keeps accepting
    let mut app = Vec::new();
    {
        let c = conn.clone();
        let g = got.clone();
        let plan = case.accept_plan.clone();
        app.push(tokio::spawn(async move {
            let mut i = 0usize;
            loop {
                let Some(res) = planned(&plan, &mut i, c.accept_uni()).await else { continue };
                match res {
                    Ok(mut r) => {
                        let g = g.clone();
                        tokio::spawn(async move {
                            let mut data = Vec::new();
                            let mut b = [0u8; 256];
                            while let Ok(Some(n)) = r.read(&mut b).await {
                                data.extend_from_slice(&b[..n]);
                            }
                            g.lock().unwrap().uni.push(data);
                        });
                    }
                    Err(e) => {
                        g.lock().unwrap().errors.push(format!("accept_uni: {}", conn_err(&e)));
                        break;
                    }
                }
            }
        }));
        let c = conn.clone();
        let g = got.clone();
        let plan = case.accept_plan.clone();
        app.push(tokio::spawn(async move {
            let mut i = 1usize;
            loop {
                let Some(res) = planned(&plan, &mut i, c.accept_bi()).await else { continue };
                match res {
                    Ok((_s, mut r)) => {
                        let g = g.clone();
                        tokio::spawn(async move {
                            let mut data = Vec::new();
                            let mut b = [0u8; 256];
                            while let Ok(Some(n)) = r.read(&mut b).await {
                                data.extend_from_slice(&b[..n]);
                            }
                            g.lock().unwrap().bi.push(data);
                        });
                    }
                    Err(e) => {
                        g.lock().unwrap().errors.push(format!("accept_bi: {}", conn_err(&e)));
                        break;
                    }
                }
            }
        }));
        let c = conn.clone();
        let g = got.clone();
        let plan = case.accept_plan.clone();
        app.push(tokio::spawn(async move {
            let mut i = 2usize;
            loop {
                let Some(res) = planned(&plan, &mut i, c.receive_datagram()).await else { continue };
                match res {
                    Ok(d) => g.lock().unwrap().dgram.push(d.payload().to_vec()),
                    Err(e) => {
                        g.lock().unwrap().errors.push(format!("receive_datagram: {}", conn_err(&e)));
                        break;
                    }
                }
            }
        }));
    }
    // the raw peer plays the script
    let mut live_uni: Vec<Vec<u8>> = Vec::new();
    let mut live_bi: Vec<Vec<u8>> = Vec::new();
    let mut live_dg: Vec<Vec<u8>> = Vec::new();
    let mut foreign_sends: BTreeMap<usize, quinn::SendStream> = BTreeMap::new();
    let mut held: Vec<Box<dyn std::any::Any + Send>> = Vec::new();
    let mut foreign_between = false;
    let mut seen_live = false;
    let mut pending_foreign = false;
    for (i, it) in case.items.iter().enumerate() {
        match it {
            Item::LiveUni(t) | Item::LiveBi(t) | Item::LiveDatagram(t) => {
                if seen_live && pending_foreign {
                    foreign_between = true;
                }
                seen_live = true;
                let data = format!("live-{i}-{t}").into_bytes();
                match it {
                    Item::LiveUni(_) => {
                        if let Ok(mut s) = raw_open_wt_uni(&raw_conn, session).await {
                            let _ = s.write_all(&data).await;
                            let _ = s.finish();
                            held.push(Box::new(s));
                            live_uni.push(data);
                        }
                    }
                    Item::LiveBi(_) => {
                        if let Ok((mut s, r)) = raw_open_wt_bi(&raw_conn, session).await {
                            let _ = s.write_all(&data).await;
                            let _ = s.finish();
                            held.push(Box::new((s, r)));
                            live_bi.push(data);
                        }
                    }
                    _ => {
                        if raw_conn.send_datagram(refcodec::enc_datagram(session, &data).into()).is_ok() {
                            live_dg.push(data);
                        }
                        tokio::time::sleep(Duration::from_millis(3)).await;
                    }
                }
            }
            Item::ForeignUni(id) | Item::ForeignBi(id) | Item::ForeignDatagram(id) => {
                let id = if *id == session { id + 4 } else { *id };
                pending_foreign = seen_live;
                let data = format!("FOREIGN-{i}").into_bytes();
                match it {
                    Item::ForeignUni(_) => {
                        if let Ok(mut s) = raw_conn.open_uni().await {
                            let mut b = refcodec::enc_uni_header_wt(id);
                            b.extend_from_slice(&data);
                            let _ = s.write_all(&b).await;
                            foreign_sends.insert(i, s);
                        }
                    }
                    Item::ForeignBi(_) => {
                        if let Ok((mut s, r)) = raw_conn.open_bi().await {
                            let mut b = refcodec::enc_bi_header_wt(id);
                            b.extend_from_slice(&data);
                            let _ = s.write_all(&b).await;
                            foreign_sends.insert(i, s);
                            held.push(Box::new(r));
                        }
                    }
                    _ => {
                        let _ = raw_conn.send_datagram(refcodec::enc_datagram(id, &data).into());
                    }
                }
            }
        }
    }
    // a final live stream of each kind flushes the hand-off queues past every foreign stream
    for bidi in [false, true] {
        let data = format!("live-final-{bidi}").into_bytes();
        if bidi {
            if let Ok((mut s, r)) = raw_open_wt_bi(&raw_conn, session).await {
                let _ = s.write_all(&data).await;
                let _ = s.finish();
                held.push(Box::new((s, r)));
                live_bi.push(data);
            }
        } else if let Ok(mut s) = raw_open_wt_uni(&raw_conn, session).await {
            let _ = s.write_all(&data).await;
            let _ = s.finish();
            held.push(Box::new(s));
            live_uni.push(data);
        }
    }
    // wait for all live streams
    let deadline = tokio::time::Instant::now() + Duration::from_secs(6);
    loop {
        {
            let g = got.lock().unwrap();
            if let Some(e) = g.errors.first() {
                return viol("C17:e2e:session-disturbed", format!("the live session ended while foreign traffic was present: {e}"));
            }
            if g.uni.len() >= live_uni.len() && g.bi.len() >= live_bi.len() {
                break;
            }
        }
        if tokio::time::Instant::now() >= deadline {
            let g = got.lock().unwrap();
            return CaseResult::Timeout(format!("live streams delivered: uni {}/{} bidi {}/{}", g.uni.len(), live_uni.len(), g.bi.len(), live_bi.len()));
        }
        tokio::time::sleep(Duration::from_millis(3)).await;
    }
    tokio::time::sleep(Duration::from_millis(40)).await;
    {
        let g = got.lock().unwrap();
        let mut u = g.uni.clone();
        let mut lu = live_uni.clone();
        u.sort();
        lu.sort();
        if u != lu {
            let bad: Vec<String> = g.uni.iter().filter(|d| !live_uni.contains(d)).map(|d| String::from_utf8_lossy(d).to_string()).collect();
            return viol("C17:e2e:uni-delivered", format!("accept_uni returned streams that are not the session's: {:?} (live {} delivered {})", bad, live_uni.len(), g.uni.len()));
        }
        let mut b = g.bi.clone();
        let mut lb = live_bi.clone();
        b.sort();
        lb.sort();
        if b != lb {
            let bad: Vec<String> = g.bi.iter().filter(|d| !live_bi.contains(d)).map(|d| String::from_utf8_lossy(d).to_string()).collect();
            return viol("C17:e2e:bidi-delivered", format!("accept_bi returned streams that are not the session's: {:?}", bad));
        }
        for d in &g.dgram {
            if !live_dg.contains(d) {
                return viol("C17:e2e:datagram-delivered", format!("receive_datagram returned a datagram of another session: {:?}", String::from_utf8_lossy(d)));
            }
        }
    }
    // every foreign stream is refused with the buffered-stream-rejected code
    for (i, s) in foreign_sends.iter_mut() {
        match tokio::time::timeout(Duration::from_secs(4), s.stopped()).await {
            Ok(Ok(Some(c))) if c.into_inner() == reg::WT_BUFFERED_STREAM_REJECTED => {}
            Ok(other) => return viol("C17:e2e:refusal-code", format!("foreign stream (item #{i}) was answered with {:?}, expected STOP_SENDING 0x3994bd84", other.map(|c| c.map(|v| v.into_inner())))),
            Err(_) => return CaseResult::Timeout(format!("foreign stream (item #{i}) was never refused")),
        }
    }
    if raw_conn.close_reason().is_some() {
        return viol("C17:e2e:session-disturbed", format!("connection closed: {:?}", raw_conn.close_reason().map(|e| close_seen(&e))));
    }
    for t in app {
        t.abort();
    }
    drop(held);
    let mut labels = vec![if case.wt_is_server { "role:server" } else { "role:client" }];
    if !foreign_sends.is_empty() {
        labels.push("foreign-stream-refused");
    }
    if case.items.iter().any(|i| matches!(i, Item::ForeignDatagram(_))) {
        labels.push("foreign-datagram");
    }
    CaseResult::Pass { nontrivial: foreign_between, labels }
}

pub fn exec(case: &Case) -> CaseResult {
    let c = Arc::new(case.clone());
    match run_on(case.flavor, Duration::from_secs(30), exec_async(c)) {
        Some(r) => r,
        None => CaseResult::Timeout("case did not finish in 30 s".into()),
    }
}

pub fn run(run: &Run) {
    run.set_rule(RULE);
    run.assume("foreign streams are refused when the application asks for streams of that kind (the filter runs inside accept_uni / accept_bi); the application keeps accepting");
    prop_search(
        run,
        Search { check: "foreign-session", cases: run.tier.pick(1200, 40000), workers: 8, max_shrink_iters: 60 },
        case_strategy,
        |c| judge(|| exec(c), true, "C17:e2e:live-not-delivered"),
        |c| serde_json::to_value(c).unwrap(),
    );
    for l in ["role:server", "role:client", "foreign-stream-refused", "foreign-datagram"] {
        run.essential(l);
    }
}

pub fn replay(run: &Run, doc: &Value) -> bool {
    if doc["check"].as_str() != Some("foreign-session") {
        return false;
    }
    let Ok(case) = serde_json::from_value::<Case>(doc["case"].clone()) else {
        return false;
    };
    run.eval("foreign-session", true, 1);
    for _ in 0..3 {
        if let Outcome::Fail { signature, message } = judge(|| exec(&case), true, "C17:e2e:live-not-delivered") {
            run.fail("foreign-session", &signature, &message, doc["case"].clone());
            break;
        }
    }
    true
}
