//! C08 — every peer-opened stream is delivered exactly once at any acceptance pace.

use crate::common::*;
use proptest::prelude::*;
use serde::{Deserialize, Serialize};
use serde_json::Value;
use std::collections::BTreeMap;
use std::sync::atomic::{AtomicUsize, Ordering};
use std::sync::{Arc, Mutex};
use std::time::Duration;
use vcore::{prop_search, Outcome, Run, Search};
use wire::*;
use wtransport::Connection;

const RULE: &str = "case = runtime flavour x receiver's max concurrent uni/bidi streams in {2,4,8,default} x N in 1..(6 x limit) peer-opened streams (uni/bidi mix), each carrying a unique tag and finished x 1..4 accepting tasks per kind x per-accept behaviour in {immediate, delay, cancel after k polls (k in 0..4) then re-issue} x sender (wtransport or raw peer, either role) x sender pace x occasional streams naming a foreign session (raw sender; must not be delivered) x occasional streams that are opened and abandoned without a byte (opening future dropped un-awaited / raw stream finished or reset at once; nothing to deliver, nothing else may be lost). Oracle: the multiset of (stream id, tag) returned by all accept calls equals the multiset opened for this session; bytes are the stream's own; no further stream appears after all were delivered. Non-trivial: >= 1 cancelled accept or >= 2 accepting tasks of a kind or N > limit; distinct = distinct case";

#[derive(Clone, Debug, Serialize, Deserialize)]
pub enum Beh {
    Immediate,
    Delay(u8),
    Cancel(u8),
}

#[derive(Clone, Debug, Serialize, Deserialize)]
pub struct Case {
    pub flavor: u8,
    pub limit: u8,
    /// per stream: bidi?
    pub streams: Vec<bool>,
    pub uni_tasks: u8,
    pub bi_tasks: u8,
    pub plan: Vec<Beh>,
    /// 0 wt sender (client->server), 1 wt sender (server->client), 2 raw client sender, 3 raw server sender
    pub sender: u8,
    pub pace_ms: u8,
    /// positions (stream indices) before which a foreign-session stream is injected (raw senders)
    pub foreign: Vec<u8>,
    pub payload_len: u16,
    /// receiver's flow-control windows: 0 = 1 KiB per stream (3 KiB per connection), 1 = 4 KiB, else default
    #[serde(default = "default_window")]
    pub window: u8,
    /// positions (stream indices) before which the sender opens a stream of that kind and abandons
    /// it without a byte: a wtransport sender drops the opening future un-awaited, a raw sender
    /// finishes (even positions) or resets (odd positions) the stream before writing anything
    #[serde(default)]
    pub abandoned: Vec<u8>,
}

fn default_window() -> u8 {
    2
}

fn limit_value(sel: u8) -> Option<u32> {
    match sel % 4 {
        0 => Some(2),
        1 => Some(4),
        2 => Some(8),
        _ => None,
    }
}

pub fn case_strategy() -> impl Strategy<Value = Case> {
    (0u8..3, 0u8..4).prop_flat_map(|(flavor, limit)| {
        let max_n = limit_value(limit).map(|l| l as usize * 6).unwrap_or(40);
        (
            Just(flavor),
            Just(limit),
            proptest::collection::vec(any::<bool>(), 1..=max_n),
            1u8..=4,
            1u8..=4,
            proptest::collection::vec(prop_oneof![3 => Just(Beh::Immediate), 2 => (1u8..12).prop_map(Beh::Delay), 4 => (0u8..5).prop_map(Beh::Cancel)], 1..8),
            0u8..4,
            prop_oneof![3 => Just(0u8), 1 => 1u8..4],
            (proptest::collection::vec(any::<u8>(), 0..3), prop_oneof![2 => Just(Vec::new()), 1 => proptest::collection::vec(any::<u8>(), 1..3)]),
            prop_oneof![Just(8u16), 8u16..200, 200u16..3000],
            0u8..4,
        )
    })
    .prop_map(|(flavor, limit, streams, uni_tasks, bi_tasks, plan, sender, pace_ms, (foreign, abandoned), payload_len, window)| Case { flavor, limit, streams, uni_tasks, bi_tasks, plan, sender, pace_ms, foreign, payload_len, window, abandoned })
}

fn tag_payload(i: usize, len: usize) -> Vec<u8> {
    let mut v = (i as u64 + 1).to_be_bytes().to_vec();
    v.extend((8..len.max(8)).map(|o| pbyte(77 + i as u64, o)));
    v
}

#[derive(Default)]
struct Shared {
    opened: BTreeMap<u64, usize>,
    delivered: Vec<(u64, Vec<u8>)>,
    errors: Vec<String>,
    cancelled: usize,
}

async fn accept_task(conn: Connection, bidi: bool, plan: Vec<Beh>, offset: usize, shared: Arc<Mutex<Shared>>, done: Arc<tokio::sync::Notify>, finished: Arc<std::sync::atomic::AtomicBool>) {
    let mut k = offset;
    let mut readers = Vec::new();
    let mut just_cancelled = false;
    loop {
        if finished.load(Ordering::SeqCst) {
            break;
        }
        // "cancel then re-issue": the accept that follows a cancelled one is awaited to the end
        let beh = if just_cancelled { Beh::Immediate } else { plan[k % plan.len()].clone() };
        just_cancelled = false;
        k += 1;
        if let Beh::Delay(ms) = beh {
            tokio::time::sleep(Duration::from_millis(ms as u64)).await;
        }
        let polls = if let Beh::Cancel(p) = beh { p as usize } else { usize::MAX };
        enum Got {
            Uni(wtransport::RecvStream),
            Bi(wtransport::SendStream, wtransport::RecvStream),
        }
        let one = async {
            if bidi {
                conn.accept_bi().await.map(|(s, r)| Got::Bi(s, r))
            } else {
                conn.accept_uni().await.map(Got::Uni)
            }
        };
        let res = tokio::select! {
            r = cancel_after(one, polls) => r,
            _ = done.notified() => break,
        };
        match res {
            None => {
                shared.lock().unwrap().cancelled += 1;
                just_cancelled = true;
                tokio::task::yield_now().await;
                continue;
            }
            Some(Err(e)) => {
                if !finished.load(Ordering::SeqCst) {
                    shared.lock().unwrap().errors.push(format!("accept_{} failed: {}", if bidi { "bi" } else { "uni" }, conn_err(&e)));
                }
                break;
            }
            Some(Ok(got)) => {
                let sh = shared.clone();
                readers.push(tokio::spawn(async move {
                    let (mut r, s) = match got {
                        Got::Uni(r) => (r, None),
                        Got::Bi(s, r) => (r, Some(s)),
                    };
                    let id = r.id().into_u64();
                    let mut data = Vec::new();
                    let mut buf = [0u8; 1024];
                    loop {
                        match r.read(&mut buf).await {
                            Ok(Some(n)) => data.extend_from_slice(&buf[..n]),
                            Ok(None) => break,
                            Err(e) => {
                                sh.lock().unwrap().errors.push(format!("read on delivered stream {id}: {e}"));
                                return;
                            }
                        }
                    }
                    if let Some(mut s) = s {
                        let _ = s.finish().await;
                    }
                    sh.lock().unwrap().delivered.push((id, data));
                }));
            }
        }
    }
    for r in readers {
        let _ = tokio::time::timeout(Duration::from_secs(5), r).await;
    }
}

async fn exec_async(case: Arc<Case>) -> CaseResult {
    let lim = limit_value(case.limit);
    let win = match case.window {
        0 => Some(1024u32),
        1 => Some(4096),
        _ => None,
    };
    let recv_tuning = Tuning { max_concurrent_uni: lim, max_concurrent_bidi: lim.map(|l| l + 1), stream_receive_window: win, receive_window: win.map(|w| w * 3), ..Default::default() };
    let shared = Arc::new(Mutex::new(Shared::default()));
    let n = case.streams.len();
    // set up the pair; `receiver` is always wtransport
    enum Sender {
        Wt(Connection),
        Raw(quinn::Connection, u64),
    }
    let (receiver, sender, _keep): (Connection, Sender, Box<dyn std::any::Any + Send>) = match case.sender % 4 {
        0 => match wt_pair(&recv_tuning, &Tuning::default()).await {
            Ok(p) => (p.server.clone(), Sender::Wt(p.client.clone()), Box::new(p)),
            Err(e) => return CaseResult::Skip(e),
        },
        1 => match wt_pair(&Tuning::default(), &recv_tuning).await {
            Ok(p) => (p.client.clone(), Sender::Wt(p.server.clone()), Box::new(p)),
            Err(e) => return CaseResult::Skip(e),
        },
        2 => match raw_client_vs_wt_server(&recv_tuning, &Tuning::default()).await {
            Ok(p) => (p.server.clone(), Sender::Raw(p.raw.conn.clone(), p.raw.session_id), Box::new(p)),
            Err(e) => return CaseResult::Skip(e),
        },
        _ => match wt_client_vs_raw_server(&recv_tuning, &Tuning::default()).await {
            Ok(p) => (p.client.clone(), Sender::Raw(p.raw.conn.clone(), p.raw.session_id), Box::new(p)),
            Err(e) => return CaseResult::Skip(e),
        },
    };
    let done = Arc::new(tokio::sync::Notify::new());
    let finished = Arc::new(std::sync::atomic::AtomicBool::new(false));
    let mut acceptors = Vec::new();
    for j in 0..case.uni_tasks {
        acceptors.push(tokio::spawn(accept_task(receiver.clone(), false, case.plan.clone(), j as usize, shared.clone(), done.clone(), finished.clone())));
    }
    for j in 0..case.bi_tasks {
        acceptors.push(tokio::spawn(accept_task(receiver.clone(), true, case.plan.clone(), 3 + j as usize, shared.clone(), done.clone(), finished.clone())));
    }
    // sender
    let opened_count = Arc::new(AtomicUsize::new(0));
    let mut send_tasks = Vec::new();
    let foreign_positions: Vec<usize> = case.foreign.iter().map(|f| *f as usize % n).collect();
    let abandoned_positions: Vec<usize> = case.abandoned.iter().map(|f| *f as usize % n).collect();
    for (i, bidi) in case.streams.iter().cloned().enumerate() {
        if case.pace_ms > 0 {
            tokio::time::sleep(Duration::from_millis(case.pace_ms as u64)).await;
        }
        let data = tag_payload(i, case.payload_len as usize);
        let sh = shared.clone();
        let oc = opened_count.clone();
        match &sender {
            Sender::Wt(conn) => {
                let conn = conn.clone();
                let abandon = abandoned_positions.contains(&i);
                send_tasks.push(tokio::spawn(async move {
                    let r: Res<()> = async {
                        if abandon {
                            // an opening that is given up before it is awaited (documented: the
                            // stream is simply closed during its initialisation)
                            if bidi {
                                drop(conn.open_bi().await.map_err(|e| conn_err(&e))?);
                            } else {
                                drop(conn.open_uni().await.map_err(|e| conn_err(&e))?);
                            }
                        }
                        if bidi {
                            let (mut s, mut r) = conn.open_bi().await.map_err(|e| conn_err(&e))?.await.map_err(|e| e.to_string())?;
                            sh.lock().unwrap().opened.insert(s.id().into_u64(), i);
                            oc.fetch_add(1, Ordering::SeqCst);
                            s.write_all(&data).await.map_err(|e| e.to_string())?;
                            s.finish().await.map_err(|e| e.to_string())?;
                            let mut b = [0u8; 16];
                            let _ = r.read(&mut b).await;
                        } else {
                            let mut s = conn.open_uni().await.map_err(|e| conn_err(&e))?.await.map_err(|e| e.to_string())?;
                            sh.lock().unwrap().opened.insert(s.id().into_u64(), i);
                            oc.fetch_add(1, Ordering::SeqCst);
                            s.write_all(&data).await.map_err(|e| e.to_string())?;
                            s.finish().await.map_err(|e| e.to_string())?;
                        }
                        Ok(())
                    }
                    .await;
                    if let Err(e) = r {
                        sh.lock().unwrap().errors.push(format!("sender #{i}: {e}"));
                    }
                }));
            }
            Sender::Raw(conn, session) => {
                let conn = conn.clone();
                let session = *session;
                let inject_foreign = foreign_positions.contains(&i);
                let abandon = abandoned_positions.contains(&i);
                send_tasks.push(tokio::spawn(async move {
                    let r: Res<()> = async {
                        if abandon {
                            if bidi {
                                let (mut f, _r) = conn.open_bi().await.map_err(|e| e.to_string())?;
                                if i % 2 == 0 {
                                    let _ = f.finish();
                                } else {
                                    let _ = f.reset(vi(3));
                                }
                            } else {
                                let mut f = conn.open_uni().await.map_err(|e| e.to_string())?;
                                if i % 2 == 0 {
                                    let _ = f.finish();
                                } else {
                                    let _ = f.reset(vi(3));
                                }
                            }
                        }
                        if inject_foreign {
                            // a stream naming a session that does not exist: never delivered
                            if bidi {
                                let (mut f, _r) = conn.open_bi().await.map_err(|e| e.to_string())?;
                                let mut b = refcodec::enc_bi_header_wt(session + 4);
                                b.extend_from_slice(b"foreign!");
                                let _ = f.write_all(&b).await;
                                let _ = f.finish();
                            } else {
                                let mut f = conn.open_uni().await.map_err(|e| e.to_string())?;
                                let mut b = refcodec::enc_uni_header_wt(session + 4);
                                b.extend_from_slice(b"foreign!");
                                let _ = f.write_all(&b).await;
                                let _ = f.finish();
                            }
                        }
                        if bidi {
                            let (mut s, mut r) = conn.open_bi().await.map_err(|e| e.to_string())?;
                            sh.lock().unwrap().opened.insert(quinn::VarInt::from(s.id()).into_inner(), i);
                            oc.fetch_add(1, Ordering::SeqCst);
                            let mut b = refcodec::enc_bi_header_wt(session);
                            b.extend_from_slice(&data);
                            s.write_all(&b).await.map_err(|e| e.to_string())?;
                            s.finish().map_err(|e| e.to_string())?;
                            let _ = r.read_to_end(64).await;
                        } else {
                            let mut s = conn.open_uni().await.map_err(|e| e.to_string())?;
                            sh.lock().unwrap().opened.insert(quinn::VarInt::from(s.id()).into_inner(), i);
                            oc.fetch_add(1, Ordering::SeqCst);
                            let mut b = refcodec::enc_uni_header_wt(session);
                            b.extend_from_slice(&data);
                            s.write_all(&b).await.map_err(|e| e.to_string())?;
                            s.finish().map_err(|e| e.to_string())?;
                            let _ = s.stopped().await;
                        }
                        Ok(())
                    }
                    .await;
                    if let Err(e) = r {
                        sh.lock().unwrap().errors.push(format!("raw sender #{i}: {e}"));
                    }
                }));
            }
        }
    }
    // wait until everything opened has been delivered (or an error occurred)
    let deadline = tokio::time::Instant::now() + Duration::from_secs(10);
    let mut all = false;
    while tokio::time::Instant::now() < deadline {
        {
            let g = shared.lock().unwrap();
            if !g.errors.is_empty() {
                break;
            }
            if g.delivered.len() >= n && opened_count.load(Ordering::SeqCst) == n {
                all = true;
                break;
            }
        }
        tokio::time::sleep(Duration::from_millis(2)).await;
    }
    // grace period: nothing further may be delivered (none duplicated, none invented)
    if all {
        tokio::time::sleep(Duration::from_millis(60)).await;
    }
    finished.store(true, Ordering::SeqCst);
    done.notify_waiters();
    for _ in 0..3 {
        tokio::time::sleep(Duration::from_millis(1)).await;
        done.notify_waiters();
    }
    for a in acceptors {
        let _ = tokio::time::timeout(Duration::from_secs(6), a).await;
    }
    for t in send_tasks {
        t.abort();
    }
    let g = shared.lock().unwrap();
    if let Some(e) = g.errors.first() {
        return viol("C08:io-error", e.clone());
    }
    if !all {
        let missing: Vec<u64> = g.opened.keys().filter(|id| !g.delivered.iter().any(|(d, _)| d == *id)).cloned().collect();
        return CaseResult::Timeout(format!("{} of {} opened streams delivered; missing ids {:?}", g.delivered.len(), g.opened.len(), missing));
    }
    // exactly once, own bytes
    let mut seen: BTreeMap<u64, usize> = BTreeMap::new();
    for (id, data) in &g.delivered {
        *seen.entry(*id).or_insert(0) += 1;
        match g.opened.get(id) {
            None => return viol("C08:invented", format!("accept returned stream {id} which the peer did not open for this session ({} bytes: {})", data.len(), short(data))),
            Some(i) => {
                let want = tag_payload(*i, case.payload_len as usize);
                if *data != want {
                    return viol("C08:bytes", format!("stream {id} (tag {}) delivered with foreign bytes: got {} expected {}", i + 1, short(data), short(&want)));
                }
            }
        }
    }
    if let Some((id, c)) = seen.iter().find(|(_, c)| **c > 1) {
        return viol("C08:duplicated", format!("stream {id} was returned by {c} accept calls"));
    }
    if seen.len() != g.opened.len() {
        return viol("C08:lost", format!("{} streams opened, {} delivered", g.opened.len(), seen.len()));
    }
    let lim_n = lim.unwrap_or(100) as usize;
    let nt = g.cancelled > 0 || case.uni_tasks >= 2 || case.bi_tasks >= 2 || n > lim_n;
    let mut labels = vec![];
    if g.cancelled > 0 {
        labels.push("cancelled-accept");
    }
    if n > lim_n {
        labels.push("n>limit");
    }
    if win.is_some() {
        labels.push("small-window");
    }
    if !case.abandoned.is_empty() {
        labels.push(if case.sender % 4 >= 2 { "abandoned-opening:raw" } else { "abandoned-opening:wt" });
    }
    if case.sender % 4 >= 2 {
        labels.push("raw-sender");
        if !case.foreign.is_empty() {
            labels.push("foreign-session-stream");
        }
    }
    CaseResult::Pass { nontrivial: nt, labels }
}

pub fn exec(case: &Case) -> CaseResult {
    let c = Arc::new(case.clone());
    match run_on(case.flavor, Duration::from_secs(25), exec_async(c)) {
        Some(r) => r,
        None => CaseResult::Timeout("case did not finish in 25 s".into()),
    }
}

pub fn run(run: &Run) {
    run.set_rule(RULE);
    run.assume("every delivered stream is read to its end in its own task so that stream credit is returned");
    prop_search(
        run,
        Search { check: "delivery", cases: run.tier.pick(800, 30000), workers: 8, max_shrink_iters: 40 },
        case_strategy,
        |c| judge(|| exec(c), true, "C08:lost-timeout"),
        |c| serde_json::to_value(c).unwrap(),
    );
    for l in ["cancelled-accept", "n>limit", "raw-sender", "foreign-session-stream", "abandoned-opening:raw", "abandoned-opening:wt"] {
        run.essential(l);
    }
}

pub fn replay(run: &Run, doc: &Value) -> bool {
    let Ok(case) = serde_json::from_value::<Case>(doc["case"].clone()) else {
        return false;
    };
    run.eval("delivery", true, 1);
    for _ in 0..5 {
        if let Outcome::Fail { signature, message } = judge(|| exec(&case), true, "C08:lost-timeout") {
            run.fail("delivery", &signature, &message, doc["case"].clone());
            return true;
        }
    }
    true
}
