//! C20 — configuration is honoured: bind address / family / port / dual-stack mode, TLS 1.3 +
//! ALPN `h3`, idle timeout, keep-alive, migration, refusal of unrepresentable idle timeouts,
//! `reload_config`.

use proptest::prelude::*;
use serde::{Deserialize, Serialize};
use serde_json::Value;
use std::future::Future;
use std::net::{IpAddr, Ipv4Addr, Ipv6Addr, SocketAddr, SocketAddrV6, UdpSocket};
use std::os::fd::{AsRawFd, RawFd};
use std::sync::Arc;
use std::time::{Duration, Instant};
use vcore::{prop_search, Outcome, Run, Search};
use wire::{RawCert, Relay, Tuning};
use wtransport::config::{
    ClientConfigBuilder, IpBindConfig, Ipv6DualStackConfig, QuicTransportConfig,
    ServerConfigBuilder,
};
use wtransport::endpoint::endpoint_side::{Client, Server};
use wtransport::{ClientConfig, Connection, Endpoint, Identity, ServerConfig};

const RULE: &str = "bind matrix (exhaustive): {with_bind_default, six IpBindConfig presets, explicit v4 (loop-back / any), explicit v6 via with_bind_address (loop-back / any), explicit v6 via with_bind_address_v6 (loop-back / any) x {OsDefault, Deny, Allow}, pre-bound socket (v4, [::1], [::] with V6ONLY 0/1)} x {port 0, fixed free port} x {server, client} x every builder path; oracle: local_addr() family/address/port per the preset table of the rustdoc, IPV6_V6ONLY of the owning fd for wildcard v6 binds, one real connection through the bound socket. TLS (exhaustive): in-memory rustls handshakes against the library-built default TLS configs x peer {1.3, 1.2-only, 1.2+1.3} x ALPN lists; QUIC handshakes of a raw peer against every builder path x ALPN lists. Transport: generated {role, builder path, idle timeout NotSet/None/1 ms..2^62-1 ms/>= 2^62 ms/Duration::MAX with sub-ms parts, keep-alive NotSet/None/any Duration, migration NotSet/on/off}; oracle: refusal <=> >= 2^62 ms, otherwise Debug rendering of quic_config() located by field name. Behaviour (timed, generous bounds, a miss must reproduce 4 of 4): black-holed connection times out in [0.5 d, d + 3 s], keep-alive < idle survives 4 idle, no keep-alive times out, migration on/off with a rebinding raw client, reload_config +- rebind. Non-trivial: any cell other than the all-defaults one; distinct = distinct cell / case";

const H3: &[u8] = b"h3";
const OTHER: &[u8] = b"hq-29";
const IDLE_LIMIT_MS: u128 = 1u128 << 62;

type SB1 = ServerConfigBuilder<wtransport::config::states::WantsIdentity>;
type SB2 = ServerConfigBuilder<wtransport::config::states::WantsTransportConfigServer>;
type CB1 = ClientConfigBuilder<wtransport::config::states::WantsRootStore>;
type CB2 = ClientConfigBuilder<wtransport::config::states::WantsTransportConfigClient>;

// ------------------------------------------------------------------------------------------
// case vocabulary
// ------------------------------------------------------------------------------------------

#[derive(Clone, Copy, Debug, Serialize, Deserialize, PartialEq, Eq, Hash)]
pub enum Role {
    Server,
    Client,
}

#[derive(Clone, Copy, Debug, Serialize, Deserialize, PartialEq, Eq, Hash)]
pub enum Dual {
    OsDefault,
    Deny,
    Allow,
}

impl Dual {
    fn cfg(self) -> Ipv6DualStackConfig {
        match self {
            Dual::OsDefault => Ipv6DualStackConfig::OsDefault,
            Dual::Deny => Ipv6DualStackConfig::Deny,
            Dual::Allow => Ipv6DualStackConfig::Allow,
        }
    }
}

#[derive(Clone, Copy, Debug, Serialize, Deserialize, PartialEq, Eq, Hash)]
pub enum Preset {
    LocalV4,
    LocalV6,
    LocalDual,
    InAddrAnyV4,
    InAddrAnyV6,
    InAddrAnyDual,
}

const PRESETS: [Preset; 6] = [Preset::LocalV4, Preset::LocalV6, Preset::LocalDual, Preset::InAddrAnyV4, Preset::InAddrAnyV6, Preset::InAddrAnyDual];

impl Preset {
    fn cfg(self) -> IpBindConfig {
        match self {
            Preset::LocalV4 => IpBindConfig::LocalV4,
            Preset::LocalV6 => IpBindConfig::LocalV6,
            Preset::LocalDual => IpBindConfig::LocalDual,
            Preset::InAddrAnyV4 => IpBindConfig::InAddrAnyV4,
            Preset::InAddrAnyV6 => IpBindConfig::InAddrAnyV6,
            Preset::InAddrAnyDual => IpBindConfig::InAddrAnyDual,
        }
    }
    /// The table of the rustdoc of `IpBindConfig` (address, dual-stack mode for v6).
    fn table(self) -> (IpAddr, Option<Dual>) {
        match self {
            Preset::LocalV4 => (Ipv4Addr::LOCALHOST.into(), None),
            Preset::LocalV6 => (Ipv6Addr::LOCALHOST.into(), Some(Dual::Deny)),
            Preset::LocalDual => (Ipv6Addr::LOCALHOST.into(), Some(Dual::Allow)),
            Preset::InAddrAnyV4 => (Ipv4Addr::UNSPECIFIED.into(), None),
            Preset::InAddrAnyV6 => (Ipv6Addr::UNSPECIFIED.into(), Some(Dual::Deny)),
            Preset::InAddrAnyDual => (Ipv6Addr::UNSPECIFIED.into(), Some(Dual::Allow)),
        }
    }
    fn label(self) -> &'static str {
        match self {
            Preset::LocalV4 => "preset:LocalV4",
            Preset::LocalV6 => "preset:LocalV6",
            Preset::LocalDual => "preset:LocalDual",
            Preset::InAddrAnyV4 => "preset:InAddrAnyV4",
            Preset::InAddrAnyV6 => "preset:InAddrAnyV6",
            Preset::InAddrAnyDual => "preset:InAddrAnyDual",
        }
    }
}

#[derive(Clone, Copy, Debug, Serialize, Deserialize, PartialEq, Eq, Hash)]
pub enum Bind {
    /// `with_bind_default` (documented as `InAddrAnyDual`)
    Default,
    Preset(Preset),
    /// `with_bind_address` with a v4 address
    AddrV4 { any: bool },
    /// `with_bind_address` with a v6 address (dual stack left to the OS)
    AddrV6Plain { any: bool },
    /// `with_bind_address_v6`
    AddrV6 { any: bool, dual: Dual },
    /// `with_bind_socket`
    Socket { v6: bool, any: bool, v6only: bool },
}

impl Bind {
    /// (address, dual-stack mode if the socket is v6) the statement / rustdoc promises.
    fn table(self) -> (IpAddr, Option<Dual>) {
        let v4 = |any: bool| -> IpAddr { if any { Ipv4Addr::UNSPECIFIED.into() } else { Ipv4Addr::LOCALHOST.into() } };
        let v6 = |any: bool| -> IpAddr { if any { Ipv6Addr::UNSPECIFIED.into() } else { Ipv6Addr::LOCALHOST.into() } };
        match self {
            Bind::Default => Preset::InAddrAnyDual.table(),
            Bind::Preset(p) => p.table(),
            Bind::AddrV4 { any } => (v4(any), None),
            Bind::AddrV6Plain { any } => (v6(any), Some(Dual::OsDefault)),
            Bind::AddrV6 { any, dual } => (v6(any), Some(dual)),
            Bind::Socket { v6: false, any, .. } => (v4(any), None),
            Bind::Socket { v6: true, any, v6only } => (v6(any), Some(if v6only { Dual::Deny } else { Dual::Allow })),
        }
    }
    /// whether the builder call takes a port for this role
    fn takes_port(self, role: Role) -> bool {
        match self {
            Bind::Default | Bind::Preset(_) => role == Role::Server,
            Bind::Socket { .. } => false,
            _ => true,
        }
    }
}

fn all_binds() -> Vec<Bind> {
    let mut v = vec![Bind::Default];
    v.extend(PRESETS.iter().map(|p| Bind::Preset(*p)));
    for any in [false, true] {
        v.push(Bind::AddrV4 { any });
        v.push(Bind::AddrV6Plain { any });
        for dual in [Dual::OsDefault, Dual::Deny, Dual::Allow] {
            v.push(Bind::AddrV6 { any, dual });
        }
    }
    v.push(Bind::Socket { v6: false, any: false, v6only: false });
    v.push(Bind::Socket { v6: true, any: false, v6only: true });
    v.push(Bind::Socket { v6: true, any: true, v6only: false });
    v.push(Bind::Socket { v6: true, any: true, v6only: true });
    v
}

#[derive(Clone, Copy, Debug, Serialize, Deserialize, PartialEq, Eq, Hash)]
pub enum Path {
    /// server: `with_identity`
    Identity,
    /// client: `with_native_certs`
    NativeCerts,
    /// client: `with_no_cert_validation`
    NoValidation,
    /// client: `with_server_certificate_hashes`
    CertHashes,
    CustomTls,
    CustomTransport,
    CustomTlsTransport,
    /// `build_with_quic_config`
    QuicConfig,
}

const SERVER_PATHS: [Path; 5] = [Path::Identity, Path::CustomTls, Path::CustomTransport, Path::CustomTlsTransport, Path::QuicConfig];
const CLIENT_PATHS: [Path; 7] = [Path::NativeCerts, Path::NoValidation, Path::CertHashes, Path::CustomTls, Path::CustomTransport, Path::CustomTlsTransport, Path::QuicConfig];
/// client paths that accept the harness's self-signed server
const TRUSTING_CLIENT_PATHS: [Path; 5] = [Path::NoValidation, Path::CertHashes, Path::CustomTls, Path::CustomTlsTransport, Path::QuicConfig];

impl Path {
    fn valid_for(self, role: Role) -> bool {
        match role {
            Role::Server => SERVER_PATHS.contains(&self),
            Role::Client => CLIENT_PATHS.contains(&self),
        }
    }
    fn trusting(self) -> bool {
        TRUSTING_CLIENT_PATHS.contains(&self)
    }
    fn custom_transport(self) -> bool {
        matches!(self, Path::CustomTransport | Path::CustomTlsTransport)
    }
    fn label(self, role: Role) -> &'static str {
        match (role, self) {
            (Role::Server, Path::Identity) => "path:server:identity",
            (Role::Server, Path::CustomTls) => "path:server:custom-tls",
            (Role::Server, Path::CustomTransport) => "path:server:custom-transport",
            (Role::Server, Path::CustomTlsTransport) => "path:server:custom-tls+transport",
            (Role::Server, Path::QuicConfig) => "path:server:quic-config",
            (Role::Client, Path::NativeCerts) => "path:client:native-certs",
            (Role::Client, Path::NoValidation) => "path:client:no-validation",
            (Role::Client, Path::CertHashes) => "path:client:cert-hashes",
            (Role::Client, Path::CustomTls) => "path:client:custom-tls",
            (Role::Client, Path::CustomTransport) => "path:client:custom-transport",
            (Role::Client, Path::CustomTlsTransport) => "path:client:custom-tls+transport",
            (Role::Client, Path::QuicConfig) => "path:client:quic-config",
            _ => "path:invalid",
        }
    }
}

const PATH_LABELS: [&str; 12] = [
    "path:server:identity",
    "path:server:custom-tls",
    "path:server:custom-transport",
    "path:server:custom-tls+transport",
    "path:server:quic-config",
    "path:client:native-certs",
    "path:client:no-validation",
    "path:client:cert-hashes",
    "path:client:custom-tls",
    "path:client:custom-transport",
    "path:client:custom-tls+transport",
    "path:client:quic-config",
];

/// A transport knob: not touched, set to `None`, or set to a duration.
#[derive(Clone, Copy, Debug, Serialize, Deserialize, PartialEq, Eq, Hash)]
pub enum Sel {
    NotSet,
    Off,
    Dur { secs: u64, nanos: u32 },
}

impl Sel {
    fn ms(ms: u64) -> Sel {
        Sel::of(Duration::from_millis(ms))
    }
    fn of(d: Duration) -> Sel {
        Sel::Dur { secs: d.as_secs(), nanos: d.subsec_nanos() }
    }
    fn dur(self) -> Option<Duration> {
        match self {
            Sel::Dur { secs, nanos } => Some(Duration::new(secs, nanos % 1_000_000_000)),
            _ => None,
        }
    }
}

#[derive(Clone, Copy, Debug, Serialize, Deserialize, PartialEq, Eq, Hash)]
pub struct Knobs {
    pub idle: Sel,
    pub keep_alive: Sel,
    /// server only
    pub migration: Option<bool>,
}

impl Knobs {
    const DEFAULT: Knobs = Knobs { idle: Sel::NotSet, keep_alive: Sel::NotSet, migration: None };
    fn is_default(&self) -> bool {
        *self == Knobs::DEFAULT
    }
}

/// The idle timeout cannot be represented (>= 2^62 ms) according to the statement.
fn must_refuse(idle: Sel) -> bool {
    idle.dur().map(|d| d.as_millis() >= IDLE_LIMIT_MS).unwrap_or(false)
}

// ------------------------------------------------------------------------------------------
// small infrastructure
// ------------------------------------------------------------------------------------------

/// Result of executing one cell / case.
enum Cr {
    Pass { nontrivial: bool, labels: Vec<&'static str> },
    Fail { sig: String, msg: String },
    /// A timed / liveness expectation was missed: a violation only if it reproduces 4 of 4.
    Soft { sig: String, msg: String },
    /// The harness could not run the case.
    Skip(String),
}

fn fail(sig: &str, msg: impl Into<String>) -> Cr {
    Cr::Fail { sig: sig.to_string(), msg: msg.into() }
}
fn soft(sig: &str, msg: impl Into<String>) -> Cr {
    Cr::Soft { sig: sig.to_string(), msg: msg.into() }
}

macro_rules! tri {
    ($e:expr) => {
        match $e {
            Ok(v) => v,
            Err(cr) => return cr,
        }
    };
}

fn judge(exec: impl Fn() -> Cr) -> Outcome {
    let once = || match vcore::catch(&exec) {
        Ok(r) => r,
        Err(p) => fail("C20:panic", format!("panicked: {p}")),
    };
    let mut first: Option<(String, String)> = None;
    for attempt in 0..4 {
        match once() {
            Cr::Pass { nontrivial, mut labels } => {
                if attempt > 0 {
                    labels.push("timing:passed-on-re-execution");
                }
                return Outcome::pass_l(nontrivial, labels);
            }
            Cr::Fail { sig, msg } => return Outcome::fail(sig, msg),
            Cr::Skip(w) => return Outcome::Inconclusive(format!("case skipped: {w}")),
            Cr::Soft { sig, msg } => {
                if first.is_none() {
                    first = Some((sig, msg));
                }
            }
        }
    }
    let (sig, msg) = first.unwrap();
    Outcome::fail(sig, format!("reproduced on 4 of 4 executions: {msg}"))
}

fn record(run: &Run, check: &str, o: Outcome, fp: u64, case: &dyn Fn() -> Value) {
    match o {
        Outcome::Pass { nontrivial, labels } => {
            run.eval(check, nontrivial, fp);
            for l in labels {
                run.label(l);
            }
            if nontrivial && run.wants_sample(check) {
                run.sample(check, || vcore::abbreviate(case()));
            }
        }
        Outcome::Fail { signature, message } => {
            run.eval(check, false, 0);
            run.fail(check, &signature, &message, case());
        }
        Outcome::Inconclusive(w) => run.inconclusive(&format!("{check}: {w}")),
    }
}

fn on_rt<T>(flavor: u8, bound: Duration, fut: impl Future<Output = T>) -> Option<T> {
    let rt = match flavor % 3 {
        0 => tokio::runtime::Builder::new_current_thread().enable_all().build().unwrap(),
        1 => tokio::runtime::Builder::new_multi_thread().worker_threads(2).enable_all().build().unwrap(),
        _ => tokio::runtime::Builder::new_multi_thread().worker_threads(4).enable_all().build().unwrap(),
    };
    let r = rt.block_on(async { tokio::time::timeout(bound, fut).await.ok() });
    rt.shutdown_timeout(Duration::from_millis(200));
    r
}

fn ring() -> Arc<rustls::crypto::CryptoProvider> {
    Arc::new(rustls::crypto::ring::default_provider())
}

fn identity() -> Identity {
    Identity::self_signed(["localhost", "127.0.0.1", "::1"]).expect("self signed identity")
}

fn cert_der(id: &Identity) -> Vec<u8> {
    id.certificate_chain().as_slice()[0].der().to_vec()
}

fn raw_cert(id: &Identity) -> RawCert {
    RawCert { cert_der: cert_der(id), key_der: id.private_key().secret_der().to_vec() }
}

/// TLS configuration a user would hand to `with_custom_tls` (server).
fn user_server_tls(id: &Identity) -> rustls::ServerConfig {
    wire::raw_server_tls(&raw_cert(id), &[H3])
}

/// TLS configuration a user would hand to `with_custom_tls` (client).
fn user_client_tls() -> rustls::ClientConfig {
    wire::raw_client_tls(&[H3])
}

const BASE_IDLE_MS: u64 = 12_345;
const BASE_KEEP_ALIVE_MS: u64 = 2_345;
const BASE_MARK_UNI: u32 = 77;

/// Transport configuration a user would hand to `with_custom_transport`.
fn user_transport() -> QuicTransportConfig {
    let mut t = QuicTransportConfig::default();
    t.max_concurrent_uni_streams(BASE_MARK_UNI.into());
    t.max_idle_timeout(Some(quinn::IdleTimeout::try_from(Duration::from_millis(BASE_IDLE_MS)).unwrap()));
    t.keep_alive_interval(Some(Duration::from_millis(BASE_KEEP_ALIVE_MS)));
    t
}

/// A transport configuration carrying the knobs directly (for the prebuilt QUIC config path).
/// `None` when the idle timeout cannot be expressed with quinn's own API.
fn direct_transport(k: &Knobs) -> Option<QuicTransportConfig> {
    let mut t = QuicTransportConfig::default();
    match k.idle {
        Sel::NotSet => {}
        Sel::Off => {
            t.max_idle_timeout(None);
        }
        Sel::Dur { .. } => {
            t.max_idle_timeout(Some(quinn::IdleTimeout::try_from(k.idle.dur().unwrap()).ok()?));
        }
    }
    match k.keep_alive {
        Sel::NotSet => {}
        Sel::Off => {
            t.keep_alive_interval(None);
        }
        Sel::Dur { .. } => {
            t.keep_alive_interval(k.keep_alive.dur());
        }
    }
    Some(t)
}

fn ipv6_available() -> bool {
    UdpSocket::bind((Ipv6Addr::LOCALHOST, 0)).is_ok()
}

fn os_bindv6only() -> Option<i32> {
    std::fs::read_to_string("/proc/sys/net/ipv6/bindv6only").ok()?.trim().parse().ok()
}

/// A UDP port that was free a moment ago on `ip`.
fn free_port(ip: IpAddr) -> Result<u16, String> {
    let s = UdpSocket::bind((ip, 0)).map_err(|e| format!("probe bind {ip}: {e}"))?;
    s.local_addr().map(|a| a.port()).map_err(|e| e.to_string())
}

fn sockname(fd: RawFd) -> Option<SocketAddr> {
    // SAFETY: getsockname writes at most `len` bytes into the zeroed storage.
    let r = unsafe {
        socket2::SockAddr::try_init(|storage, len| {
            if libc::getsockname(fd, storage.cast(), len) == 0 {
                Ok(())
            } else {
                Err(std::io::Error::last_os_error())
            }
        })
    };
    r.ok().and_then(|(_, a)| a.as_socket())
}

fn sockopt_int(fd: RawFd, level: i32, name: i32) -> Option<i32> {
    let mut v: libc::c_int = -1;
    let mut len = std::mem::size_of::<libc::c_int>() as libc::socklen_t;
    // SAFETY: plain getsockopt into a c_int.
    let r = unsafe { libc::getsockopt(fd, level, name, (&mut v as *mut libc::c_int).cast(), &mut len) };
    if r == 0 {
        Some(v)
    } else {
        None
    }
}

fn same_addr(a: SocketAddr, b: SocketAddr) -> bool {
    a.ip() == b.ip() && a.port() == b.port()
}

/// The process's own UDP socket(s) bound to `local`.
fn udp_fds_bound_to(local: SocketAddr) -> Vec<RawFd> {
    let mut out = Vec::new();
    let Ok(rd) = std::fs::read_dir("/proc/self/fd") else { return out };
    for e in rd.flatten() {
        let Some(fd) = e.file_name().to_str().and_then(|s| s.parse::<RawFd>().ok()) else { continue };
        if sockopt_int(fd, libc::SOL_SOCKET, libc::SO_TYPE) != Some(libc::SOCK_DGRAM) {
            continue;
        }
        if let Some(a) = sockname(fd) {
            if same_addr(a, local) {
                out.push(fd);
            }
        }
    }
    out
}

fn v6only_of(fd: RawFd) -> Option<i32> {
    sockopt_int(fd, libc::IPPROTO_IPV6, libc::IPV6_V6ONLY)
}

/// All values of the field `name` in a `Debug` rendering (located by name, any depth).
fn fields_named(s: &str, name: &str) -> Vec<String> {
    let pat = format!("{name}: ");
    let mut out = Vec::new();
    let mut from = 0;
    while let Some(p) = s[from..].find(&pat) {
        let at = from + p;
        let start = at + pat.len();
        let before_ok = at == 0 || {
            let b = s.as_bytes()[at - 1];
            !(b.is_ascii_alphanumeric() || b == b'_')
        };
        if before_ok {
            let mut depth = 0i32;
            let mut end = s.len();
            for (i, c) in s[start..].char_indices() {
                match c {
                    '(' | '{' | '[' => depth += 1,
                    ')' | '}' | ']' => {
                        if depth == 0 {
                            end = start + i;
                            break;
                        }
                        depth -= 1;
                    }
                    ',' if depth == 0 => {
                        end = start + i;
                        break;
                    }
                    _ => {}
                }
            }
            out.push(s[start..end].trim().to_string());
        }
        from = start;
    }
    out
}

fn one_field(dbg: &str, name: &str) -> Result<String, Cr> {
    let v = fields_named(dbg, name);
    if v.len() == 1 {
        Ok(v.into_iter().next().unwrap())
    } else {
        Err(Cr::Skip(format!("Debug rendering of the QUIC config has {} fields named {name} (shape changed?)", v.len())))
    }
}

// ------------------------------------------------------------------------------------------
// building configurations through every builder path
// ------------------------------------------------------------------------------------------

enum Mk {
    /// `max_idle_timeout` answered `Err(InvalidIdleTimeout)`; the flag tells whether it was for `None`
    Refused,
    /// the case cannot be expressed (harness side)
    Inexpressible(String),
    Harness(String),
}

fn pre_bound_socket(bind: Bind) -> Result<UdpSocket, String> {
    let Bind::Socket { v6, v6only, .. } = bind else { return Err("not a socket bind".into()) };
    let (ip, _) = bind.table();
    let s = socket2::Socket::new(if v6 { socket2::Domain::IPV6 } else { socket2::Domain::IPV4 }, socket2::Type::DGRAM, Some(socket2::Protocol::UDP)).map_err(|e| format!("socket: {e}"))?;
    if v6 {
        s.set_only_v6(v6only).map_err(|e| format!("set_only_v6: {e}"))?;
    }
    s.bind(&SocketAddr::new(ip, 0).into()).map_err(|e| format!("pre-bind {ip}: {e}"))?;
    Ok(UdpSocket::from(s))
}

fn v6sock(ip: IpAddr, port: u16) -> SocketAddrV6 {
    match ip {
        IpAddr::V6(a) => SocketAddrV6::new(a, port, 0, 0),
        IpAddr::V4(_) => unreachable!("v6 bind with v4 address"),
    }
}

/// First builder stage of the server; returns the raw fd of a pre-bound socket.
fn server_stage1(bind: Bind, port: u16) -> Result<(SB1, Option<RawFd>), String> {
    let b = ServerConfig::builder();
    let (ip, _) = bind.table();
    Ok(match bind {
        Bind::Default => (b.with_bind_default(port), None),
        Bind::Preset(p) => (b.with_bind_config(p.cfg(), port), None),
        Bind::AddrV4 { .. } | Bind::AddrV6Plain { .. } => (b.with_bind_address(SocketAddr::new(ip, port)), None),
        Bind::AddrV6 { dual, .. } => (b.with_bind_address_v6(v6sock(ip, port), dual.cfg()), None),
        Bind::Socket { .. } => {
            let s = pre_bound_socket(bind)?;
            let fd = s.as_raw_fd();
            (b.with_bind_socket(s), Some(fd))
        }
    })
}

fn client_stage1(bind: Bind, port: u16) -> Result<(CB1, Option<RawFd>), String> {
    let b = ClientConfig::builder();
    let (ip, _) = bind.table();
    Ok(match bind {
        Bind::Default => (b.with_bind_default(), None),
        Bind::Preset(p) => (b.with_bind_config(p.cfg()), None),
        Bind::AddrV4 { .. } | Bind::AddrV6Plain { .. } => (b.with_bind_address(SocketAddr::new(ip, port)), None),
        Bind::AddrV6 { dual, .. } => (b.with_bind_address_v6(v6sock(ip, port), dual.cfg()), None),
        Bind::Socket { .. } => {
            let s = pre_bound_socket(bind)?;
            let fd = s.as_raw_fd();
            (b.with_bind_socket(s), Some(fd))
        }
    })
}

fn apply_server(mut b: SB2, k: &Knobs) -> Result<SB2, Mk> {
    match k.idle {
        Sel::NotSet => {}
        Sel::Off => b = b.max_idle_timeout(None).map_err(|_| Mk::Refused)?,
        Sel::Dur { .. } => b = b.max_idle_timeout(k.idle.dur()).map_err(|_| Mk::Refused)?,
    }
    match k.keep_alive {
        Sel::NotSet => {}
        Sel::Off => b = b.keep_alive_interval(None),
        Sel::Dur { .. } => b = b.keep_alive_interval(k.keep_alive.dur()),
    }
    if let Some(m) = k.migration {
        b = b.allow_migration(m);
    }
    Ok(b)
}

fn apply_client(mut b: CB2, k: &Knobs) -> Result<CB2, Mk> {
    match k.idle {
        Sel::NotSet => {}
        Sel::Off => b = b.max_idle_timeout(None).map_err(|_| Mk::Refused)?,
        Sel::Dur { .. } => b = b.max_idle_timeout(k.idle.dur()).map_err(|_| Mk::Refused)?,
    }
    match k.keep_alive {
        Sel::NotSet => {}
        Sel::Off => b = b.keep_alive_interval(None),
        Sel::Dur { .. } => b = b.keep_alive_interval(k.keep_alive.dur()),
    }
    Ok(b)
}

fn server_stage2(b: SB1, path: Path, k: &Knobs, id: &Identity) -> Result<ServerConfig, Mk> {
    Ok(match path {
        Path::Identity => apply_server(b.with_identity(id.clone_identity()), k)?.build(),
        Path::CustomTls => apply_server(b.with_custom_tls(user_server_tls(id)), k)?.build(),
        Path::CustomTransport => apply_server(b.with_custom_transport(id.clone_identity(), user_transport()), k)?.build(),
        Path::CustomTlsTransport => apply_server(b.with_custom_tls_and_transport(user_server_tls(id), user_transport()), k)?.build(),
        Path::QuicConfig => {
            let t = direct_transport(k).ok_or_else(|| Mk::Inexpressible("idle timeout not expressible through quinn's own API".into()))?;
            let crypto = quinn::crypto::rustls::QuicServerConfig::try_from(user_server_tls(id)).map_err(|e| Mk::Harness(e.to_string()))?;
            let mut q = quinn::ServerConfig::with_crypto(Arc::new(crypto));
            q.transport_config(Arc::new(t));
            if let Some(m) = k.migration {
                q.migration(m);
            }
            b.build_with_quic_config(q)
        }
        other => return Err(Mk::Harness(format!("{other:?} is not a server path"))),
    })
}

fn client_stage2(b: CB1, path: Path, k: &Knobs, hashes: Vec<wtransport::tls::Sha256Digest>) -> Result<ClientConfig, Mk> {
    Ok(match path {
        Path::NativeCerts => apply_client(b.with_native_certs(), k)?.build(),
        Path::NoValidation => apply_client(b.with_no_cert_validation(), k)?.build(),
        Path::CertHashes => apply_client(b.with_server_certificate_hashes(hashes), k)?.build(),
        Path::CustomTls => apply_client(b.with_custom_tls(user_client_tls()), k)?.build(),
        Path::CustomTransport => apply_client(b.with_custom_transport(user_transport()), k)?.build(),
        Path::CustomTlsTransport => apply_client(b.with_custom_tls_and_transport(user_client_tls(), user_transport()), k)?.build(),
        Path::QuicConfig => {
            let t = direct_transport(k).ok_or_else(|| Mk::Inexpressible("idle timeout not expressible through quinn's own API".into()))?;
            let crypto = quinn::crypto::rustls::QuicClientConfig::try_from(user_client_tls()).map_err(|e| Mk::Harness(e.to_string()))?;
            let mut q = quinn::ClientConfig::new(Arc::new(crypto));
            q.transport_config(Arc::new(t));
            b.build_with_quic_config(q)
        }
        other => return Err(Mk::Harness(format!("{other:?} is not a client path"))),
    })
}

fn make_server(bind: Bind, port: u16, path: Path, k: &Knobs, id: &Identity) -> Result<(ServerConfig, Option<RawFd>), Mk> {
    let (b, fd) = server_stage1(bind, port).map_err(Mk::Harness)?;
    Ok((server_stage2(b, path, k, id)?, fd))
}

fn make_client(bind: Bind, port: u16, path: Path, k: &Knobs, server_id: Option<&Identity>) -> Result<(ClientConfig, Option<RawFd>), Mk> {
    let (b, fd) = client_stage1(bind, port).map_err(Mk::Harness)?;
    let hashes = match server_id {
        Some(id) => vec![id.certificate_chain().as_slice()[0].hash()],
        None => vec![wtransport::tls::Sha256Digest::new([0u8; 32])],
    };
    Ok((client_stage2(b, path, k, hashes)?, fd))
}

fn mk_to_cr(m: Mk) -> Cr {
    match m {
        Mk::Refused => fail("C20:idle:refused-representable", "max_idle_timeout answered InvalidIdleTimeout for a representable value"),
        Mk::Inexpressible(w) | Mk::Harness(w) => Cr::Skip(w),
    }
}

/// A plain helper server (v4 or v6 loop-back) with a 20 s idle timeout.
fn helper_server(v6: bool, id: &Identity) -> Result<Endpoint<Server>, String> {
    let k = Knobs { idle: Sel::ms(20_000), ..Knobs::DEFAULT };
    let bind = if v6 { Bind::AddrV6Plain { any: false } } else { Bind::AddrV4 { any: false } };
    let (cfg, _) = make_server(bind, 0, Path::Identity, &k, id).map_err(|_| "helper server config".to_string())?;
    Endpoint::server(cfg).map_err(|e| format!("helper server: {e}"))
}

/// A plain helper client (no validation) bound to the loop-back of the family.
fn helper_client(v6: bool) -> Result<Endpoint<Client>, String> {
    let k = Knobs { idle: Sel::ms(20_000), ..Knobs::DEFAULT };
    let bind = if v6 { Bind::AddrV6Plain { any: false } } else { Bind::AddrV4 { any: false } };
    let (cfg, _) = make_client(bind, 0, Path::NoValidation, &k, None).map_err(|_| "helper client config".to_string())?;
    Endpoint::client(cfg).map_err(|e| format!("helper client: {e}"))
}

fn loopback_target(local: SocketAddr) -> SocketAddr {
    match local {
        SocketAddr::V4(a) => SocketAddr::new(Ipv4Addr::LOCALHOST.into(), a.port()),
        SocketAddr::V6(a) => SocketAddr::new(Ipv6Addr::LOCALHOST.into(), a.port()),
    }
}

fn url_of(addr: SocketAddr) -> String {
    format!("https://{addr}/")
}

async fn accept_one(ep: &Endpoint<Server>) -> Result<(SocketAddr, Connection), String> {
    let inc = ep.accept().await;
    let from = inc.remote_address();
    let req = inc.await.map_err(|e| format!("incoming from {from}: {e}"))?;
    let conn = req.accept().await.map_err(|e| format!("accept: {e}"))?;
    Ok((from, conn))
}

fn alpn_of(conn: &Connection) -> Option<Vec<u8>> {
    conn.handshake_data().alpn().map(|a| a.to_vec())
}

/// One echo over a fresh bidirectional stream (client opens, server answers).
async fn echo_once(client: &Connection, server: &Connection, tag: u8) -> Result<(), String> {
    let payload: Vec<u8> = (0..257u32).map(|i| (i as u8) ^ tag).collect();
    let p2 = payload.clone();
    let c = async {
        let (mut s, mut r) = client.open_bi().await.map_err(|e| format!("open_bi: {e}"))?.await.map_err(|e| format!("opening: {e}"))?;
        s.write_all(&p2).await.map_err(|e| format!("client write: {e}"))?;
        s.finish().await.map_err(|e| format!("client finish: {e}"))?;
        let mut got = Vec::new();
        let mut buf = [0u8; 512];
        while let Some(n) = r.read(&mut buf).await.map_err(|e| format!("client read: {e}"))? {
            got.extend_from_slice(&buf[..n]);
        }
        Ok::<_, String>(got)
    };
    let s = async {
        let (mut s, mut r) = server.accept_bi().await.map_err(|e| format!("accept_bi: {e}"))?;
        let mut got = Vec::new();
        let mut buf = [0u8; 512];
        while let Some(n) = r.read(&mut buf).await.map_err(|e| format!("server read: {e}"))? {
            got.extend_from_slice(&buf[..n]);
        }
        s.write_all(&got).await.map_err(|e| format!("server write: {e}"))?;
        s.finish().await.map_err(|e| format!("server finish: {e}"))?;
        Ok::<_, String>(())
    };
    match tokio::time::timeout(Duration::from_secs(4), async { tokio::join!(c, s) }).await {
        Err(_) => Err("echo did not complete within 4 s".into()),
        Ok((Ok(got), Ok(()))) => {
            if got == payload {
                Ok(())
            } else {
                Err(format!("echo returned {} bytes, expected {}", got.len(), payload.len()))
            }
        }
        Ok((Err(e), _)) | Ok((_, Err(e))) => Err(e),
    }
}

// ------------------------------------------------------------------------------------------
// sub-check "bind-matrix"
// ------------------------------------------------------------------------------------------

#[derive(Clone, Copy, Debug, Serialize, Deserialize, PartialEq, Eq, Hash)]
pub struct BindCase {
    pub role: Role,
    pub bind: Bind,
    pub fixed_port: bool,
    pub path: Path,
}

fn bind_cells() -> Vec<BindCase> {
    let mut v = Vec::new();
    for role in [Role::Server, Role::Client] {
        let paths: &[Path] = if role == Role::Server { &SERVER_PATHS } else { &CLIENT_PATHS };
        for bind in all_binds() {
            for fixed_port in [false, true] {
                if fixed_port && !bind.takes_port(role) {
                    continue;
                }
                for path in paths {
                    v.push(BindCase { role, bind, fixed_port, path: *path });
                }
            }
        }
    }
    v
}

fn bind_labels(c: &BindCase, wildcard_v6: bool, dual: Option<Dual>) -> Vec<&'static str> {
    let mut l = vec![c.path.label(c.role)];
    match c.bind {
        Bind::Preset(p) => l.push(p.label()),
        Bind::Default => l.push("bind:default"),
        Bind::Socket { .. } => l.push("bind:socket"),
        Bind::AddrV4 { .. } => l.push("bind:explicit-v4"),
        Bind::AddrV6Plain { .. } | Bind::AddrV6 { .. } => l.push("bind:explicit-v6"),
    }
    if c.fixed_port {
        l.push("bind:fixed-port");
    }
    if wildcard_v6 {
        l.push(match dual {
            Some(Dual::Deny) => "dual:Deny@wildcard",
            Some(Dual::Allow) => "dual:Allow@wildcard",
            _ => "dual:OsDefault@wildcard",
        });
    }
    l
}

enum AnyEndpoint {
    S(Endpoint<Server>),
    C(Endpoint<Client>),
}

impl AnyEndpoint {
    fn local_addr(&self) -> std::io::Result<SocketAddr> {
        match self {
            AnyEndpoint::S(e) => e.local_addr(),
            AnyEndpoint::C(e) => e.local_addr(),
        }
    }
}

async fn bind_cell(c: BindCase) -> Cr {
    if !c.path.valid_for(c.role) {
        return Cr::Skip("path not valid for role".into());
    }
    let (want_ip, dual) = c.bind.table();
    let id = identity();
    // the endpoint under test (retry when a "free" port was taken in the meantime)
    let mut attempt = 0;
    let (ep, want_port, pre_fd) = loop {
        attempt += 1;
        let port = if c.fixed_port { tri!(free_port(want_ip).map_err(Cr::Skip)) } else { 0 };
        let made = match c.role {
            Role::Server => make_server(c.bind, port, c.path, &Knobs::DEFAULT, &id).map(|(cfg, fd)| (Endpoint::server(cfg).map(AnyEndpoint::S), fd)),
            Role::Client => make_client(c.bind, port, c.path, &Knobs::DEFAULT, Some(&id)).map(|(cfg, fd)| (Endpoint::client(cfg).map(AnyEndpoint::C), fd)),
        };
        let (ep, fd) = tri!(made.map_err(mk_to_cr));
        match ep {
            Ok(ep) => break (ep, port, fd),
            Err(e) if c.fixed_port && e.kind() == std::io::ErrorKind::AddrInUse && attempt < 6 => continue,
            Err(e) if c.fixed_port && e.kind() == std::io::ErrorKind::AddrInUse => return Cr::Skip(format!("no free fixed port after {attempt} attempts: {e}")),
            Err(e) => return fail("C20:bind:error", format!("{c:?}: creating the endpoint failed: {e}")),
        }
    };
    let local = match ep.local_addr() {
        Ok(a) => a,
        Err(e) => return fail("C20:bind:error", format!("{c:?}: local_addr(): {e}")),
    };
    if local.is_ipv4() != want_ip.is_ipv4() {
        return fail("C20:bind:family", format!("{c:?}: bound {local}, the requested family is {}", if want_ip.is_ipv4() { "IPv4" } else { "IPv6" }));
    }
    if local.ip() != want_ip {
        return fail("C20:bind:address", format!("{c:?}: bound {local}, requested address {want_ip}"));
    }
    if c.fixed_port && local.port() != want_port {
        return fail("C20:bind:port", format!("{c:?}: bound {local}, requested port {want_port}"));
    }
    if local.port() == 0 {
        return fail("C20:bind:port", format!("{c:?}: local_addr() reports port 0"));
    }
    // the fd that owns the port
    let fds = udp_fds_bound_to(local);
    if fds.is_empty() {
        return Cr::Skip(format!("{c:?}: no UDP fd of this process is bound to {local}"));
    }
    if let Some(pre) = pre_fd {
        if !fds.contains(&pre) {
            return fail("C20:bind:socket-not-used", format!("{c:?}: the endpoint reports {local} but the pre-bound socket (fd {pre}) is not the socket bound there (fds {fds:?})"));
        }
    }
    let wildcard_v6 = want_ip == IpAddr::V6(Ipv6Addr::UNSPECIFIED);
    if wildcard_v6 {
        let want_flag = match dual {
            Some(Dual::Deny) => 1,
            Some(Dual::Allow) => 0,
            _ => match os_bindv6only() {
                Some(v) => v,
                None => return Cr::Skip("cannot read /proc/sys/net/ipv6/bindv6only".into()),
            },
        };
        let fd = pre_fd.unwrap_or(fds[0]);
        match v6only_of(fd) {
            Some(flag) if flag == want_flag => {}
            Some(flag) => return fail("C20:bind:dual-stack", format!("{c:?}: socket bound to {local} has IPV6_V6ONLY={flag}, the requested dual-stack mode {dual:?} means {want_flag}")),
            None => return Cr::Skip(format!("{c:?}: getsockopt(IPV6_V6ONLY) failed on fd {fd}")),
        }
    }
    // one real connection through the bound socket
    let v6 = local.is_ipv6();
    let conn_result: Result<(), Cr> = match &ep {
        AnyEndpoint::S(server) => {
            let client = tri!(helper_client(v6).map_err(Cr::Skip));
            let client_local = tri!(client.local_addr().map_err(|e| Cr::Skip(e.to_string())));
            let url = url_of(loopback_target(local));
            let both = async { tokio::join!(accept_one(server), client.connect(url.clone())) };
            match tokio::time::timeout(Duration::from_secs(5), both).await {
                Err(_) => Err(soft("C20:bind:unreachable", format!("{c:?}: no session through {local} within 5 s"))),
                Ok((Ok((from, sc)), Ok(cc))) => {
                    if from.port() != client_local.port() {
                        Err(fail("C20:bind:unreachable", format!("{c:?}: session accepted from {from}, the client is bound to {client_local}")))
                    } else if alpn_of(&sc).as_deref() != Some(H3) || alpn_of(&cc).as_deref() != Some(H3) {
                        Err(fail("C20:tls:alpn", format!("{c:?}: negotiated ALPN server {:?} client {:?}", alpn_of(&sc), alpn_of(&cc))))
                    } else {
                        Ok(())
                    }
                }
                Ok((Err(e), _)) => Err(soft("C20:bind:unreachable", format!("{c:?}: server side of the session through {local}: {e}"))),
                Ok((_, Err(e))) => Err(soft("C20:bind:unreachable", format!("{c:?}: client could not connect to {url}: {e}"))),
            }
        }
        AnyEndpoint::C(client) => {
            let server = tri!(helper_server(v6, &id).map_err(Cr::Skip));
            let saddr = tri!(server.local_addr().map_err(|e| Cr::Skip(e.to_string())));
            let url = url_of(saddr);
            // the first packet already tells which socket the client uses
            let srv = async {
                let inc = server.accept().await;
                let from = inc.remote_address();
                let r = match inc.await {
                    Ok(req) => req.accept().await.map_err(|e| e.to_string()),
                    Err(e) => Err(e.to_string()),
                };
                (from, r)
            };
            let both = async { tokio::join!(srv, client.connect(url.clone())) };
            match tokio::time::timeout(Duration::from_secs(5), both).await {
                Err(_) => Err(soft("C20:bind:unreachable", format!("{c:?}: nothing from the client bound to {local} reached {saddr} within 5 s"))),
                Ok(((from, sres), cres)) => {
                    if from.port() != local.port() {
                        Err(fail("C20:bind:unreachable", format!("{c:?}: the server saw the client at {from}, local_addr() says {local}")))
                    } else if c.path.trusting() {
                        match (sres, cres) {
                            (Ok(sc), Ok(cc)) => {
                                if alpn_of(&sc).as_deref() != Some(H3) || alpn_of(&cc).as_deref() != Some(H3) {
                                    Err(fail("C20:tls:alpn", format!("{c:?}: negotiated ALPN server {:?} client {:?}", alpn_of(&sc), alpn_of(&cc))))
                                } else {
                                    Ok(())
                                }
                            }
                            (Err(e), _) => Err(soft("C20:bind:unreachable", format!("{c:?}: server side: {e}"))),
                            (_, Err(e)) => Err(soft("C20:bind:unreachable", format!("{c:?}: connect({url}): {e}"))),
                        }
                    } else {
                        // certificate validation against the native roots is C10's subject
                        Ok(())
                    }
                }
            }
        }
    };
    if let Err(cr) = conn_result {
        return cr;
    }
    let nontrivial = !(c.bind == Bind::Default && !c.fixed_port && matches!(c.path, Path::Identity | Path::NativeCerts));
    Cr::Pass { nontrivial, labels: bind_labels(&c, wildcard_v6, dual) }
}

fn exec_bind(c: &BindCase) -> Cr {
    let c = *c;
    on_rt(0, Duration::from_secs(20), bind_cell(c)).unwrap_or_else(|| soft("C20:bind:unreachable", format!("{c:?}: cell did not finish in 20 s")))
}

// ------------------------------------------------------------------------------------------
// sub-check "tls-inmem": in-memory rustls handshakes against the library-built TLS configs
// ------------------------------------------------------------------------------------------

#[derive(Clone, Copy, Debug, Serialize, Deserialize, PartialEq, Eq, Hash)]
pub enum LibTls {
    /// `tls::server::build_default_tls_config(identity)`
    ServerDefault,
    /// `tls::client::build_default_tls_config(roots, None)`
    ClientRoots,
    /// ... with `NoServerVerification`
    ClientNoValidation,
    /// ... with `ServerHashVerification`
    ClientHashes,
}

#[derive(Clone, Copy, Debug, Serialize, Deserialize, PartialEq, Eq, Hash)]
pub enum Versions {
    V13,
    V12,
    V12V13,
}

#[derive(Clone, Copy, Debug, Serialize, Deserialize, PartialEq, Eq, Hash)]
pub enum Alpn {
    H3,
    H3Other,
    OtherH3,
    Other,
    Nothing,
}

impl Alpn {
    fn list(self) -> Vec<&'static [u8]> {
        match self {
            Alpn::H3 => vec![H3],
            Alpn::H3Other => vec![H3, OTHER],
            Alpn::OtherH3 => vec![OTHER, H3],
            Alpn::Other => vec![OTHER],
            Alpn::Nothing => vec![],
        }
    }
    fn has_h3(self) -> bool {
        matches!(self, Alpn::H3 | Alpn::H3Other | Alpn::OtherH3)
    }
}

const ALPNS: [Alpn; 5] = [Alpn::H3, Alpn::H3Other, Alpn::OtherH3, Alpn::Other, Alpn::Nothing];

#[derive(Clone, Copy, Debug, Serialize, Deserialize, PartialEq, Eq, Hash)]
pub struct TlsCase {
    pub lib: LibTls,
    pub versions: Versions,
    pub alpn: Alpn,
}

static V13_ONLY: [&rustls::SupportedProtocolVersion; 1] = [&rustls::version::TLS13];
static V12_ONLY: [&rustls::SupportedProtocolVersion; 1] = [&rustls::version::TLS12];
static V12_V13: [&rustls::SupportedProtocolVersion; 2] = [&rustls::version::TLS12, &rustls::version::TLS13];

fn versions_of(v: Versions) -> &'static [&'static rustls::SupportedProtocolVersion] {
    match v {
        Versions::V13 => &V13_ONLY,
        Versions::V12 => &V12_ONLY,
        Versions::V12V13 => &V12_V13,
    }
}

fn roots_with(der: &[u8]) -> Result<rustls::RootCertStore, String> {
    let mut roots = rustls::RootCertStore::empty();
    roots.add(rustls_pki_types::CertificateDer::from(der.to_vec())).map_err(|e| format!("root store: {e}"))?;
    Ok(roots)
}

#[derive(Debug)]
struct HsInfo {
    client_version: Option<rustls::ProtocolVersion>,
    server_version: Option<rustls::ProtocolVersion>,
    client_alpn: Option<Vec<u8>>,
    server_alpn: Option<Vec<u8>>,
}

/// Drives a TLS handshake between two in-memory connections.
fn tls_handshake(c: rustls::ClientConfig, s: rustls::ServerConfig) -> Result<HsInfo, String> {
    let name = rustls_pki_types::ServerName::try_from("localhost").map_err(|e| e.to_string())?;
    let mut client = rustls::ClientConnection::new(Arc::new(c), name).map_err(|e| format!("client connection: {e}"))?;
    let mut server = rustls::ServerConnection::new(Arc::new(s)).map_err(|e| format!("server connection: {e}"))?;
    for _ in 0..64 {
        let mut progressed = false;
        if client.wants_write() {
            let mut buf = Vec::new();
            client.write_tls(&mut buf).map_err(|e| e.to_string())?;
            let mut rd = &buf[..];
            while !rd.is_empty() {
                server.read_tls(&mut rd).map_err(|e| e.to_string())?;
                server.process_new_packets().map_err(|e| format!("server: {e}"))?;
            }
            progressed = true;
        }
        if server.wants_write() {
            let mut buf = Vec::new();
            server.write_tls(&mut buf).map_err(|e| e.to_string())?;
            let mut rd = &buf[..];
            while !rd.is_empty() {
                client.read_tls(&mut rd).map_err(|e| e.to_string())?;
                client.process_new_packets().map_err(|e| format!("client: {e}"))?;
            }
            progressed = true;
        }
        if !client.is_handshaking() && !server.is_handshaking() && !client.wants_write() && !server.wants_write() {
            break;
        }
        if !progressed {
            return Err("handshake stalled".into());
        }
    }
    if client.is_handshaking() || server.is_handshaking() {
        return Err("handshake did not complete".into());
    }
    Ok(HsInfo {
        client_version: client.protocol_version(),
        server_version: server.protocol_version(),
        client_alpn: client.alpn_protocol().map(|a| a.to_vec()),
        server_alpn: server.alpn_protocol().map(|a| a.to_vec()),
    })
}

fn exec_tls(c: &TlsCase) -> Cr {
    let id = identity();
    let der = cert_der(&id);
    let alpn: Vec<Vec<u8>> = c.alpn.list().iter().map(|a| a.to_vec()).collect();
    let (client_cfg, server_cfg) = match c.lib {
        LibTls::ServerDefault => {
            let roots = tri!(roots_with(&der).map_err(Cr::Skip));
            let b = tri!(rustls::ClientConfig::builder_with_provider(ring()).with_protocol_versions(versions_of(c.versions)).map_err(|e| Cr::Skip(e.to_string())));
            let mut peer = b.with_root_certificates(roots).with_no_client_auth();
            peer.alpn_protocols = alpn;
            (peer, wtransport::tls::server::build_default_tls_config(id.clone_identity()))
        }
        lib => {
            let b = tri!(rustls::ServerConfig::builder_with_provider(ring()).with_protocol_versions(versions_of(c.versions)).map_err(|e| Cr::Skip(e.to_string())));
            let key = rustls_pki_types::PrivateKeyDer::Pkcs8(rustls_pki_types::PrivatePkcs8KeyDer::from(id.private_key().secret_der().to_vec()));
            let mut peer = tri!(b.with_no_client_auth().with_single_cert(vec![rustls_pki_types::CertificateDer::from(der.clone())], key).map_err(|e| Cr::Skip(e.to_string())));
            peer.alpn_protocols = alpn;
            let lib_cfg = match lib {
                LibTls::ClientRoots => wtransport::tls::client::build_default_tls_config(Arc::new(tri!(roots_with(&der).map_err(Cr::Skip))), None),
                LibTls::ClientNoValidation => wtransport::tls::client::build_default_tls_config(Arc::new(rustls::RootCertStore::empty()), Some(Arc::new(wtransport::tls::client::NoServerVerification::new()))),
                _ => wtransport::tls::client::build_default_tls_config(
                    Arc::new(rustls::RootCertStore::empty()),
                    Some(Arc::new(wtransport::tls::client::ServerHashVerification::new([id.certificate_chain().as_slice()[0].hash()]))),
                ),
            };
            (lib_cfg, peer)
        }
    };
    let r = tls_handshake(client_cfg, server_cfg);
    let mut labels: Vec<&'static str> = vec![match c.lib {
        LibTls::ServerDefault => "tls:server-default",
        LibTls::ClientRoots => "tls:client-roots",
        LibTls::ClientNoValidation => "tls:client-no-validation",
        LibTls::ClientHashes => "tls:client-hashes",
    }];
    let tls13 = Some(rustls::ProtocolVersion::TLSv1_3);
    match (c.versions, c.alpn) {
        (Versions::V12, _) => match r {
            Err(_) => labels.push("tls12:refused"),
            Ok(info) => return fail("C20:tls:version", format!("{c:?}: handshake with a TLS-1.2-only peer succeeded: {info:?}")),
        },
        (_, Alpn::Other) => match r {
            Err(_) => labels.push("alpn:not-h3-refused"),
            Ok(info) => return fail("C20:tls:alpn", format!("{c:?}: handshake with a peer that only speaks {:?} succeeded: {info:?}", String::from_utf8_lossy(OTHER))),
        },
        (_, Alpn::Nothing) => {
            // plain TLS lets a peer skip ALPN altogether (QUIC does not: see alpn-quic); whatever
            // happens, nothing but h3 / TLS 1.3 may come out
            if let Ok(info) = r {
                if info.client_version != tls13 || info.server_version != tls13 {
                    return fail("C20:tls:version", format!("{c:?}: negotiated {info:?}"));
                }
                if info.client_alpn.as_deref().map(|a| a != H3).unwrap_or(false) || info.server_alpn.as_deref().map(|a| a != H3).unwrap_or(false) {
                    return fail("C20:tls:alpn", format!("{c:?}: negotiated {info:?}"));
                }
            }
            labels.push("alpn:none-offered");
        }
        _ => match r {
            Err(e) => return fail("C20:tls:handshake", format!("{c:?}: handshake with a TLS 1.3 / h3 peer failed: {e}")),
            Ok(info) => {
                if info.client_version != tls13 || info.server_version != tls13 {
                    return fail("C20:tls:version", format!("{c:?}: negotiated {info:?}"));
                }
                if info.client_alpn.as_deref() != Some(H3) || info.server_alpn.as_deref() != Some(H3) {
                    return fail("C20:tls:alpn", format!("{c:?}: negotiated {info:?}"));
                }
                labels.push("tls13+h3:negotiated");
            }
        },
    }
    debug_assert!(c.alpn.has_h3() || !labels.contains(&"tls13+h3:negotiated"));
    Cr::Pass { nontrivial: !(c.versions == Versions::V13 && c.alpn == Alpn::H3), labels }
}

fn tls_cells() -> Vec<TlsCase> {
    let mut v = Vec::new();
    for lib in [LibTls::ServerDefault, LibTls::ClientRoots, LibTls::ClientNoValidation, LibTls::ClientHashes] {
        for versions in [Versions::V13, Versions::V12, Versions::V12V13] {
            for alpn in ALPNS {
                v.push(TlsCase { lib, versions, alpn });
            }
        }
    }
    v
}

// ------------------------------------------------------------------------------------------
// sub-check "alpn-quic": QUIC handshakes of a raw peer against every builder path
// ------------------------------------------------------------------------------------------

#[derive(Clone, Copy, Debug, Serialize, Deserialize, PartialEq, Eq, Hash)]
pub struct AlpnCase {
    pub role: Role,
    pub path: Path,
    pub alpn: Alpn,
}

fn alpn_cells() -> Vec<AlpnCase> {
    let mut v = Vec::new();
    for alpn in ALPNS {
        for path in SERVER_PATHS {
            v.push(AlpnCase { role: Role::Server, path, alpn });
        }
        for path in CLIENT_PATHS {
            v.push(AlpnCase { role: Role::Client, path, alpn });
        }
    }
    v
}

fn quic_protocol(hd: Option<Box<dyn std::any::Any>>) -> Option<Vec<u8>> {
    hd.and_then(|h| h.downcast::<quinn::crypto::rustls::HandshakeData>().ok()).and_then(|h| h.protocol)
}

async fn alpn_cell(c: AlpnCase) -> Cr {
    let id = identity();
    let list = c.alpn.list();
    let mut labels = vec![c.path.label(c.role)];
    match c.role {
        Role::Server => {
            let (cfg, _) = tri!(make_server(Bind::AddrV4 { any: false }, 0, c.path, &Knobs::DEFAULT, &id).map_err(mk_to_cr));
            let ep = Arc::new(tri!(Endpoint::server(cfg).map_err(|e| Cr::Skip(format!("server endpoint: {e}")))));
            let addr = tri!(ep.local_addr().map_err(|e| Cr::Skip(e.to_string())));
            let ep2 = ep.clone();
            let acceptor = tokio::spawn(async move {
                loop {
                    let inc = ep2.accept().await;
                    tokio::spawn(async move {
                        let _ = inc.await;
                    });
                }
            });
            let r = tokio::time::timeout(Duration::from_secs(5), wire::raw_connect_alpn(addr, &Tuning::default(), &list)).await;
            acceptor.abort();
            match r {
                Err(_) => return soft("C20:tls:handshake", format!("{c:?}: QUIC handshake neither completed nor failed within 5 s")),
                Ok(Ok((_ep, conn))) => {
                    if !c.alpn.has_h3() {
                        return fail("C20:tls:alpn", format!("{c:?}: the server completed a QUIC handshake with a peer offering {:?}, negotiated {:?}", list.iter().map(|a| String::from_utf8_lossy(a).to_string()).collect::<Vec<_>>(), quic_protocol(conn.handshake_data())));
                    }
                    let p = quic_protocol(conn.handshake_data());
                    if p.as_deref() != Some(H3) {
                        return fail("C20:tls:alpn", format!("{c:?}: negotiated protocol {p:?}, expected h3"));
                    }
                    labels.push("quic:h3-negotiated");
                }
                Ok(Err(e)) => {
                    if c.alpn.has_h3() {
                        return soft("C20:tls:handshake", format!("{c:?}: a raw peer offering h3 could not connect: {e}"));
                    }
                    labels.push("alpn:not-h3-refused");
                }
            }
        }
        Role::Client => {
            let crypto = tri!(quinn::crypto::rustls::QuicServerConfig::try_from(wire::raw_server_tls(&raw_cert(&id), &list)).map_err(|e| Cr::Skip(e.to_string())));
            let mut scfg = quinn::ServerConfig::with_crypto(Arc::new(crypto));
            scfg.transport_config(Arc::new(wire::transport(&Tuning::default())));
            let raw = tri!(quinn::Endpoint::server(scfg, SocketAddr::new(Ipv4Addr::LOCALHOST.into(), 0)).map_err(|e| Cr::Skip(format!("raw server: {e}"))));
            let addr = tri!(raw.local_addr().map_err(|e| Cr::Skip(e.to_string())));
            let (cfg, _) = tri!(make_client(Bind::AddrV4 { any: false }, 0, c.path, &Knobs::DEFAULT, Some(&id)).map_err(mk_to_cr));
            let client = tri!(Endpoint::client(cfg).map_err(|e| Cr::Skip(format!("client endpoint: {e}"))));
            let serve = async {
                let inc = raw.accept().await.ok_or("raw endpoint closed")?;
                let mut connecting = inc.accept().map_err(|e| e.to_string())?;
                let seen = connecting.handshake_data().await.ok().map(|h| quic_protocol(Some(h)));
                let conn = match connecting.await {
                    Ok(c) => c,
                    Err(_) => return Ok::<_, String>((seen, None)),
                };
                // answer the session request so that `connect` can complete
                let control = wire::open_control(&conn, &wire::default_settings()).await?;
                let (mut rs, mut rr) = conn.accept_bi().await.map_err(|e| e.to_string())?;
                let mut buf = Vec::new();
                wire::read_frame_of(&mut rr, &mut buf, &[refcodec::registry::FRAME_HEADERS], Duration::from_secs(4)).await?;
                rs.write_all(&wire::response_frame("200", &[])).await.map_err(|e| e.to_string())?;
                Ok((seen, Some((conn, control, rs, rr))))
            };
            let url = url_of(addr);
            let both = async { tokio::join!(serve, client.connect(url)) };
            let (sres, cres) = match tokio::time::timeout(Duration::from_secs(6), both).await {
                Ok(x) => x,
                Err(_) => return soft("C20:tls:handshake", format!("{c:?}: connect neither completed nor failed within 6 s")),
            };
            if c.alpn.has_h3() {
                let seen = match &sres {
                    Ok((seen, _)) => seen.clone(),
                    Err(e) => return soft("C20:tls:handshake", format!("{c:?}: raw server: {e}")),
                };
                match seen {
                    Some(Some(p)) if p == H3 => labels.push("quic:h3-negotiated"),
                    other => return fail("C20:tls:alpn", format!("{c:?}: the raw server offering h3 saw protocol {other:?} from the client")),
                }
                if c.path.trusting() {
                    match cres {
                        Ok(conn) => {
                            if alpn_of(&conn).as_deref() != Some(H3) {
                                return fail("C20:tls:alpn", format!("{c:?}: client-side negotiated ALPN {:?}", alpn_of(&conn)));
                            }
                        }
                        Err(e) => return soft("C20:tls:handshake", format!("{c:?}: connect to a raw h3 server failed: {e}")),
                    }
                }
            } else {
                if let Ok(conn) = cres {
                    return fail("C20:tls:alpn", format!("{c:?}: the client connected to a server that does not speak h3 (negotiated {:?})", alpn_of(&conn)));
                }
                labels.push("alpn:not-h3-refused");
            }
        }
    }
    Cr::Pass { nontrivial: c.alpn != Alpn::H3, labels }
}

fn exec_alpn(c: &AlpnCase) -> Cr {
    let c = *c;
    on_rt(0, Duration::from_secs(15), alpn_cell(c)).unwrap_or_else(|| soft("C20:tls:handshake", format!("{c:?}: cell did not finish in 15 s")))
}

// ------------------------------------------------------------------------------------------
// sub-checks "transport-static" / "idle-boundaries"
// ------------------------------------------------------------------------------------------

#[derive(Clone, Copy, Debug, Serialize, Deserialize, PartialEq, Eq, Hash)]
pub struct TransportCase {
    pub role: Role,
    pub path: Path,
    pub knobs: Knobs,
}

fn default_transport_field(name: &str) -> Result<String, Cr> {
    one_field(&format!("{:?}", QuicTransportConfig::default()), name)
}

fn exec_transport(c: &TransportCase) -> Cr {
    if !c.path.valid_for(c.role) {
        return Cr::Skip("path not valid for role".into());
    }
    let mut k = c.knobs;
    if c.role == Role::Client {
        k.migration = None;
    }
    let id = identity();
    let bind = Bind::AddrV4 { any: false };
    let dbg = match c.role {
        Role::Server => make_server(bind, 0, c.path, &k, &id).map(|(cfg, _)| format!("{:?}", cfg.quic_config())),
        Role::Client => make_client(bind, 0, c.path, &k, Some(&id)).map(|(cfg, _)| format!("{:?}", cfg.quic_config())),
    };
    let refuse = must_refuse(k.idle);
    let mut labels = vec![c.path.label(c.role)];
    let dbg = match dbg {
        Ok(d) => d,
        Err(Mk::Refused) => {
            if refuse {
                labels.push("idle:refused");
                return Cr::Pass { nontrivial: true, labels };
            }
            return fail("C20:idle:refused-representable", format!("{c:?}: max_idle_timeout({:?}) answered InvalidIdleTimeout although the value is below 2^62 ms", k.idle.dur()));
        }
        Err(Mk::Inexpressible(_)) => return Cr::Pass { nontrivial: false, labels: vec![] },
        Err(Mk::Harness(w)) => return Cr::Skip(w),
    };
    let got_idle = tri!(one_field(&dbg, "max_idle_timeout"));
    if refuse {
        return fail("C20:idle:not-refused", format!("{c:?}: max_idle_timeout({:?}) (>= 2^62 ms) was accepted; the configuration now says max_idle_timeout: {got_idle}", k.idle.dur()));
    }
    let want_idle = match k.idle {
        Sel::NotSet if c.path.custom_transport() => format!("Some({BASE_IDLE_MS})"),
        Sel::NotSet => tri!(default_transport_field("max_idle_timeout")),
        Sel::Off => "None".to_string(),
        Sel::Dur { .. } => format!("Some({})", k.idle.dur().unwrap().as_millis()),
    };
    if got_idle != want_idle {
        return fail("C20:transport:idle", format!("{c:?}: requested idle timeout {:?} (ms: {want_idle}), the QUIC configuration says max_idle_timeout: {got_idle}", k.idle));
    }
    let got_ka = tri!(one_field(&dbg, "keep_alive_interval"));
    let want_ka = match k.keep_alive {
        Sel::NotSet if c.path.custom_transport() => format!("{:?}", Some(Duration::from_millis(BASE_KEEP_ALIVE_MS))),
        Sel::NotSet => tri!(default_transport_field("keep_alive_interval")),
        Sel::Off => "None".to_string(),
        Sel::Dur { .. } => format!("{:?}", k.keep_alive.dur()),
    };
    if got_ka != want_ka {
        return fail("C20:transport:keep-alive", format!("{c:?}: requested keep-alive {:?} ({want_ka}), the QUIC configuration says keep_alive_interval: {got_ka}", k.keep_alive));
    }
    if c.role == Role::Server {
        let got = tri!(one_field(&dbg, "migration"));
        // "Enabled by default" (rustdoc of allow_migration)
        let want = k.migration.unwrap_or(true).to_string();
        if got != want {
            return fail("C20:transport:migration", format!("{c:?}: requested migration {:?} ({want}), the QUIC configuration says migration: {got}", k.migration));
        }
        labels.push(if want == "true" { "static:migration-on" } else { "static:migration-off" });
    }
    let got_mark = tri!(one_field(&dbg, "max_concurrent_uni_streams"));
    if c.path.custom_transport() {
        if got_mark != BASE_MARK_UNI.to_string() {
            return fail("C20:transport:custom-lost", format!("{c:?}: the custom transport configuration asked for max_concurrent_uni_streams {BASE_MARK_UNI}, the QUIC configuration says {got_mark}"));
        }
    } else if got_mark != tri!(default_transport_field("max_concurrent_uni_streams")) {
        return fail("C20:transport:custom-lost", format!("{c:?}: max_concurrent_uni_streams {got_mark} differs from the default although no custom transport was given"));
    }
    if let Some(d) = k.idle.dur() {
        if d.as_millis() == IDLE_LIMIT_MS - 1 {
            labels.push("idle:accepted-boundary");
        }
        if d.subsec_nanos() % 1_000_000 != 0 {
            labels.push("idle:sub-ms-part");
        }
    }
    match k.keep_alive {
        Sel::Dur { .. } => labels.push("static:keep-alive-on"),
        Sel::Off => labels.push("static:keep-alive-off"),
        Sel::NotSet => {}
    }
    Cr::Pass { nontrivial: !k.is_default(), labels }
}

fn boundary_durations() -> Vec<Duration> {
    let ms = Duration::from_millis;
    let top = (1u64 << 62) - 1;
    vec![
        ms(1),
        ms(1) + Duration::from_nanos(999_999),
        ms(2),
        ms(1000),
        ms(30_000),
        ms(u32::MAX as u64),
        ms(1 << 32),
        ms(1 << 53),
        ms(top - 1),
        ms(top),
        ms(top) + Duration::from_nanos(999_999),
        ms(top + 1),
        ms(top + 1) + Duration::from_nanos(1),
        ms(top + 2),
        ms(1 << 63),
        ms(u64::MAX),
        Duration::new(u64::MAX, 0),
        Duration::MAX,
    ]
}

fn setter_paths(role: Role) -> Vec<Path> {
    let all: &[Path] = if role == Role::Server { &SERVER_PATHS } else { &CLIENT_PATHS };
    all.iter().copied().filter(|p| *p != Path::QuicConfig).collect()
}

fn boundary_cells() -> Vec<TransportCase> {
    let mut v = Vec::new();
    for role in [Role::Server, Role::Client] {
        for path in setter_paths(role) {
            for d in boundary_durations() {
                v.push(TransportCase { role, path, knobs: Knobs { idle: Sel::of(d), keep_alive: Sel::NotSet, migration: None } });
            }
            v.push(TransportCase { role, path, knobs: Knobs { idle: Sel::Off, keep_alive: Sel::NotSet, migration: None } });
            v.push(TransportCase { role, path, knobs: Knobs::DEFAULT });
        }
    }
    v
}

fn idle_strategy() -> impl Strategy<Value = Sel> {
    let top = (1u64 << 62) - 1;
    prop_oneof![
        1 => Just(Sel::NotSet),
        1 => Just(Sel::Off),
        4 => (1u64..=5_000_000, prop_oneof![Just(0u32), 0u32..1_000_000]).prop_map(|(ms, ns)| Sel::of(Duration::from_millis(ms) + Duration::from_nanos(ns as u64))),
        2 => (proptest::sample::select(vec![1u64, 2, 1000, u32::MAX as u64, 1 << 32, 1 << 53, top - 1, top]), prop_oneof![Just(0u32), Just(999_999u32), 0u32..1_000_000]).prop_map(|(ms, ns)| Sel::of(Duration::from_millis(ms) + Duration::from_nanos(ns as u64))),
        2 => (1u64..=top).prop_map(Sel::ms),
        2 => (proptest::sample::select(vec![top + 1, top + 2, 1 << 63, u64::MAX]), 0u32..1_000_000).prop_map(|(ms, ns)| Sel::of(Duration::from_millis(ms) + Duration::from_nanos(ns as u64))),
        1 => ((top + 1)..=u64::MAX).prop_map(Sel::ms),
        1 => Just(Sel::of(Duration::MAX)),
        1 => (any::<u64>(), 0u32..1_000_000_000).prop_map(|(secs, nanos)| Sel::Dur { secs, nanos }),
    ]
}

fn keep_alive_strategy() -> impl Strategy<Value = Sel> {
    prop_oneof![
        2 => Just(Sel::NotSet),
        2 => Just(Sel::Off),
        4 => (1u64..=120_000).prop_map(Sel::ms),
        2 => (0u64..100, 0u32..1_000_000_000).prop_map(|(secs, nanos)| Sel::Dur { secs, nanos }),
        1 => (any::<u64>(), 0u32..1_000_000_000).prop_map(|(secs, nanos)| Sel::Dur { secs, nanos }),
        1 => Just(Sel::of(Duration::MAX)),
        1 => Just(Sel::of(Duration::ZERO)),
    ]
}

fn transport_strategy() -> impl Strategy<Value = TransportCase> {
    let role_path = prop_oneof![
        5 => proptest::sample::select(SERVER_PATHS.to_vec()).prop_map(|p| (Role::Server, p)),
        // with_native_certs / with_custom_transport read the platform's root store: fewer of them
        1 => proptest::sample::select(vec![Path::NativeCerts, Path::CustomTransport]).prop_map(|p| (Role::Client, p)),
        5 => proptest::sample::select(TRUSTING_CLIENT_PATHS.to_vec()).prop_map(|p| (Role::Client, p)),
    ];
    (role_path, idle_strategy(), keep_alive_strategy(), proptest::option::of(any::<bool>())).prop_map(|((role, path), idle, keep_alive, migration)| TransportCase {
        role,
        path,
        knobs: Knobs { idle, keep_alive, migration: if role == Role::Server { migration } else { None } },
    })
}

// ------------------------------------------------------------------------------------------
// sub-check "behaviour": the configured values govern real connections
// ------------------------------------------------------------------------------------------

#[derive(Clone, Copy, Debug, Serialize, Deserialize, PartialEq, Eq, Hash)]
pub enum Kind {
    /// idle timeout d, both directions black-holed: TimedOut within [0.5 d, d + 3 s]
    Blackhole,
    /// idle timeout d, keep-alive d / ka_div, no traffic: alive after 4 d
    KeepAliveSurvives,
    /// idle timeout d, no keep-alive, no traffic: TimedOut within [0.5 d, d + 3 s]
    NoKeepAliveTimesOut,
    /// server with allow_migration(m) and a raw client that moves to another socket
    Migration,
    /// reload_config with a new identity, with or without rebind
    Reload,
}

#[derive(Clone, Copy, Debug, Serialize, Deserialize, PartialEq, Eq, Hash)]
pub struct BehCase {
    pub kind: Kind,
    /// the side whose configuration is under test
    pub role: Role,
    pub path: Path,
    pub idle_ms: u64,
    pub ka_div: u8,
    /// the keep-alive is requested on the other side than the idle timeout
    pub ka_on_peer: bool,
    /// the peer's own idle timeout is infinite instead of 20 s
    pub peer_idle_infinite: bool,
    pub migration: bool,
    pub rebind: bool,
    pub fixed_port: bool,
    pub flavor: u8,
}

impl BehCase {
    fn norm(mut self) -> BehCase {
        if matches!(self.kind, Kind::Migration | Kind::Reload) {
            self.role = Role::Server;
        }
        match self.role {
            Role::Server if !self.path.valid_for(Role::Server) => self.path = Path::Identity,
            Role::Client if !self.path.trusting() => self.path = Path::NoValidation,
            _ => {}
        }
        self.idle_ms = self.idle_ms.clamp(150, 5_000);
        self.ka_div = self.ka_div.clamp(3, 8);
        self
    }
}

const SLACK: Duration = Duration::from_secs(3);

struct Session {
    server_ep: Endpoint<Server>,
    _client_ep: Endpoint<Client>,
    server: Connection,
    client: Connection,
    relay: Option<Relay>,
}

/// Establishes a session with the knobs under test on `c.role`'s side.
async fn idle_session(c: &BehCase, id: &Identity, test: Knobs, peer: Knobs, via_relay: bool) -> Result<Session, Cr> {
    let v4 = Bind::AddrV4 { any: false };
    let (scfg, ccfg) = match c.role {
        Role::Server => (make_server(v4, 0, c.path, &test, id), make_client(v4, 0, Path::NoValidation, &peer, Some(id))),
        Role::Client => (make_server(v4, 0, Path::Identity, &peer, id), make_client(v4, 0, c.path, &test, Some(id))),
    };
    let (scfg, _) = scfg.map_err(mk_to_cr)?;
    let (ccfg, _) = ccfg.map_err(mk_to_cr)?;
    let server_ep = Endpoint::server(scfg).map_err(|e| Cr::Skip(format!("server endpoint: {e}")))?;
    let client_ep = Endpoint::client(ccfg).map_err(|e| Cr::Skip(format!("client endpoint: {e}")))?;
    let saddr = server_ep.local_addr().map_err(|e| Cr::Skip(e.to_string()))?;
    let relay = if via_relay { Some(Relay::start(saddr, vcore::hash64(&format!("{c:?}"))).await) } else { None };
    let target = relay.as_ref().map(|r| r.addr).unwrap_or(saddr);
    let both = async { tokio::join!(accept_one(&server_ep), client_ep.connect(url_of(target))) };
    match tokio::time::timeout(Duration::from_secs(5), both).await {
        Err(_) => Err(soft("C20:behaviour:no-session", format!("{c:?}: no session within 5 s"))),
        Ok((Ok((_, server)), Ok(client))) => Ok(Session { server_ep, _client_ep: client_ep, server, client, relay }),
        Ok((Err(e), _)) => Err(soft("C20:behaviour:no-session", format!("{c:?}: server side: {e}"))),
        Ok((_, Err(e))) => Err(soft("C20:behaviour:no-session", format!("{c:?}: connect: {e}"))),
    }
}

/// Waits for the connection under test to end and judges error and time.
async fn expect_timed_out(c: &BehCase, conn: &Connection, t0: Instant, d: Duration) -> Result<(), Cr> {
    match tokio::time::timeout(d + SLACK + Duration::from_millis(500), conn.closed()).await {
        Err(_) => Err(soft("C20:idle:not-applied", format!("{c:?}: the connection with idle timeout {d:?} was still open {:?} after the last activity", t0.elapsed()))),
        Ok(err) => {
            let e = t0.elapsed();
            if !matches!(err, wtransport::error::ConnectionError::TimedOut) {
                Err(soft("C20:idle:wrong-error", format!("{c:?}: the connection ended after {e:?} with {err:?} instead of TimedOut")))
            } else if e < d / 2 {
                Err(soft("C20:idle:too-early", format!("{c:?}: idle timeout {d:?} but the connection timed out after {e:?}")))
            } else if e > d + SLACK {
                Err(soft("C20:idle:too-late", format!("{c:?}: idle timeout {d:?} but the connection timed out only after {e:?}")))
            } else {
                Ok(())
            }
        }
    }
}

async fn idle_case(c: BehCase) -> Cr {
    let id = identity();
    let d = Duration::from_millis(c.idle_ms);
    let ka = Sel::ms((c.idle_ms / c.ka_div as u64).max(1));
    let quiet = if c.path.custom_transport() { Sel::Off } else { Sel::NotSet };
    let mut test = Knobs { idle: Sel::ms(c.idle_ms), keep_alive: quiet, migration: None };
    let mut peer = Knobs { idle: if c.peer_idle_infinite { Sel::Off } else { Sel::ms(20_000) }, keep_alive: Sel::NotSet, migration: None };
    if c.kind == Kind::KeepAliveSurvives {
        if c.ka_on_peer {
            peer.keep_alive = ka;
        } else {
            test.keep_alive = ka;
        }
    }
    let s = tri!(idle_session(&c, &id, test, peer, c.kind == Kind::Blackhole).await);
    let conn = if c.role == Role::Server { &s.server } else { &s.client };
    let mut labels = vec![c.path.label(c.role)];
    match c.kind {
        Kind::Blackhole => {
            tokio::time::sleep(Duration::from_millis(50)).await;
            s.relay.as_ref().unwrap().blackhole(true, true);
            let t0 = Instant::now();
            tri!(expect_timed_out(&c, conn, t0, d).await);
            labels.push("behaviour:blackhole-timed-out");
        }
        Kind::NoKeepAliveTimesOut => {
            let t0 = Instant::now();
            tri!(expect_timed_out(&c, conn, t0, d).await);
            labels.push("behaviour:no-keepalive-timed-out");
        }
        _ => {
            let t0 = Instant::now();
            if let Ok(err) = tokio::time::timeout(4 * d, conn.closed()).await {
                return soft("C20:keep-alive:not-applied", format!("{c:?}: idle timeout {d:?}, keep-alive {:?} on the {} side: the idle connection ended after {:?} with {err:?}", ka.dur().unwrap(), if c.ka_on_peer { "other" } else { "same" }, t0.elapsed()));
            }
            if let Err(e) = echo_once(&s.client, &s.server, 7).await {
                return soft("C20:keep-alive:not-applied", format!("{c:?}: after 4 x idle the kept-alive connection does not carry a stream: {e}"));
            }
            labels.push("behaviour:keepalive-survived");
            if c.ka_on_peer {
                labels.push("behaviour:keepalive-on-other-side");
            }
        }
    }
    drop(s.server_ep);
    Cr::Pass { nontrivial: true, labels }
}

async fn migration_case(c: BehCase) -> Cr {
    let id = identity();
    let k = Knobs { idle: Sel::NotSet, keep_alive: Sel::NotSet, migration: Some(c.migration) };
    let (cfg, _) = tri!(make_server(Bind::AddrV4 { any: false }, 0, c.path, &k, &id).map_err(mk_to_cr));
    let server_ep = tri!(Endpoint::server(cfg).map_err(|e| Cr::Skip(format!("server endpoint: {e}"))));
    let addr = tri!(server_ep.local_addr().map_err(|e| Cr::Skip(e.to_string())));
    let tuning = Tuning::default();
    let both = async { tokio::join!(accept_one(&server_ep), wire::raw_client_session(addr, &tuning, "/")) };
    let (server, raw) = match tokio::time::timeout(Duration::from_secs(5), both).await {
        Ok((Ok((_, s)), Ok(r))) => (s, r),
        Ok((Err(e), _)) | Ok((_, Err(e))) => return soft("C20:behaviour:no-session", format!("{c:?}: {e}")),
        Err(_) => return soft("C20:behaviour:no-session", format!("{c:?}: no session within 5 s")),
    };
    let old = server.remote_address();
    let sock = tri!(UdpSocket::bind((Ipv4Addr::LOCALHOST, 0)).map_err(|e| Cr::Skip(e.to_string())));
    tri!(raw.endpoint.rebind(sock).map_err(|e| Cr::Skip(format!("raw rebind: {e}"))));
    let new_local = tri!(raw.endpoint.local_addr().map_err(|e| Cr::Skip(e.to_string())));
    if new_local.port() == old.port() {
        return Cr::Skip("the new socket got the old port".into());
    }
    let send = async {
        let mut s = wire::raw_open_wt_uni(&raw.conn, raw.session_id).await?;
        s.write_all(b"moved").await.map_err(|e| e.to_string())?;
        s.finish().map_err(|e| e.to_string())?;
        Ok::<_, String>(s)
    };
    let _keep = match tokio::time::timeout(Duration::from_secs(2), send).await {
        Ok(Ok(s)) => s,
        Ok(Err(e)) => return Cr::Skip(format!("raw send after rebind: {e}")),
        Err(_) => return Cr::Skip("raw send after rebind blocked".into()),
    };
    let recv = async {
        let mut r = server.accept_uni().await.map_err(|e| e.to_string())?;
        let mut got = Vec::new();
        let mut buf = [0u8; 64];
        while let Some(n) = r.read(&mut buf).await.map_err(|e| e.to_string())? {
            got.extend_from_slice(&buf[..n]);
        }
        Ok::<_, String>(got)
    };
    let mut labels = vec![c.path.label(Role::Server)];
    if c.migration {
        match tokio::time::timeout(Duration::from_secs(5), recv).await {
            Err(_) => return soft("C20:migration:not-allowed", format!("{c:?}: allow_migration(true), the client moved from {old} to {new_local}; its stream did not arrive within 5 s")),
            Ok(Err(e)) => return soft("C20:migration:not-allowed", format!("{c:?}: after the client moved: {e}")),
            Ok(Ok(got)) => {
                if got != b"moved" {
                    return fail("C20:migration:data", format!("{c:?}: received {got:?}"));
                }
                let now = server.remote_address();
                if now.port() != new_local.port() {
                    return soft("C20:migration:not-allowed", format!("{c:?}: the stream arrived but remote_address() is {now}, the client is at {new_local}"));
                }
            }
        }
        labels.push("migration:on");
    } else {
        match tokio::time::timeout(Duration::from_millis(1500), recv).await {
            Ok(Ok(got)) => return fail("C20:migration:not-denied", format!("{c:?}: allow_migration(false), yet a stream ({got:?}) sent from the new address {new_local} (old {old}) was delivered; remote_address() = {}", server.remote_address())),
            Ok(Err(_)) | Err(_) => {}
        }
        let now = server.remote_address();
        if now != old {
            return fail("C20:migration:not-denied", format!("{c:?}: allow_migration(false), yet remote_address() moved from {old} to {now}"));
        }
        labels.push("migration:off");
    }
    Cr::Pass { nontrivial: true, labels }
}

fn peer_cert(conn: &Connection) -> Option<Vec<u8>> {
    conn.peer_identity().and_then(|c| c.as_slice().first().map(|c| c.der().to_vec()))
}

async fn session_to(server_ep: &Endpoint<Server>, client_ep: &Endpoint<Client>, addr: SocketAddr) -> Result<(Connection, Connection), String> {
    let both = async { tokio::join!(accept_one(server_ep), client_ep.connect(url_of(addr))) };
    match tokio::time::timeout(Duration::from_secs(5), both).await {
        Err(_) => Err("no session within 5 s".into()),
        Ok((Ok((_, s)), Ok(c))) => Ok((s, c)),
        Ok((Err(e), _)) => Err(format!("server side: {e}")),
        Ok((_, Err(e))) => Err(format!("connect: {e}")),
    }
}

async fn reload_case(c: BehCase) -> Cr {
    let (id_a, id_b) = (identity(), identity());
    let (der_a, der_b) = (cert_der(&id_a), cert_der(&id_b));
    let v4 = Bind::AddrV4 { any: false };
    let k = Knobs::DEFAULT;
    let (cfg, _) = tri!(make_server(v4, 0, c.path, &k, &id_a).map_err(mk_to_cr));
    let server_ep = tri!(Endpoint::server(cfg).map_err(|e| Cr::Skip(format!("server endpoint: {e}"))));
    let addr1 = tri!(server_ep.local_addr().map_err(|e| Cr::Skip(e.to_string())));
    let client1 = tri!(helper_client(false).map_err(Cr::Skip));
    let (s1, c1) = match session_to(&server_ep, &client1, addr1).await {
        Ok(x) => x,
        Err(e) => return soft("C20:behaviour:no-session", format!("{c:?}: before the reload: {e}")),
    };
    if peer_cert(&c1).as_deref() != Some(&der_a[..]) {
        return fail("C20:reload:cert", format!("{c:?}: before the reload the client does not see the configured certificate"));
    }
    if let Err(e) = echo_once(&c1, &s1, 1).await {
        return soft("C20:behaviour:no-session", format!("{c:?}: echo before the reload: {e}"));
    }
    // reload with identity B
    let mut attempt = 0;
    let want_port = loop {
        attempt += 1;
        let port = if c.fixed_port { tri!(free_port(Ipv4Addr::LOCALHOST.into()).map_err(Cr::Skip)) } else { 0 };
        let bind = if c.fixed_port { Bind::AddrV4 { any: false } } else { v4 };
        let (cfg, _) = tri!(make_server(bind, port, c.path, &k, &id_b).map_err(mk_to_cr));
        match server_ep.reload_config(cfg, c.rebind) {
            Ok(()) => break port,
            Err(e) if c.rebind && c.fixed_port && e.kind() == std::io::ErrorKind::AddrInUse && attempt < 6 => continue,
            Err(e) if e.kind() == std::io::ErrorKind::AddrInUse => return Cr::Skip(format!("no free port for the rebind: {e}")),
            Err(e) => return fail("C20:reload:error", format!("{c:?}: reload_config failed: {e}")),
        }
    };
    let addr2 = tri!(server_ep.local_addr().map_err(|e| Cr::Skip(e.to_string())));
    let mut labels = vec![c.path.label(Role::Server)];
    if !c.rebind {
        if addr2 != addr1 {
            return fail("C20:reload:rebound-without-request", format!("{c:?}: rebind = false, yet local_addr() changed from {addr1} to {addr2}"));
        }
    } else {
        if addr2.ip() != IpAddr::V4(Ipv4Addr::LOCALHOST) {
            return fail("C20:reload:rebind-address", format!("{c:?}: rebind = true with a 127.0.0.1 bind configuration, local_addr() = {addr2}"));
        }
        if c.fixed_port && addr2.port() != want_port {
            return fail("C20:reload:rebind-port", format!("{c:?}: rebind = true with port {want_port}, local_addr() = {addr2}"));
        }
        if addr2.port() == 0 {
            return fail("C20:reload:rebind-port", format!("{c:?}: local_addr() = {addr2}"));
        }
        labels.push("reload:rebind");
    }
    // a new connection sees the new certificate
    let client2 = tri!(helper_client(false).map_err(Cr::Skip));
    let (s2, c2) = match session_to(&server_ep, &client2, addr2).await {
        Ok(x) => x,
        Err(e) => return soft("C20:reload:new-conn", format!("{c:?}: a new connection to {addr2} after the reload: {e}")),
    };
    match peer_cert(&c2) {
        Some(d) if d == der_b => {}
        Some(d) if d == der_a => return fail("C20:reload:old-cert", format!("{c:?}: a connection established after reload_config still sees the old certificate")),
        other => return fail("C20:reload:cert", format!("{c:?}: after the reload the client sees an unexpected certificate ({} bytes)", other.map(|d| d.len()).unwrap_or(0))),
    }
    if let Err(e) = echo_once(&c2, &s2, 2).await {
        return soft("C20:reload:new-conn", format!("{c:?}: echo on the new connection: {e}"));
    }
    // ... and so does a client that pins the new certificate's hash
    let (pin_cfg, _) = tri!(make_client(v4, 0, Path::CertHashes, &Knobs::DEFAULT, Some(&id_b)).map_err(mk_to_cr));
    let client3 = tri!(Endpoint::client(pin_cfg).map_err(|e| Cr::Skip(e.to_string())));
    if let Err(e) = session_to(&server_ep, &client3, addr2).await {
        return soft("C20:reload:new-conn", format!("{c:?}: a client pinning the new certificate hash: {e}"));
    }
    labels.push("reload:new-cert");
    if !c.rebind {
        if let Err(e) = echo_once(&c1, &s1, 3).await {
            return soft("C20:reload:old-conn-disturbed", format!("{c:?}: the connection established before reload_config(rebind = false) no longer works: {e}"));
        }
        if peer_cert(&c1).as_deref() != Some(&der_a[..]) {
            return fail("C20:reload:cert", format!("{c:?}: the established connection's peer identity changed"));
        }
        labels.push("reload:old-conn-alive");
    }
    Cr::Pass { nontrivial: true, labels }
}

fn exec_beh(c: &BehCase) -> Cr {
    let c = c.norm();
    let bound = Duration::from_millis(c.idle_ms * 5) + Duration::from_secs(30);
    let r = match c.kind {
        Kind::Blackhole | Kind::KeepAliveSurvives | Kind::NoKeepAliveTimesOut => on_rt(c.flavor, bound, idle_case(c)),
        Kind::Migration => on_rt(c.flavor, bound, migration_case(c)),
        Kind::Reload => on_rt(c.flavor, bound, reload_case(c)),
    };
    r.unwrap_or_else(|| soft("C20:behaviour:hang", format!("{c:?}: case did not finish in {bound:?}")))
}

fn quick_behaviour() -> Vec<BehCase> {
    let base = BehCase { kind: Kind::Blackhole, role: Role::Server, path: Path::Identity, idle_ms: 300, ka_div: 4, ka_on_peer: false, peer_idle_infinite: false, migration: true, rebind: false, fixed_port: false, flavor: 0 };
    vec![
        BehCase { kind: Kind::Blackhole, role: Role::Server, path: Path::Identity, idle_ms: 300, ..base },
        BehCase { kind: Kind::Blackhole, role: Role::Client, path: Path::NoValidation, idle_ms: 450, peer_idle_infinite: true, flavor: 1, ..base },
        BehCase { kind: Kind::Blackhole, role: Role::Server, path: Path::CustomTransport, idle_ms: 600, peer_idle_infinite: true, ..base },
        BehCase { kind: Kind::Blackhole, role: Role::Client, path: Path::QuicConfig, idle_ms: 400, flavor: 2, ..base },
        BehCase { kind: Kind::KeepAliveSurvives, role: Role::Server, path: Path::CustomTls, idle_ms: 400, ka_div: 4, ..base },
        BehCase { kind: Kind::KeepAliveSurvives, role: Role::Client, path: Path::CertHashes, idle_ms: 500, ka_div: 5, flavor: 1, ..base },
        BehCase { kind: Kind::KeepAliveSurvives, role: Role::Server, path: Path::Identity, idle_ms: 400, ka_div: 4, ka_on_peer: true, ..base },
        BehCase { kind: Kind::NoKeepAliveTimesOut, role: Role::Server, path: Path::CustomTlsTransport, idle_ms: 400, ..base },
        BehCase { kind: Kind::NoKeepAliveTimesOut, role: Role::Client, path: Path::CustomTls, idle_ms: 500, peer_idle_infinite: true, flavor: 2, ..base },
        BehCase { kind: Kind::Migration, migration: true, path: Path::Identity, ..base },
        BehCase { kind: Kind::Migration, migration: false, path: Path::Identity, flavor: 1, ..base },
        BehCase { kind: Kind::Migration, migration: false, path: Path::QuicConfig, ..base },
        BehCase { kind: Kind::Reload, rebind: false, path: Path::Identity, ..base },
        BehCase { kind: Kind::Reload, rebind: false, fixed_port: true, path: Path::CustomTls, flavor: 1, ..base },
        BehCase { kind: Kind::Reload, rebind: true, fixed_port: true, path: Path::Identity, ..base },
        BehCase { kind: Kind::Reload, rebind: true, fixed_port: false, path: Path::CustomTransport, flavor: 2, ..base },
    ]
}

fn beh_strategy() -> impl Strategy<Value = BehCase> {
    let kind = prop_oneof![
        3 => Just(Kind::Blackhole),
        3 => Just(Kind::KeepAliveSurvives),
        3 => Just(Kind::NoKeepAliveTimesOut),
        1 => Just(Kind::Migration),
        2 => Just(Kind::Reload),
    ];
    let role_path = prop_oneof![
        proptest::sample::select(SERVER_PATHS.to_vec()).prop_map(|p| (Role::Server, p)),
        proptest::sample::select(TRUSTING_CLIENT_PATHS.to_vec()).prop_map(|p| (Role::Client, p)),
    ];
    (kind, role_path, 200u64..1200, 3u8..7, any::<bool>(), any::<bool>(), any::<bool>(), any::<bool>(), any::<bool>(), 0u8..3).prop_map(|(kind, (role, path), idle_ms, ka_div, ka_on_peer, peer_idle_infinite, migration, rebind, fixed_port, flavor)| {
        // keep the 4 x idle wait of the keep-alive cases short
        let idle_ms = if kind == Kind::KeepAliveSurvives { 250 + idle_ms % 400 } else { idle_ms };
        BehCase { kind, role, path, idle_ms, ka_div, ka_on_peer, peer_idle_infinite, migration, rebind, fixed_port, flavor }.norm()
    })
}

// ------------------------------------------------------------------------------------------
// driver
// ------------------------------------------------------------------------------------------

const ESSENTIAL: [&str; 22] = [
    "preset:LocalV4",
    "preset:LocalV6",
    "preset:LocalDual",
    "preset:InAddrAnyV4",
    "preset:InAddrAnyV6",
    "preset:InAddrAnyDual",
    "dual:OsDefault@wildcard",
    "dual:Deny@wildcard",
    "dual:Allow@wildcard",
    "bind:socket",
    "bind:fixed-port",
    "idle:refused",
    "idle:accepted-boundary",
    "reload:new-cert",
    "reload:old-conn-alive",
    "reload:rebind",
    "alpn:not-h3-refused",
    "tls12:refused",
    "tls13+h3:negotiated",
    "behaviour:blackhole-timed-out",
    "behaviour:keepalive-survived",
    "behaviour:no-keepalive-timed-out",
];

fn run_cells<C: Copy + std::fmt::Debug + Serialize + Sync>(run: &Run, check: &str, workers: usize, cells: &[C], exec: impl Fn(&C) -> Cr + Sync) {
    vcore::par_ranges(workers, cells.len() as u64, |_w, range| {
        for i in range {
            let c = cells[i as usize];
            let o = judge(|| exec(&c));
            record(run, check, o, vcore::hash64(&format!("{c:?}")), &|| serde_json::to_value(c).unwrap());
        }
    });
}

pub fn run(run: &Run) {
    run.set_rule(RULE);
    run.trust("quinn's Debug rendering of its configuration types (fields located by name) as the witness of the applied transport values; rustls as the TLS peer; loop-back UDP; /proc/self/fd + getsockname/getsockopt as the view of the bound socket");
    run.assume("Linux forces IPV6_V6ONLY = 1 on a socket bound to a specific IPv6 address, so the dual-stack mode is asserted on wildcard ([::]) binds only; IPv4 reachability of dual-stack sockets is not asserted (rustdoc: 'if supported')");
    run.assume("idle timeouts are compared at millisecond resolution (QUIC carries max_idle_timeout in milliseconds); values below 1 ms are outside the quantified range");
    run.assume("certificate validation of the native-roots paths is C10's subject: for with_native_certs / with_custom_transport clients only socket, ALPN and transport values are judged");
    run.assume("timed expectations: idle expiry within [0.5 d, d + 3 s] of the last activity, keep-alive survival over 4 d; a miss counts only if it reproduces on 4 of 4 executions");
    if !ipv6_available() {
        run.inconclusive("IPv6 loop-back is not available in this environment: the v6 half of the bind matrix cannot be run");
        return;
    }
    let workers = run.workers().min(8);

    let cells = bind_cells();
    run_cells(run, "bind-matrix", workers, &cells, exec_bind);
    run.section_exhaustive("bind-matrix", true, "every bind choice (default, 6 presets, explicit v4/v6 loop-back and wildcard, with_bind_address_v6 x 3 dual-stack modes, 4 pre-bound sockets) x port 0 / fixed x role x builder path");

    let cells = tls_cells();
    run_cells(run, "tls-inmem", 1, &cells, exec_tls);
    run.section_exhaustive("tls-inmem", true, "4 library-built TLS configurations x peer versions {1.3, 1.2, 1.2+1.3} x 5 ALPN lists");

    let cells = alpn_cells();
    run_cells(run, "alpn-quic", workers, &cells, exec_alpn);
    run.section_exhaustive("alpn-quic", true, "every builder path of both roles x 5 ALPN lists of the raw QUIC peer");

    let cells = boundary_cells();
    run_cells(run, "idle-boundaries", workers, &cells, exec_transport);
    run.section_exhaustive("idle-boundaries", true, "every setter path of both roles x 18 idle timeouts around 1 ms, 2^32 ms, 2^62 ms and Duration::MAX, None, not set");

    prop_search(
        run,
        Search { check: "transport-static", cases: run.tier.pick(300_000, 3_000_000), workers: run.workers(), max_shrink_iters: 400 },
        transport_strategy,
        |c| judge(|| exec_transport(c)),
        |c| serde_json::to_value(c).unwrap(),
    );

    // observation (not judged: below the quantified range): what a sub-millisecond idle timeout becomes
    {
        let k = Knobs { idle: Sel::of(Duration::from_micros(999)), keep_alive: Sel::NotSet, migration: None };
        let shown = match make_server(Bind::AddrV4 { any: false }, 0, Path::Identity, &k, &identity()) {
            Ok((cfg, _)) => fields_named(&format!("{:?}", cfg.quic_config()), "max_idle_timeout").join(" / "),
            Err(Mk::Refused) => "refused".to_string(),
            Err(_) => "?".to_string(),
        };
        run.extra("observation_idle_999us", serde_json::json!({ "requested": "Some(999us)", "max_idle_timeout_in_quic_config": shown, "note": "0 ms means 'no idle timeout' on the wire (RFC 9000 18.2); values below 1 ms are outside the quantified range and are not judged" }));
    }

    let cells = quick_behaviour();
    run_cells(run, "behaviour-fixed", 4, &cells, exec_beh);
    run.section_exhaustive("behaviour-fixed", false, "16 fixed behavioural samples");
    for l in ["migration:on", "migration:off"] {
        run.essential(l);
    }
    if run.tier == vcore::Tier::Thorough {
        prop_search(run, Search { check: "behaviour", cases: 300, workers: 6, max_shrink_iters: 12 }, beh_strategy, |c| judge(|| exec_beh(c)), |c| serde_json::to_value(c).unwrap());
    }
    for l in ESSENTIAL {
        run.essential(l);
    }
    for l in PATH_LABELS {
        run.essential(l);
    }
}

pub fn replay(run: &Run, doc: &Value) -> bool {
    let check = doc["check"].as_str().unwrap_or("");
    let case = doc["case"].clone();
    let o = match check {
        "bind-matrix" => serde_json::from_value::<BindCase>(case.clone()).ok().map(|c| judge(|| exec_bind(&c))),
        "tls-inmem" => serde_json::from_value::<TlsCase>(case.clone()).ok().map(|c| judge(|| exec_tls(&c))),
        "alpn-quic" => serde_json::from_value::<AlpnCase>(case.clone()).ok().map(|c| judge(|| exec_alpn(&c))),
        "idle-boundaries" | "transport-static" => serde_json::from_value::<TransportCase>(case.clone()).ok().map(|c| judge(|| exec_transport(&c))),
        "behaviour" | "behaviour-fixed" => serde_json::from_value::<BehCase>(case.clone()).ok().map(|c| judge(|| exec_beh(&c))),
        _ => None,
    };
    let Some(o) = o else { return false };
    match o {
        Outcome::Pass { .. } => run.eval(check, true, 1),
        Outcome::Fail { signature, message } => {
            run.eval(check, false, 0);
            run.fail(check, &signature, &message, case);
        }
        Outcome::Inconclusive(w) => run.inconclusive(&w),
    }
    true
}
