//! C01 — stream bytes arrive exactly, in order, with framing invisible.

use crate::common::*;
use proptest::prelude::*;
use serde::{Deserialize, Serialize};
use serde_json::Value;
use std::collections::BTreeMap;
use std::sync::{Arc, Mutex};
use std::time::Duration;
use vcore::{prop_search, Outcome, Run, Search};
use wire::*;
use wtransport::{Connection, RecvStream, SendStream};

const RULE: &str = "case = runtime flavour x receive windows (1 KiB / 4 KiB / default per stream) x 1..12 (thorough 24) concurrently active streams, each with direction, kind (uni/bidi), payload length from {0,1,2,3,63..65, window+-1, 2-5 windows, random}, keyed pseudo-random content (a fraction starting with bytes that look like framing: 41 00, 40 54 00, 54 00, DATA header), write plan (chunk sizes, write vs write_all), read plan (buffer sizes, read vs read_exact), independent reverse payload for bidi; variants: wtransport<->wtransport, raw peer -> wtransport with the preamble cut at every byte offset (session ids 0 and 256), wtransport -> raw recorder. Oracle: bytes read == bytes written in order, then end-of-stream; stream counts and id parity. Non-trivial: >= 1 payload byte and (> 1 write chunk or > 1 read or > 1 concurrent stream or length > stream window or split preamble); distinct = distinct case";

#[derive(Clone, Debug, Serialize, Deserialize)]
pub struct StreamSpec {
    /// true: opened by the client
    pub from_client: bool,
    pub bidi: bool,
    pub len: u32,
    pub head: u8,
    pub chunks: Vec<u16>,
    pub write_all: bool,
    pub read_buf: u16,
    pub read_exact: bool,
    pub reverse_len: u32,
}

#[derive(Clone, Debug, Serialize, Deserialize)]
pub struct Case {
    pub flavor: u8,
    pub window: u8,
    /// 0 wt<->wt, 1 raw sender -> wt receiver, 2 wt sender -> raw receiver
    pub variant: u8,
    /// for variants 1 and 2: the wtransport side is the server (raw peer is the client)
    pub wt_is_server: bool,
    /// variant 1: cut position inside preamble (>= preamble length: no cut)
    pub cut: u8,
    /// variant 1 with raw client: burn 64 request streams first so the session id needs 2 bytes
    pub high_session: bool,
    /// variant 1: pause between the two pieces of a cut preamble (ms); long pauses model a
    /// retransmitted tail packet or a sender blocked on flow control
    #[serde(default = "default_gap")]
    pub gap_ms: u16,
    pub streams: Vec<StreamSpec>,
}

fn default_gap() -> u16 {
    8
}

fn window_bytes(sel: u8) -> Option<u32> {
    match sel % 3 {
        0 => Some(1024),
        1 => Some(4096),
        _ => None,
    }
}

const HEADS: [&[u8]; 7] = [&[], &[0x41, 0x00], &[0x40, 0x54, 0x00], &[0x54, 0x00], &[0x00, 0x04, 1, 2, 3, 4], &[0x40, 0x41, 0x00], &[0x04, 0x00]];

fn len_strategy() -> impl Strategy<Value = u32> {
    prop_oneof![
        3 => proptest::sample::select(vec![0u32, 1, 2, 3, 63, 64, 65, 1023, 1024, 1025, 4095, 4096, 4097]),
        3 => 0u32..300,
        2 => 300u32..6000,
        1 => 6000u32..40000,
    ]
}

fn spec_strategy() -> impl Strategy<Value = StreamSpec> {
    (any::<bool>(), any::<bool>(), len_strategy(), 0u8..14, proptest::collection::vec(1u16..3000, 0..5), any::<bool>(), prop_oneof![Just(1u16), 2u16..64, 64u16..8192], any::<bool>(), len_strategy())
        .prop_map(|(from_client, bidi, len, head, chunks, write_all, read_buf, read_exact, reverse_len)| StreamSpec { from_client, bidi, len, head, chunks, write_all, read_buf, read_exact, reverse_len: reverse_len % 5000 })
}

pub fn case_strategy(max_streams: usize) -> impl Strategy<Value = Case> {
    (0u8..3, 0u8..3, prop_oneof![3 => Just(0u8), 2 => Just(1u8), 1 => Just(2u8)], any::<bool>(), 0u8..8, prop_oneof![4 => Just(false), 1 => Just(true)], prop_oneof![3 => Just(8u16), 1 => 0u16..40, 1 => 280u16..420], proptest::collection::vec(spec_strategy(), 1..=max_streams))
        .prop_map(|(flavor, window, variant, wt_is_server, cut, high_session, gap_ms, streams)| Case { flavor, window, variant, wt_is_server, cut, high_session, gap_ms, streams })
}

fn head_of(spec: &StreamSpec) -> &'static [u8] {
    if (spec.head as usize) < HEADS.len() {
        HEADS[spec.head as usize]
    } else {
        &[]
    }
}

fn fwd_payload(i: usize, s: &StreamSpec) -> Vec<u8> {
    payload(1000 + i as u64, s.len as usize, head_of(s))
}
fn rev_payload(i: usize, s: &StreamSpec) -> Vec<u8> {
    // the reverse direction of a bidirectional stream has no preamble: bytes that look like one
    // must come through untouched
    let head = HEADS[(s.head as usize / 2) % HEADS.len()];
    payload(5000 + i as u64, s.reverse_len as usize, head)
}

async fn write_plan(send: &mut SendStream, data: &[u8], chunks: &[u16], write_all: bool) -> Res<()> {
    let mut off = 0;
    let mut k = 0;
    while off < data.len() {
        let n = if chunks.is_empty() { data.len() - off } else { (chunks[k % chunks.len()] as usize).min(data.len() - off) };
        k += 1;
        if write_all {
            send.write_all(&data[off..off + n]).await.map_err(|e| format!("write_all: {e}"))?;
            off += n;
        } else {
            let w = send.write(&data[off..off + n]).await.map_err(|e| format!("write: {e}"))?;
            if w == 0 {
                return Err("write returned 0".into());
            }
            off += w;
        }
    }
    Ok(())
}

/// Reads to end-of-stream following the plan; returns (bytes, clean_eof, reads)
async fn read_plan(recv: &mut RecvStream, buf_size: u16, exact: bool) -> Res<(Vec<u8>, usize)> {
    let mut out = Vec::new();
    let mut buf = vec![0u8; buf_size.max(1) as usize];
    let mut reads = 0;
    loop {
        reads += 1;
        if exact {
            match recv.read_exact(&mut buf).await {
                Ok(()) => out.extend_from_slice(&buf),
                Err(wtransport::error::StreamReadExactError::FinishedEarly(n)) => {
                    out.extend_from_slice(&buf[..n]);
                    // after FinishedEarly the stream is at its end
                    match recv.read(&mut buf).await {
                        Ok(None) => return Ok((out, reads)),
                        other => return Err(format!("after FinishedEarly({n}) read returned {other:?}")),
                    }
                }
                Err(e) => return Err(format!("read_exact: {e}")),
            }
        } else {
            match recv.read(&mut buf).await {
                Ok(Some(n)) => {
                    if n == 0 {
                        return Err("read returned Some(0)".into());
                    }
                    out.extend_from_slice(&buf[..n]);
                }
                Ok(None) => return Ok((out, reads)),
                Err(e) => return Err(format!("read: {e}")),
            }
        }
    }
}

/// The same plans through the `tokio::io` traits the stream types implement.
async fn write_plan_tokio<W: tokio::io::AsyncWrite + Unpin>(send: &mut W, data: &[u8], chunks: &[u16], write_all: bool) -> Res<()> {
    use tokio::io::AsyncWriteExt;
    let mut off = 0;
    let mut k = 0;
    while off < data.len() {
        let n = if chunks.is_empty() { data.len() - off } else { (chunks[k % chunks.len()] as usize).min(data.len() - off) };
        k += 1;
        if write_all {
            send.write_all(&data[off..off + n]).await.map_err(|e| format!("AsyncWriteExt::write_all: {e}"))?;
            off += n;
        } else {
            let w = send.write(&data[off..off + n]).await.map_err(|e| format!("AsyncWriteExt::write: {e}"))?;
            if w == 0 {
                return Err("AsyncWriteExt::write returned 0".into());
            }
            off += w;
        }
    }
    send.flush().await.map_err(|e| format!("flush: {e}"))?;
    Ok(())
}

async fn read_plan_tokio<R: tokio::io::AsyncRead + Unpin>(recv: &mut R, buf_size: u16, exact: bool) -> Res<(Vec<u8>, usize)> {
    use tokio::io::AsyncReadExt;
    let mut out = Vec::new();
    let mut buf = vec![0u8; buf_size.max(1) as usize];
    let mut reads = 0;
    if exact {
        // read_to_end: the whole stream in one call
        recv.read_to_end(&mut out).await.map_err(|e| format!("read_to_end: {e}"))?;
        return Ok((out, 1));
    }
    if buf_size % 3 == 1 {
        // the `AsyncRead` contract itself: `poll_read` appends to a `ReadBuf` that may already hold
        // filled bytes (that is how `AsyncReadExt::read_exact`, `take`, `chain` and buffered readers
        // drive it) and must leave those bytes and their count alone
        const MARK: [u8; 5] = [0xa5, 0x5a, 0xc3, 0x3c, 0x99];
        loop {
            reads += 1;
            let k = reads % 6 % (MARK.len() + 1);
            let mut storage = vec![0u8; k + buf.len()];
            let mut rb = tokio::io::ReadBuf::new(&mut storage);
            rb.put_slice(&MARK[..k]);
            std::future::poll_fn(|cx| std::pin::Pin::new(&mut *recv).poll_read(cx, &mut rb)).await.map_err(|e| format!("AsyncRead::poll_read: {e}"))?;
            let filled = rb.filled();
            if filled.len() < k || filled[..k] != MARK[..k] {
                return Err(format!("AsyncRead::poll_read disturbed the {k} bytes already filled in the ReadBuf (filled is now {} bytes)", filled.len()));
            }
            if filled.len() == k {
                return Ok((out, reads));
            }
            out.extend_from_slice(&filled[k..]);
        }
    }
    loop {
        reads += 1;
        match recv.read(&mut buf).await {
            Ok(0) => return Ok((out, reads)),
            Ok(n) => out.extend_from_slice(&buf[..n]),
            Err(e) => return Err(format!("AsyncReadExt::read: {e}")),
        }
    }
}

#[derive(Default)]
struct Shared {
    /// stream id -> spec index, recorded by the opener
    ids: BTreeMap<u64, usize>,
    /// stream id -> (bytes received, reads)
    received: BTreeMap<u64, (Vec<u8>, usize)>,
    reverse_received: BTreeMap<usize, Vec<u8>>,
    errors: Vec<String>,
}

/// Application on the receiving side: accepts `n_uni` + `n_bi` streams, each read in its own task.
async fn receiver(conn: Connection, n_uni: usize, n_bi: usize, case: Arc<Case>, shared: Arc<Mutex<Shared>>) {
    let mut tasks = Vec::new();
    let c1 = conn.clone();
    let sh = shared.clone();
    let cs = case.clone();
    tasks.push(tokio::spawn(async move {
        let mut inner = Vec::new();
        for k in 0..n_uni {
            match c1.accept_uni().await {
                Ok(mut r) => {
                    let sh = sh.clone();
                    let plan = cs.streams[k % cs.streams.len()].clone();
                    inner.push(tokio::spawn(async move {
                        let id = r.id().into_u64();
                        let res = if plan.head % 2 == 1 { read_plan_tokio(&mut r, plan.read_buf, plan.read_exact).await } else { read_plan(&mut r, plan.read_buf, plan.read_exact).await };
                        match res {
                            Ok(v) => {
                                sh.lock().unwrap().received.insert(id, v);
                            }
                            Err(e) => sh.lock().unwrap().errors.push(format!("uni stream {id}: {e}")),
                        }
                    }));
                }
                Err(e) => {
                    sh.lock().unwrap().errors.push(format!("accept_uni #{k}: {e}"));
                    break;
                }
            }
        }
        for t in inner {
            let _ = t.await;
        }
    }));
    let c2 = conn.clone();
    let sh = shared.clone();
    let cs = case.clone();
    tasks.push(tokio::spawn(async move {
        let mut inner = Vec::new();
        for k in 0..n_bi {
            match c2.accept_bi().await {
                Ok((mut s, mut r)) => {
                    let sh = sh.clone();
                    let cs = cs.clone();
                    let plan = cs.streams[k % cs.streams.len()].clone();
                    inner.push(tokio::spawn(async move {
                        let id = r.id().into_u64();
                        match read_plan(&mut r, plan.read_buf, plan.read_exact).await {
                            Ok(v) => {
                                sh.lock().unwrap().received.insert(id, v);
                            }
                            Err(e) => {
                                sh.lock().unwrap().errors.push(format!("bidi stream {id}: {e}"));
                                return;
                            }
                        }
                        // reverse direction: which spec? known once the opener has recorded the id
                        let mut idx = None;
                        for _ in 0..2000 {
                            idx = sh.lock().unwrap().ids.get(&id).copied();
                            if idx.is_some() {
                                break;
                            }
                            tokio::time::sleep(Duration::from_millis(1)).await;
                        }
                        if let Some(i) = idx {
                            let spec = &cs.streams[i];
                            let data = rev_payload(i, spec);
                            if let Err(e) = write_plan(&mut s, &data, &spec.chunks, true).await {
                                sh.lock().unwrap().errors.push(format!("reverse write on {id}: {e}"));
                            }
                        }
                        if let Err(e) = s.finish().await {
                            sh.lock().unwrap().errors.push(format!("reverse finish on {id}: {e}"));
                        }
                    }));
                }
                Err(e) => {
                    sh.lock().unwrap().errors.push(format!("accept_bi #{k}: {e}"));
                    break;
                }
            }
        }
        for t in inner {
            let _ = t.await;
        }
    }));
    for t in tasks {
        let _ = t.await;
    }
}

/// Application on the sending side: opens the given streams concurrently.
async fn sender(conn: Connection, specs: Vec<(usize, StreamSpec)>, shared: Arc<Mutex<Shared>>) {
    let mut tasks = Vec::new();
    for (i, spec) in specs {
        let conn = conn.clone();
        let sh = shared.clone();
        tasks.push(tokio::spawn(async move {
            let data = fwd_payload(i, &spec);
            let r: Res<()> = async {
                // API path: inherent methods, the tokio::io traits of SendStream/RecvStream, or
                // (bidirectional) the joined BiStream split with tokio::io::split
                let api = spec.head % 3;
                if spec.bidi {
                    let (mut s, mut r) = conn.open_bi().await.map_err(|e| format!("open_bi: {e}"))?.await.map_err(|e| format!("opening bi: {e}"))?;
                    sh.lock().unwrap().ids.insert(s.id().into_u64(), i);
                    if api == 2 {
                        use tokio::io::AsyncWriteExt;
                        let bi = wtransport::stream::BiStream::join((s, r));
                        let (mut rd, mut wr) = tokio::io::split(bi);
                        write_plan_tokio(&mut wr, &data, &spec.chunks, spec.write_all).await?;
                        wr.shutdown().await.map_err(|e| format!("shutdown: {e}"))?;
                        let (back, _) = read_plan_tokio(&mut rd, spec.read_buf, spec.read_exact).await?;
                        sh.lock().unwrap().reverse_received.insert(i, back);
                    } else if api == 1 {
                        use tokio::io::AsyncWriteExt;
                        write_plan_tokio(&mut s, &data, &spec.chunks, spec.write_all).await?;
                        s.shutdown().await.map_err(|e| format!("shutdown: {e}"))?;
                        let (back, _) = read_plan_tokio(&mut r, spec.read_buf, false).await?;
                        sh.lock().unwrap().reverse_received.insert(i, back);
                    } else {
                        write_plan(&mut s, &data, &spec.chunks, spec.write_all).await?;
                        s.finish().await.map_err(|e| format!("finish: {e}"))?;
                        let (back, _) = read_plan(&mut r, spec.read_buf, false).await?;
                        sh.lock().unwrap().reverse_received.insert(i, back);
                    }
                } else {
                    let mut s = conn.open_uni().await.map_err(|e| format!("open_uni: {e}"))?.await.map_err(|e| format!("opening uni: {e}"))?;
                    sh.lock().unwrap().ids.insert(s.id().into_u64(), i);
                    if api >= 1 {
                        use tokio::io::AsyncWriteExt;
                        write_plan_tokio(&mut s, &data, &spec.chunks, spec.write_all).await?;
                        s.shutdown().await.map_err(|e| format!("shutdown: {e}"))?;
                        // shutdown only queues the FIN: keep the stream until the peer acknowledged it
                        let _ = s.stopped().await;
                    } else {
                        write_plan(&mut s, &data, &spec.chunks, spec.write_all).await?;
                        s.finish().await.map_err(|e| format!("finish: {e}"))?;
                    }
                }
                Ok(())
            }
            .await;
            if let Err(e) = r {
                sh.lock().unwrap().errors.push(format!("sender of stream #{i}: {e}"));
            }
        }));
    }
    for t in tasks {
        let _ = t.await;
    }
}

fn tuning(case: &Case) -> Tuning {
    let w = window_bytes(case.window);
    Tuning { stream_receive_window: w, receive_window: w.map(|w| w * 3), ..Default::default() }
}

fn nontrivial(case: &Case) -> bool {
    let w = window_bytes(case.window).unwrap_or(u32::MAX);
    case.streams.iter().any(|s| s.len >= 1 && (s.chunks.len() > 1 || (s.read_buf as u32) < s.len || case.streams.len() > 1 || s.len > w || (case.variant == 1 && case.cut < 3)))
}

fn verify(case: &Case, shared: &Shared, opened_by_client: impl Fn(usize) -> bool) -> CaseResult {
    if let Some(e) = shared.errors.first() {
        return viol("C01:io-error", format!("{} (of {} errors)", e, shared.errors.len()));
    }
    for (id, idx) in &shared.ids {
        let spec = &case.streams[*idx];
        let expect = fwd_payload(*idx, spec);
        let Some((got, _)) = shared.received.get(id) else {
            return viol("C01:not-delivered", format!("stream {id} (spec #{idx}) was never delivered/read to end"));
        };
        if let Some(p) = first_diff(got, &expect) {
            return viol(
                "C01:bytes-differ",
                format!("stream {id} (spec #{idx}, {} bytes, head {:?}): received {} bytes, first difference at offset {p}: got {} expected {}", expect.len(), head_of(spec), got.len(), short(&got[p.min(got.len())..]), short(&expect[p.min(expect.len())..])),
            );
        }
        // RFC 9000 §2.1 parity
        let client = opened_by_client(*idx);
        let want_low = (if client { 0 } else { 1 }) | (if spec.bidi { 0 } else { 2 });
        if id & 3 != want_low {
            return viol("C01:stream-id-class", format!("stream {id} has class {} but was opened by {} as {}", id & 3, if client { "client" } else { "server" }, if spec.bidi { "bidi" } else { "uni" }));
        }
        if spec.bidi {
            let want = rev_payload(*idx, spec);
            match shared.reverse_received.get(idx) {
                Some(got) => {
                    if let Some(p) = first_diff(got, &want) {
                        return viol("C01:reverse-bytes-differ", format!("reverse direction of stream {id}: first difference at {p} ({} vs {} bytes)", got.len(), want.len()));
                    }
                }
                None => return viol("C01:not-delivered", format!("reverse direction of stream {id} never completed")),
            }
        }
    }
    if shared.received.len() != shared.ids.len() {
        return viol("C01:count", format!("{} streams opened, {} delivered", shared.ids.len(), shared.received.len()));
    }
    CaseResult::Pass { nontrivial: nontrivial(case), labels: vec![] }
}

async fn exec_wt_wt(case: Arc<Case>) -> CaseResult {
    let t = tuning(&case);
    // with default windows, half of the cases use endpoints built through the library's default
    // builder paths (default transport configuration) instead of a custom transport
    let default_paths = window_bytes(case.window).is_none() && case.cut % 2 == 0;
    let pair = match if default_paths { wt_pair_default().await } else { wt_pair(&t, &t).await } {
        Ok(p) => p,
        Err(e) => return CaseResult::Skip(e),
    };
    let shared = Arc::new(Mutex::new(Shared::default()));
    let from_client: Vec<(usize, StreamSpec)> = case.streams.iter().cloned().enumerate().filter(|(_, s)| s.from_client).collect();
    let from_server: Vec<(usize, StreamSpec)> = case.streams.iter().cloned().enumerate().filter(|(_, s)| !s.from_client).collect();
    let count = |v: &[(usize, StreamSpec)], bidi: bool| v.iter().filter(|(_, s)| s.bidi == bidi).count();
    let r1 = receiver(pair.server.clone(), count(&from_client, false), count(&from_client, true), case.clone(), shared.clone());
    let r2 = receiver(pair.client.clone(), count(&from_server, false), count(&from_server, true), case.clone(), shared.clone());
    let s1 = sender(pair.client.clone(), from_client, shared.clone());
    let s2 = sender(pair.server.clone(), from_server, shared.clone());
    tokio::join!(r1, r2, s1, s2);
    let g = shared.lock().unwrap();
    verify(&case, &g, |i| case.streams[i].from_client)
}

/// Raw peer sends, wtransport receives. All streams are opened by the raw peer.
async fn exec_raw_to_wt(case: Arc<Case>) -> CaseResult {
    let t = tuning(&case);
    let shared = Arc::new(Mutex::new(Shared::default()));
    let n_uni = case.streams.iter().filter(|s| !s.bidi).count();
    let n_bi = case.streams.len() - n_uni;
    let (wt_conn, raw_conn, session, _keep): (Connection, quinn::Connection, u64, Box<dyn std::any::Any + Send>) = if case.wt_is_server {
        // optional: burn 64 request streams so that the session id becomes 256
        let server_ep = wt_server(&t);
        let addr = server_ep.local_addr().unwrap();
        let high = case.high_session;
        let accept = async {
            let incoming = server_ep.accept().await;
            let req = incoming.await.map_err(|e| format!("incoming: {e}"))?;
            req.accept().await.map_err(|e| format!("accept: {e}"))
        };
        let raw = async {
            let (ep, conn) = raw_connect(addr, &Tuning::default()).await?;
            let control = open_control(&conn, &default_settings()).await?;
            if high {
                for _ in 0..64 {
                    let (mut s, _r) = conn.open_bi().await.map_err(|e| e.to_string())?;
                    // a request the server refuses on its own stream
                    let _ = s.write_all(&headers_frame(&[(":method".into(), "GET".into(), Default::default())])).await;
                    let _ = s.finish();
                }
            }
            let (mut req_send, mut req_recv) = conn.open_bi().await.map_err(|e| e.to_string())?;
            let session_id = quinn::VarInt::from(req_send.id()).into_inner();
            req_send.write_all(&headers_frame(&connect_request_fields(&addr.to_string(), "/"))).await.map_err(|e| e.to_string())?;
            let mut buf = Vec::new();
            read_frame_of(&mut req_recv, &mut buf, &[refcodec::registry::FRAME_HEADERS], Duration::from_secs(5)).await?;
            Ok::<_, String>((ep, conn, control, req_send, req_recv, session_id))
        };
        let (s, r) = tokio::join!(accept, raw);
        match (s, r) {
            (Ok(s), Ok((ep, conn, control, rs, rr, sid))) => (s, conn.clone(), sid, Box::new((server_ep, ep, control, rs, rr))),
            (Err(e), _) | (_, Err(e)) => return CaseResult::Skip(e),
        }
    } else {
        match wt_client_vs_raw_server(&t, &Tuning::default()).await {
            Ok(p) => (p.client.clone(), p.raw.conn.clone(), p.raw.session_id, Box::new(p)),
            Err(e) => return CaseResult::Skip(e),
        }
    };
    if wt_conn.session_id().into_u64() != session {
        return viol("C01:session-id", format!("session ids differ: wt {} raw {}", wt_conn.session_id().into_u64(), session));
    }
    let recv_task = receiver(wt_conn.clone(), n_uni, n_bi, case.clone(), shared.clone());
    let case2 = case.clone();
    let shared2 = shared.clone();
    let send_task = async move {
        let mut tasks = Vec::new();
        for (i, spec) in case2.streams.iter().cloned().enumerate() {
            let conn = raw_conn.clone();
            let sh = shared2.clone();
            let cut = case2.cut as usize;
            let gap = Duration::from_millis(case2.gap_ms as u64);
            tasks.push(tokio::spawn(async move {
                let data = fwd_payload(i, &spec);
                let r: Res<()> = async {
                    let preamble = if spec.bidi { refcodec::enc_bi_header_wt(session) } else { refcodec::enc_uni_header_wt(session) };
                    let (mut s, r) = if spec.bidi {
                        let (s, r) = conn.open_bi().await.map_err(|e| e.to_string())?;
                        (s, Some(r))
                    } else {
                        (conn.open_uni().await.map_err(|e| e.to_string())?, None)
                    };
                    let id = quinn::VarInt::from(s.id()).into_inner();
                    sh.lock().unwrap().ids.insert(id, i);
                    if cut < preamble.len() {
                        if cut > 0 {
                            write_cut(&conn, &mut s, &preamble[..cut], gap).await?;
                        }
                        write_cut(&conn, &mut s, &preamble[cut..], Duration::from_millis(if i % 2 == 0 { 8 } else { 0 })).await?;
                        s.write_all(&data).await.map_err(|e| e.to_string())?;
                    } else {
                        // preamble and data in one write
                        let mut all = preamble.clone();
                        all.extend_from_slice(&data);
                        s.write_all(&all).await.map_err(|e| e.to_string())?;
                    }
                    s.finish().map_err(|e| e.to_string())?;
                    if let Some(mut r) = r {
                        let back = r.read_to_end(1 << 20).await.map_err(|e| format!("raw read reverse: {e}"))?;
                        sh.lock().unwrap().reverse_received.insert(i, back);
                    }
                    Ok(())
                }
                .await;
                if let Err(e) = r {
                    sh.lock().unwrap().errors.push(format!("raw sender of stream #{i}: {e}"));
                }
            }));
        }
        for t in tasks {
            let _ = t.await;
        }
    };
    tokio::join!(recv_task, send_task);
    let g = shared.lock().unwrap();
    let wt_is_server = case.wt_is_server;
    verify(&case, &g, move |_| wt_is_server)
}

/// wtransport sends, the raw recorder must see preamble || payload || FIN and nothing else.
async fn exec_wt_to_raw(case: Arc<Case>) -> CaseResult {
    let t = tuning(&case);
    let (wt_conn, recorder, session, _keep): (Connection, Recorder, u64, Box<dyn std::any::Any + Send>) = if case.wt_is_server {
        match raw_client_vs_wt_server(&t, &t).await {
            Ok(p) => {
                let rec = Recorder::start(&p.raw.conn);
                (p.server.clone(), rec, p.raw.session_id, Box::new(p))
            }
            Err(e) => return CaseResult::Skip(e),
        }
    } else {
        match wt_client_vs_raw_server(&t, &t).await {
            Ok(p) => {
                let rec = Recorder::start(&p.raw.conn);
                (p.client.clone(), rec, p.raw.session_id, Box::new(p))
            }
            Err(e) => return CaseResult::Skip(e),
        }
    };
    let shared = Arc::new(Mutex::new(Shared::default()));
    // only the forward direction is exercised here (uni, and the send half of bidi)
    let mut tasks = Vec::new();
    for (i, spec) in case.streams.iter().cloned().enumerate() {
        let conn = wt_conn.clone();
        let sh = shared.clone();
        tasks.push(tokio::spawn(async move {
            let data = fwd_payload(i, &spec);
            let r: Res<()> = async {
                let mut s = if spec.bidi {
                    let (s, _r) = conn.open_bi().await.map_err(|e| format!("open_bi: {e}"))?.await.map_err(|e| format!("opening: {e}"))?;
                    s
                } else {
                    conn.open_uni().await.map_err(|e| format!("open_uni: {e}"))?.await.map_err(|e| format!("opening: {e}"))?
                };
                sh.lock().unwrap().ids.insert(s.id().into_u64(), i);
                write_plan(&mut s, &data, &spec.chunks, spec.write_all).await?;
                // finish() completes when the peer has acknowledged; the recorder reads everything
                s.finish().await.map_err(|e| format!("finish: {e}"))?;
                Ok(())
            }
            .await;
            if let Err(e) = r {
                sh.lock().unwrap().errors.push(format!("wt sender of stream #{i}: {e}"));
            }
        }));
    }
    for t in tasks {
        let _ = t.await;
    }
    let ids: BTreeMap<u64, usize> = shared.lock().unwrap().ids.clone();
    let done = recorder
        .wait(Duration::from_secs(5), |log| ids.keys().all(|id| log.streams.get(id).map(|s| s.fin).unwrap_or(false)))
        .await;
    recorder.stop();
    if let Some(e) = shared.lock().unwrap().errors.first() {
        return viol("C01:io-error", e.clone());
    }
    if !done {
        return CaseResult::Timeout("recorder did not see FIN on every stream".into());
    }
    let (streams, _) = recorder.snapshot();
    for (id, idx) in &ids {
        let spec = &case.streams[*idx];
        let mut expect = if spec.bidi { refcodec::enc_bi_header_wt(session) } else { refcodec::enc_uni_header_wt(session) };
        expect.extend(fwd_payload(*idx, spec));
        let got = &streams[id].bytes;
        if let Some(p) = first_diff(got, &expect) {
            return viol("C01:wire-bytes-differ", format!("stream {id} on the wire: {} bytes, expected preamble+payload {} bytes, first difference at {p}: got {} expected {}", got.len(), expect.len(), short(&got[p.min(got.len())..]), short(&expect[p.min(expect.len())..])));
        }
        let want_low = (if case.wt_is_server { 1 } else { 0 }) | (if spec.bidi { 0 } else { 2 });
        if id & 3 != want_low {
            return viol("C01:stream-id-class", format!("stream {id} class {} unexpected", id & 3));
        }
    }
    CaseResult::Pass { nontrivial: nontrivial(&case), labels: vec![] }
}

pub fn exec(case: &Case) -> CaseResult {
    let c = Arc::new(case.clone());
    let fut = async move {
        match c.variant % 3 {
            0 => exec_wt_wt(c).await,
            1 => exec_raw_to_wt(c).await,
            _ => exec_wt_to_raw(c).await,
        }
    };
    match run_on(case.flavor, Duration::from_secs(12), fut) {
        Some(r) => r,
        None => CaseResult::Timeout(format!("case did not finish in 12 s (variant {}, {} streams, window {:?})", case.variant, case.streams.len(), window_bytes(case.window))),
    }
}

fn labels_of(case: &Case) -> Vec<&'static str> {
    let mut l = vec![match case.variant % 3 {
        0 => "variant:wt-wt",
        1 => "variant:raw-to-wt",
        _ => "variant:wt-to-raw",
    }];
    if case.variant % 3 == 1 && case.cut < 3 {
        l.push("preamble-split");
        if case.gap_ms >= 250 {
            l.push("preamble-split-long-gap");
        }
    }
    if case.streams.iter().any(|s| s.len > window_bytes(case.window).unwrap_or(u32::MAX)) {
        l.push("len>window");
    }
    if case.streams.iter().any(|s| (s.head as usize) < HEADS.len() && s.head > 0 && s.len >= 2) {
        l.push("adversarial-head");
    }
    if case.variant % 3 == 1 && case.high_session && case.wt_is_server {
        l.push("session-id>=256");
    }
    l
}

pub fn run(run: &Run) {
    run.set_rule(RULE);
    run.assume("the receiving application reads each accepted stream in its own task (a sequential accept-then-read receiver can dead-lock by itself on the connection window)");
    run.trust("quinn / loop-back UDP as the transport; raw peer and recorder in /verif/harness/wire");
    let max_streams = run.tier.pick(12, 24);
    // exhaustive preamble-cut table: kind x role x cut x session-id width
    for wt_is_server in [true, false] {
        for bidi in [false, true] {
            for high in [false, true] {
                if high && !wt_is_server {
                    continue;
                }
                for (cut, gap_ms) in [(0u8, 8u16), (1, 8), (2, 8), (3, 8), (4, 8), (1, 330), (2, 330), (3, 330)] {
                    let case = Case { flavor: cut % 3, window: 2, variant: 1, wt_is_server, cut, high_session: high, gap_ms, streams: vec![StreamSpec { from_client: !wt_is_server, bidi, len: 37, head: 1 + cut % 6, chunks: vec![], write_all: true, read_buf: 7, read_exact: cut % 2 == 0, reverse_len: 11 }] };
                    let o = judge(|| exec(&case), true, "C01:timeout");
                    match o {
                        Outcome::Pass { nontrivial, .. } => {
                            run.eval("preamble-cut-table", nontrivial, vcore::hash64(&format!("{case:?}")));
                            run.label("preamble-split");
                            if case.gap_ms >= 250 {
                                run.label("preamble-split-long-gap");
                            }
                            if run.wants_sample("preamble-cut-table") {
                                run.sample("preamble-cut-table", || vcore::abbreviate(serde_json::to_value(&case).unwrap()));
                            }
                        }
                        Outcome::Fail { signature, message } => {
                            run.eval("preamble-cut-table", false, 0);
                            run.fail("streams", &signature, &message, serde_json::to_value(&case).unwrap());
                        }
                        Outcome::Inconclusive(w) => run.inconclusive(&w),
                    }
                }
            }
        }
    }
    run.section_exhaustive("preamble-cut-table", true, "role x kind x session-id width x cut offset 0..4 of the preamble, short (8 ms) and long (330 ms) pause between the pieces");
    prop_search(
        run,
        Search { check: "streams", cases: run.tier.pick(1200, 40000), workers: 8, max_shrink_iters: 48 },
        || case_strategy(max_streams),
        |c| match judge(|| exec(c), true, "C01:timeout") {
            Outcome::Pass { nontrivial, .. } => Outcome::pass_l(nontrivial, labels_of(c)),
            o => o,
        },
        |c| serde_json::to_value(c).unwrap(),
    );
    for l in ["variant:wt-wt", "variant:raw-to-wt", "variant:wt-to-raw", "preamble-split", "preamble-split-long-gap", "len>window", "adversarial-head"] {
        run.essential(l);
    }
}

pub fn replay(run: &Run, doc: &Value) -> bool {
    let Ok(case) = serde_json::from_value::<Case>(doc["case"].clone()) else {
        return false;
    };
    run.eval("streams", true, 1);
    let mut last = None;
    for _ in 0..5 {
        match judge(|| exec(&case), true, "C01:timeout") {
            Outcome::Fail { signature, message } => {
                run.fail("streams", &signature, &message, doc["case"].clone());
                return true;
            }
            o => last = Some(o),
        }
    }
    if let Some(Outcome::Inconclusive(w)) = last {
        run.inconclusive(&w);
    }
    true
}
