//! Counting allocator, in-flight case slots, watchdog and the allocation-failure emergency path.
//! Nothing here allocates on the emergency path.

use std::alloc::{GlobalAlloc, Layout, System};
use std::cell::Cell;
use std::sync::atomic::{AtomicBool, AtomicI32, AtomicPtr, AtomicU64, AtomicUsize, Ordering};
use std::time::Instant;

/// Requests above this size never reach the system allocator: a decoder asking for this much
/// for an input of a few kilobytes has already violated the allocation bound.
pub const HARD_LIMIT: usize = 1 << 30;

thread_local! {
    static CUR: Cell<usize> = const { Cell::new(0) };
    static PEAK: Cell<usize> = const { Cell::new(0) };
    static SLOT: Cell<usize> = const { Cell::new(usize::MAX) };
}

pub struct CountingAlloc;

#[inline]
fn add(n: usize) {
    let _ = CUR.try_with(|c| {
        let v = c.get().saturating_add(n);
        c.set(v);
        let _ = PEAK.try_with(|p| {
            if v > p.get() {
                p.set(v);
            }
        });
    });
}

#[inline]
fn sub(n: usize) {
    let _ = CUR.try_with(|c| c.set(c.get().saturating_sub(n)));
}

unsafe impl GlobalAlloc for CountingAlloc {
    unsafe fn alloc(&self, layout: Layout) -> *mut u8 {
        if layout.size() > HARD_LIMIT {
            emergency(b"C11:alloc-oversize", layout.size());
            return std::ptr::null_mut();
        }
        add(layout.size());
        unsafe { System.alloc(layout) }
    }
    unsafe fn alloc_zeroed(&self, layout: Layout) -> *mut u8 {
        if layout.size() > HARD_LIMIT {
            emergency(b"C11:alloc-oversize", layout.size());
            return std::ptr::null_mut();
        }
        add(layout.size());
        unsafe { System.alloc_zeroed(layout) }
    }
    unsafe fn dealloc(&self, ptr: *mut u8, layout: Layout) {
        sub(layout.size());
        unsafe { System.dealloc(ptr, layout) }
    }
    unsafe fn realloc(&self, ptr: *mut u8, layout: Layout, new_size: usize) -> *mut u8 {
        if new_size > HARD_LIMIT {
            emergency(b"C11:alloc-oversize", new_size);
            return std::ptr::null_mut();
        }
        if new_size > layout.size() {
            add(new_size - layout.size());
        } else {
            sub(layout.size() - new_size);
        }
        unsafe { System.realloc(ptr, layout, new_size) }
    }
}

/// Starts a measurement on this thread.
pub fn alloc_reset() {
    CUR.with(|c| c.set(0));
    PEAK.with(|p| p.set(0));
}

/// Peak of live bytes allocated by this thread since `alloc_reset`.
pub fn alloc_peak() -> usize {
    PEAK.with(|p| p.get())
}

pub struct Slot {
    ptr: AtomicPtr<u8>,
    len: AtomicUsize,
    start_ms: AtomicU64,
}

#[allow(clippy::declare_interior_mutable_const)]
const EMPTY: Slot = Slot {
    ptr: AtomicPtr::new(std::ptr::null_mut()),
    len: AtomicUsize::new(0),
    start_ms: AtomicU64::new(0),
};
pub static SLOTS: [Slot; 64] = [EMPTY; 64];
static NEXT_SLOT: AtomicUsize = AtomicUsize::new(0);
static EPOCH: std::sync::OnceLock<Instant> = std::sync::OnceLock::new();

static EMERG_FD: AtomicI32 = AtomicI32::new(-1);
static EMERG_PATH: AtomicPtr<u8> = AtomicPtr::new(std::ptr::null_mut());
static EMERG_PATH_LEN: AtomicUsize = AtomicUsize::new(0);
static EMERG_USED: AtomicBool = AtomicBool::new(false);

fn now_ms() -> u64 {
    EPOCH.get_or_init(Instant::now).elapsed().as_millis() as u64 + 1
}

fn my_slot() -> usize {
    SLOT.with(|s| {
        if s.get() == usize::MAX {
            s.set(NEXT_SLOT.fetch_add(1, Ordering::Relaxed) % SLOTS.len());
        }
        s.get()
    })
}

/// Marks `bytes` as the case in flight on this thread (valid until `leave`).
pub fn enter(bytes: &[u8]) {
    let s = &SLOTS[my_slot()];
    s.ptr.store(bytes.as_ptr() as *mut u8, Ordering::Release);
    s.len.store(bytes.len(), Ordering::Release);
    s.start_ms.store(now_ms(), Ordering::Release);
}

pub fn leave() {
    let s = &SLOTS[my_slot()];
    s.start_ms.store(0, Ordering::Release);
    s.len.store(0, Ordering::Release);
    s.ptr.store(std::ptr::null_mut(), Ordering::Release);
}

/// Pre-opens the emergency replay file.
pub fn arm(path: &str) {
    let c = std::ffi::CString::new(path).unwrap();
    let fd = unsafe { libc::open(c.as_ptr(), libc::O_WRONLY | libc::O_CREAT | libc::O_TRUNC, 0o644) };
    EMERG_FD.store(fd, Ordering::SeqCst);
    let leaked: &'static mut [u8] = Box::leak(path.as_bytes().to_vec().into_boxed_slice());
    EMERG_PATH_LEN.store(leaked.len(), Ordering::SeqCst);
    EMERG_PATH.store(leaked.as_mut_ptr(), Ordering::SeqCst);
}

/// Removes the emergency file if it was never used.
pub fn disarm(path: &str) {
    if !EMERG_USED.load(Ordering::SeqCst) {
        let fd = EMERG_FD.swap(-1, Ordering::SeqCst);
        if fd >= 0 {
            unsafe { libc::close(fd) };
        }
        let _ = std::fs::remove_file(path);
    }
}

fn wr(fd: i32, b: &[u8]) {
    let mut off = 0;
    while off < b.len() {
        let n = unsafe { libc::write(fd, b[off..].as_ptr() as *const libc::c_void, b.len() - off) };
        if n <= 0 {
            break;
        }
        off += n as usize;
    }
}

fn wr_num(fd: i32, mut v: usize) {
    let mut buf = [0u8; 24];
    let mut i = buf.len();
    if v == 0 {
        i -= 1;
        buf[i] = b'0';
    }
    while v > 0 {
        i -= 1;
        buf[i] = b'0' + (v % 10) as u8;
        v /= 10;
    }
    wr(fd, &buf[i..]);
}

/// Writes the in-flight case of `slot` as a replay file, prints the VIOLATION line and exits 1.
/// Allocation-free. If no emergency file is armed, returns.
pub fn emergency_slot(slot: usize, signature: &[u8], detail: usize) {
    let fd = EMERG_FD.load(Ordering::SeqCst);
    if fd < 0 {
        return;
    }
    if EMERG_USED.swap(true, Ordering::SeqCst) {
        // another thread is already reporting
        loop {
            std::thread::park();
        }
    }
    let s = &SLOTS[slot % SLOTS.len()];
    let ptr = s.ptr.load(Ordering::Acquire);
    let len = s.len.load(Ordering::Acquire);
    wr(fd, b"{\"property\":\"C11\",\"check\":\"bytes\",\"signature\":\"");
    wr(fd, signature);
    wr(fd, b"\",\"message\":\"decoder requested or held ");
    wr_num(fd, detail);
    wr(fd, b" (bytes or ms) while decoding the input below\",\"case\":{\"hex\":\"");
    if !ptr.is_null() {
        let bytes = unsafe { std::slice::from_raw_parts(ptr, len) };
        const HEX: &[u8; 16] = b"0123456789abcdef";
        for chunk in bytes.chunks(64) {
            let mut out = [0u8; 128];
            for (i, b) in chunk.iter().enumerate() {
                out[2 * i] = HEX[(b >> 4) as usize];
                out[2 * i + 1] = HEX[(b & 0xf) as usize];
            }
            wr(fd, &out[..chunk.len() * 2]);
        }
    }
    wr(fd, b"\"}}\n");
    unsafe { libc::close(fd) };
    wr(1, b"VIOLATION property=C11 replay=");
    let p = EMERG_PATH.load(Ordering::SeqCst);
    if !p.is_null() {
        let path = unsafe { std::slice::from_raw_parts(p, EMERG_PATH_LEN.load(Ordering::SeqCst)) };
        wr(1, path);
    }
    wr(1, b"\n  signature=");
    wr(1, signature);
    wr(1, b"\n");
    unsafe { libc::_exit(1) };
}

fn emergency(signature: &[u8], detail: usize) {
    let slot = SLOT.try_with(|s| s.get()).unwrap_or(usize::MAX);
    if slot != usize::MAX {
        emergency_slot(slot, signature, detail);
    }
}

/// Spawns the watchdog: a case in flight for longer than `limit_ms` is reported as a hang.
pub fn spawn_watchdog(limit_ms: u64) {
    std::thread::Builder::new()
        .name("watchdog".into())
        .spawn(move || loop {
            std::thread::sleep(std::time::Duration::from_millis(500));
            let now = now_ms();
            for (i, s) in SLOTS.iter().enumerate() {
                let st = s.start_ms.load(Ordering::Acquire);
                if st != 0 && now > st + limit_ms {
                    emergency_slot(i, b"C11:hang", (now - st) as usize);
                }
            }
        })
        .expect("spawn watchdog");
}
