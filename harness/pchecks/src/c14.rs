//! C14 — encoding and decoding are exact inverses with exact sizes.

use crate::aio::{run_to_end, Scripted};
use crate::gen;
use crate::view::{frame_view, header_view, FrameView};
use proptest::prelude::*;
use refcodec::qpack as rq;
use refcodec::registry as reg;
use serde::{Deserialize, Serialize};
use serde_json::{json, Value};
use std::borrow::Cow;
use std::collections::HashMap;
use vcore::{prop_search, Outcome, Run, Search};
use wtransport_proto::bytes::{BufferReader, BufferWriter, BytesReader, BytesWriter};
use wtransport_proto::datagram::Datagram;
use wtransport_proto::frame::Frame;
use wtransport_proto::headers::Headers;
use wtransport_proto::ids::{QStreamId, SessionId, StreamId};
use wtransport_proto::settings::{SettingId, Settings};
use wtransport_proto::stream_header::StreamHeader;
use wtransport_proto::varint::VarInt;

const RULE: &str = "values are enumerated (integers below a bound, all payload lengths 0..4096, all width boundaries) or drawn from structured proptest generators (frames of every kind, session ids of every width, settings maps, header maps over UTF-8 names/values incl. static-table hits and Huffman-shrinking strings, datagrams, destination capacities size-3..size+3); a case is non-trivial when its encoding is longer than one byte; distinct = distinct generated value";

pub fn sid(v: u64) -> SessionId {
    SessionId::try_from_session_stream(StreamId::new(VarInt::try_from_u64(v).unwrap())).unwrap()
}

macro_rules! ensure {
    ($cond:expr, $sig:expr, $($arg:tt)*) => {
        if !$cond {
            return Err(($sig.to_string(), format!($($arg)*)));
        }
    };
}

type R = Result<(), (String, String)>;

// ---------------------------------------------------------------- varint

pub fn test_varint(v: u64) -> R {
    let vi = VarInt::try_from_u64(v).map_err(|_| ("C14:varint:ctor".to_string(), format!("{v} rejected")))?;
    ensure!(vi.into_inner() == v, "C14:varint:value", "into_inner {} != {}", vi.into_inner(), v);
    let expect = refcodec::enc_varint(v);
    let len = expect.len();
    ensure!(vi.size() == len, "C14:varint:size", "size({v}) = {} but shortest form is {len}", vi.size());
    let mut out = Vec::new();
    BytesWriter::put_varint(&mut out, vi).unwrap();
    ensure!(out == expect, "C14:varint:encode-vec", "Vec::put_varint({v}) = {:x?}, expected {:x?}", out, expect);
    let mut buf = [0xAAu8; 12];
    {
        let mut w = BufferWriter::new(&mut buf[..len]);
        ensure!(w.put_varint(vi).is_ok(), "C14:varint:encode-buf", "put_varint({v}) failed with exact capacity {len}");
        ensure!(w.offset() == len, "C14:varint:encode-buf-offset", "offset {} after writing {len} bytes", w.offset());
    }
    ensure!(buf[..len] == expect[..], "C14:varint:encode-buf", "BufferWriter wrote {:x?}, expected {:x?}", &buf[..len], expect);
    ensure!(buf[len..].iter().all(|b| *b == 0xAA), "C14:varint:encode-buf-overrun", "bytes after the encoding were modified");
    for cap in 0..len {
        let mut small = [0xAAu8; 8];
        let mut w = BufferWriter::new(&mut small[..cap]);
        ensure!(w.put_varint(vi).is_err(), "C14:varint:short-dest", "put_varint({v}) succeeded with capacity {cap} < {len}");
        ensure!(w.offset() == 0, "C14:varint:short-dest-offset", "offset advanced to {} on failure", w.offset());
    }
    ensure!(VarInt::parse_size(expect[0]) == len, "C14:varint:parse_size", "parse_size({:#x}) = {}, expected {len}", expect[0], VarInt::parse_size(expect[0]));
    // decode (exact buffer and with trailing bytes)
    let mut with_tail = expect.clone();
    with_tail.extend_from_slice(&[0xff, 0x00]);
    for input in [&expect[..], &with_tail[..]] {
        let mut r = BufferReader::new(input);
        let got = r.get_varint();
        ensure!(got == Some(vi), "C14:varint:decode-buf", "BufferReader::get_varint({:x?}) = {:?}, expected {v}", input, got);
        ensure!(r.offset() == len, "C14:varint:decode-buf-consumed", "consumed {} bytes, expected {len}", r.offset());
        let mut s: &[u8] = input;
        let got = BytesReader::get_varint(&mut s);
        ensure!(got == Some(vi), "C14:varint:decode-slice", "<&[u8]>::get_varint({:x?}) = {:?}, expected {v}", input, got);
        ensure!(s.len() == input.len() - len, "C14:varint:decode-slice-consumed", "consumed {} bytes, expected {len}", input.len() - s.len());
    }
    // proper prefixes are "need more" and do not advance
    for cut in 0..len {
        let mut r = BufferReader::new(&expect[..cut]);
        ensure!(r.get_varint().is_none(), "C14:varint:prefix", "prefix of {cut} bytes decoded");
        ensure!(r.offset() == 0, "C14:varint:prefix-offset", "offset advanced on incomplete input");
        let mut s: &[u8] = &expect[..cut];
        ensure!(BytesReader::get_varint(&mut s).is_none() && s.len() == cut, "C14:varint:prefix-slice", "slice reader consumed an incomplete varint");
    }
    // every wider (non-minimal) encoding decodes to the same value
    for w in [2usize, 4, 8] {
        if w > len {
            let enc = refcodec::enc_varint_width(v, w);
            let mut r = BufferReader::new(&enc);
            ensure!(r.get_varint() == Some(vi) && r.offset() == w, "C14:varint:decode-wide", "{w}-byte encoding of {v} misdecoded");
        }
    }
    match refcodec::dec_varint(&out) {
        refcodec::Dec::Value(x, n) => ensure!(x == v && n == out.len(), "C14:varint:cross", "reference decodes impl bytes as {x}/{n}"),
        _ => return Err(("C14:varint:cross".into(), "reference cannot decode impl bytes".into())),
    }
    Ok(())
}

pub fn test_varint_async(v: u64) -> R {
    let vi = VarInt::try_from_u64(v).unwrap();
    let expect = refcodec::enc_varint(v);
    let mut out: Vec<u8> = Vec::new();
    let r = run_to_end(wtransport_proto::bytes::BytesWriterAsync::put_varint(&mut out, vi), 64);
    ensure!(matches!(r, Some(Ok(()))), "C14:varint:async-write", "PutVarint did not complete");
    ensure!(out == expect, "C14:varint:async-write", "PutVarint wrote {:x?}, expected {:x?}", out, expect);
    let mut tail = expect.clone();
    tail.push(0x7f);
    for (chunks, pend) in [(&[][..], &[][..]), (&[1usize][..], &[1u8][..]), (&[3usize, 1][..], &[0u8, 2][..])] {
        let mut src = Scripted::new(&tail, chunks, pend);
        let r = run_to_end(wtransport_proto::bytes::BytesReaderAsync::get_varint(&mut src), 256);
        match r {
            Some(Ok(got)) => {
                ensure!(got == vi, "C14:varint:async-read", "GetVarint = {got}, expected {v}");
                ensure!(src.pos == expect.len(), "C14:varint:async-read-consumed", "GetVarint consumed {} bytes, expected {}", src.pos, expect.len());
            }
            other => return Err(("C14:varint:async-read".into(), format!("GetVarint({:x?}) = {:?}", tail, other.map(|r| r.map(|v| v.into_inner()).map_err(|e| e.to_string())))))
        }
    }
    Ok(())
}

// ---------------------------------------------------------------- frames

#[derive(Clone, Debug, Serialize, Deserialize)]
pub struct FrameCase {
    /// 0 DATA, 1 HEADERS, 2 SETTINGS, 3 GREASE(id), 4 WT signal(id)
    pub kind: u8,
    pub id: u64,
    pub payload: Vec<u8>,
    pub cap_delta: i8,
    pub tail: Vec<u8>,
}

pub fn frame_case() -> impl Strategy<Value = FrameCase> {
    (
        0u8..5,
        gen::grease_id(),
        gen::session_id(),
        gen::payload(4096),
        -3i8..=3,
        proptest::collection::vec(any::<u8>(), 0..4),
    )
        .prop_map(|(kind, g, s, payload, cap_delta, tail)| FrameCase {
            kind,
            id: if kind == 4 { s } else { g },
            payload: if kind == 4 { vec![] } else { payload },
            cap_delta,
            tail,
        })
}

pub fn build_frame(c: &FrameCase) -> (Frame<'static>, FrameView) {
    let p = Cow::Owned(c.payload.clone());
    match c.kind {
        0 => (Frame::new_data(p), FrameView { ty: reg::FRAME_DATA, payload: c.payload.clone(), session: None }),
        1 => (Frame::new_headers(p), FrameView { ty: reg::FRAME_HEADERS, payload: c.payload.clone(), session: None }),
        2 => (Frame::new_settings(p), FrameView { ty: reg::FRAME_SETTINGS, payload: c.payload.clone(), session: None }),
        3 => (
            Frame::new_exercise(VarInt::try_from_u64(c.id).unwrap(), p),
            FrameView { ty: c.id, payload: c.payload.clone(), session: None },
        ),
        _ => (
            Frame::new_webtransport(sid(c.id)),
            FrameView { ty: reg::FRAME_WT_STREAM, payload: vec![], session: Some(c.id) },
        ),
    }
}

pub fn test_frame(c: &FrameCase) -> R {
    let (frame, view) = build_frame(c);
    let expect = match view.session {
        Some(id) => refcodec::Elem::WtSignal(id).encode(),
        None => refcodec::Elem::Frame(view.ty, view.payload.clone()).encode(),
    };
    let len = expect.len();
    ensure!(frame_view(&frame) == view, "C14:frame:accessors", "constructed frame reports {:?}", frame_view(&frame));
    ensure!(frame.write_size() == len, "C14:frame:write_size", "write_size() = {} but encoding is {len} bytes", frame.write_size());
    let mut out = Vec::new();
    frame.write(&mut out).unwrap();
    ensure!(out == expect, "C14:frame:encode", "write() = {}, expected {}", vcore::hex_short(&out), vcore::hex_short(&expect));
    // async write
    let mut aout: Vec<u8> = Vec::new();
    let r = run_to_end(frame.write_async(&mut aout), 64);
    ensure!(matches!(r, Some(Ok(()))) && aout == expect, "C14:frame:encode-async", "write_async() = {}", vcore::hex_short(&aout));
    // destination capacities
    let cap = (len as i64 + c.cap_delta as i64).max(0) as usize;
    let mut dest = vec![0x5Au8; cap + 4];
    {
        let mut w = BufferWriter::new(&mut dest[..cap]);
        let r = frame.write_to_buffer(&mut w);
        if cap < len {
            ensure!(r.is_err(), "C14:frame:short-dest", "write_to_buffer succeeded with capacity {cap} < {len}");
            ensure!(w.offset() == 0, "C14:frame:short-dest-offset", "offset advanced to {} on failure", w.offset());
        } else {
            ensure!(r.is_ok(), "C14:frame:dest", "write_to_buffer failed with capacity {cap} >= {len}");
            ensure!(w.offset() == len, "C14:frame:dest-offset", "offset {} after writing {len} bytes", w.offset());
        }
    }
    if cap < len {
        ensure!(dest.iter().all(|b| *b == 0x5A), "C14:frame:short-dest-touched", "too-small destination was modified");
    } else {
        ensure!(dest[..len] == expect[..] && dest[len..].iter().all(|b| *b == 0x5A), "C14:frame:dest-bytes", "write_to_buffer wrote wrong bytes");
    }
    // decode: exact and with a tail
    let mut input = expect.clone();
    input.extend_from_slice(&c.tail);
    {
        let mut s: &[u8] = &input;
        match Frame::read(&mut s) {
            Ok(Some(f)) => {
                ensure!(frame_view(&f) == view, "C14:frame:decode", "read() = {:?}, expected {:?}", frame_view(&f), view);
                ensure!(input.len() - s.len() == len, "C14:frame:decode-consumed", "read() consumed {} bytes, expected {len}", input.len() - s.len());
            }
            other => return Err(("C14:frame:decode".into(), format!("read() = {:?}", other.map(|o| o.map(|f| frame_view(&f)))))),
        }
        let mut r = BufferReader::new(&input);
        match Frame::read_from_buffer(&mut r) {
            Ok(Some(f)) => {
                ensure!(frame_view(&f) == view, "C14:frame:decode-buf", "read_from_buffer() = {:?}", frame_view(&f));
                ensure!(r.offset() == len, "C14:frame:decode-buf-consumed", "read_from_buffer() consumed {}, expected {len}", r.offset());
            }
            other => return Err(("C14:frame:decode-buf".into(), format!("read_from_buffer() = {:?}", other.map(|o| o.map(|f| frame_view(&f)))))),
        }
        let mut src = Scripted::new(&input, &[7, 1, 2], &[0, 1]);
        match run_to_end(Frame::read_async(&mut src), 100_000) {
            Some(Ok(f)) => {
                ensure!(frame_view(&f) == view, "C14:frame:decode-async", "read_async() = {:?}", frame_view(&f));
                ensure!(src.pos == len, "C14:frame:decode-async-consumed", "read_async() consumed {}, expected {len}", src.pos);
            }
            other => return Err(("C14:frame:decode-async".into(), format!("read_async() = {:?}", other.map(|o| o.map(|f| frame_view(&f)).map_err(|e| e.to_string()))))),
        }
    }
    // reference decodes what the implementation wrote
    match crate::model::ref_read_frame(&out) {
        crate::model::RefFrame::Frame(v, n) => ensure!(v == view && n == len, "C14:frame:cross", "reference decodes impl bytes as {:?}/{n}", v),
        other => return Err(("C14:frame:cross".into(), format!("reference result on impl bytes: {:?}", other))),
    }
    Ok(())
}

// ---------------------------------------------------------------- stream headers

#[derive(Clone, Debug, Serialize, Deserialize)]
pub struct HeaderCase {
    /// 0 control, 1 WT(session), 2 qpack enc, 3 qpack dec, 4 grease(id)
    pub kind: u8,
    pub id: u64,
    pub cap_delta: i8,
}

pub fn header_case() -> impl Strategy<Value = HeaderCase> {
    (0u8..5, gen::grease_id(), gen::session_id(), -3i8..=3).prop_map(|(kind, g, s, cap_delta)| HeaderCase {
        kind,
        id: if kind == 1 { s } else { g },
        cap_delta,
    })
}

pub fn test_header(c: &HeaderCase) -> R {
    let (ty, session) = match c.kind {
        0 => (reg::STREAM_CONTROL, None),
        1 => (reg::STREAM_WT_UNI, Some(c.id)),
        2 => (reg::STREAM_QPACK_ENCODER, None),
        3 => (reg::STREAM_QPACK_DECODER, None),
        _ => (c.id, None),
    };
    let mut expect = refcodec::enc_varint(ty);
    if let Some(s) = session {
        refcodec::put_varint(&mut expect, s);
    }
    let len = expect.len();
    // headers of kinds without a public constructor are obtained by decoding
    let header = match c.kind {
        0 => StreamHeader::new_control(),
        1 => StreamHeader::new_webtransport(sid(c.id)),
        _ => {
            let mut s: &[u8] = &expect;
            match StreamHeader::read(&mut s) {
                Ok(Some(h)) => h,
                other => return Err(("C14:header:decode".into(), format!("read({}) = {:?}", vcore::hex(&expect), other.map(|o| o.map(|h| header_view(&h)))))),
            }
        }
    };
    let view = header_view(&header);
    ensure!(view.ty == ty && view.session == session, "C14:header:accessors", "header reports {:?}, expected type {ty:#x} session {:?}", view, session);
    ensure!(header.write_size() == len, "C14:header:write_size", "write_size() = {}, encoding is {len}", header.write_size());
    ensure!(len <= StreamHeader::MAX_SIZE, "C14:header:max-size", "encoding of {len} bytes exceeds MAX_SIZE");
    let mut out = Vec::new();
    header.write(&mut out).unwrap();
    ensure!(out == expect, "C14:header:encode", "write() = {}, expected {}", vcore::hex(&out), vcore::hex(&expect));
    let mut aout: Vec<u8> = Vec::new();
    let r = run_to_end(header.write_async(&mut aout), 64);
    ensure!(matches!(r, Some(Ok(()))) && aout == expect, "C14:header:encode-async", "write_async() = {}", vcore::hex(&aout));
    let cap = (len as i64 + c.cap_delta as i64).max(0) as usize;
    let mut dest = vec![0x5Au8; cap + 2];
    {
        let mut w = BufferWriter::new(&mut dest[..cap]);
        let r = header.write_to_buffer(&mut w);
        if cap < len {
            ensure!(r.is_err() && w.offset() == 0, "C14:header:short-dest", "write_to_buffer with capacity {cap} < {len}: {:?}, offset {}", r.is_ok(), w.offset());
        } else {
            ensure!(r.is_ok() && w.offset() == len, "C14:header:dest", "write_to_buffer with capacity {cap}: ok={}, offset {}", r.is_ok(), w.offset());
        }
    }
    if cap < len {
        ensure!(dest.iter().all(|b| *b == 0x5A), "C14:header:short-dest-touched", "too-small destination was modified");
    } else {
        ensure!(dest[..len] == expect[..] && dest[len..].iter().all(|b| *b == 0x5A), "C14:header:dest-bytes", "write_to_buffer wrote wrong bytes");
    }
    let mut input = expect.clone();
    input.extend_from_slice(&[0x00, 0xc0]);
    let mut s: &[u8] = &input;
    match StreamHeader::read(&mut s) {
        Ok(Some(h)) => ensure!(header_view(&h) == view && input.len() - s.len() == len, "C14:header:decode", "read() = {:?} consuming {}", header_view(&h), input.len() - s.len()),
        _ => return Err(("C14:header:decode".into(), "read() failed on own encoding".into())),
    }
    let mut r = BufferReader::new(&input);
    match StreamHeader::read_from_buffer(&mut r) {
        Ok(Some(h)) => ensure!(header_view(&h) == view && r.offset() == len, "C14:header:decode-buf", "read_from_buffer() = {:?} consuming {}", header_view(&h), r.offset()),
        _ => return Err(("C14:header:decode-buf".into(), "read_from_buffer() failed on own encoding".into())),
    }
    let mut src = Scripted::new(&input, &[1], &[1, 0]);
    match run_to_end(StreamHeader::read_async(&mut src), 1000) {
        Some(Ok(h)) => ensure!(header_view(&h) == view && src.pos == len, "C14:header:decode-async", "read_async() = {:?} consuming {}", header_view(&h), src.pos),
        _ => return Err(("C14:header:decode-async".into(), "read_async() failed on own encoding".into())),
    }
    match refcodec::dec_uni_header(&out) {
        refcodec::UniHeaderDec::Plain(t, n) => ensure!(session.is_none() && t == ty && n == len, "C14:header:cross", "reference decodes impl bytes as plain {t:#x}/{n}"),
        refcodec::UniHeaderDec::Wt(s, n) => ensure!(session == Some(s) && n == len, "C14:header:cross", "reference decodes impl bytes as WT {s}/{n}"),
        _ => return Err(("C14:header:cross".into(), "reference cannot decode impl bytes".into())),
    }
    Ok(())
}

// ---------------------------------------------------------------- settings

#[derive(Clone, Debug, Serialize, Deserialize)]
pub struct SettingsCase {
    /// (selector, value); selector 0..7 known ids, 7 grease(idx), 8 unknown(idx)
    pub pairs: Vec<(u8, u64, u64)>,
}

pub const KNOWN_SETTINGS: [u64; 7] = [
    reg::SETTINGS_QPACK_MAX_TABLE_CAPACITY,
    reg::SETTINGS_MAX_FIELD_SECTION_SIZE,
    reg::SETTINGS_QPACK_BLOCKED_STREAMS,
    reg::SETTINGS_ENABLE_CONNECT_PROTOCOL,
    reg::SETTINGS_H3_DATAGRAM,
    reg::SETTINGS_ENABLE_WEBTRANSPORT,
    reg::SETTINGS_WT_MAX_SESSIONS,
];

pub fn known_setting_id(id: u64) -> Option<SettingId> {
    Some(match id {
        reg::SETTINGS_QPACK_MAX_TABLE_CAPACITY => SettingId::QPackMaxTableCapacity,
        reg::SETTINGS_MAX_FIELD_SECTION_SIZE => SettingId::MaxFieldSectionSize,
        reg::SETTINGS_QPACK_BLOCKED_STREAMS => SettingId::QPackBlockedStreams,
        reg::SETTINGS_ENABLE_CONNECT_PROTOCOL => SettingId::EnableConnectProtocol,
        reg::SETTINGS_H3_DATAGRAM => SettingId::H3Datagram,
        reg::SETTINGS_ENABLE_WEBTRANSPORT => SettingId::EnableWebTransport,
        reg::SETTINGS_WT_MAX_SESSIONS => SettingId::WebTransportMaxSessions,
        id if refcodec::is_grease(id) => SettingId::Exercise(VarInt::try_from_u64(id).unwrap()),
        _ => return None,
    })
}

pub fn settings_case() -> impl Strategy<Value = SettingsCase> {
    proptest::collection::vec((0u8..9, gen::varint_value(), gen::varint_value()), 0..10)
        .prop_map(|pairs| SettingsCase { pairs })
}

/// Resolves the case to distinct (id, value) pairs.
pub fn settings_pairs(c: &SettingsCase) -> Vec<(u64, u64)> {
    let mut out: Vec<(u64, u64)> = Vec::new();
    for (sel, idx, value) in &c.pairs {
        let id = match sel {
            0..=6 => KNOWN_SETTINGS[*sel as usize],
            7 => refcodec::grease(idx % ((refcodec::VARINT_MAX - 0x21) / 0x1f + 1)),
            _ => {
                let id = *idx;
                if refcodec::is_reserved_setting(id) || refcodec::is_grease(id) || KNOWN_SETTINGS.contains(&id) {
                    continue;
                }
                id
            }
        };
        if !out.iter().any(|(i, _)| *i == id) {
            out.push((id, *value));
        }
    }
    out
}

pub fn test_settings(c: &SettingsCase) -> R {
    let pairs = settings_pairs(c);
    let payload = refcodec::enc_settings(&pairs);
    let frame = Frame::new_settings(Cow::Owned(payload.clone()));
    let settings = Settings::with_frame(&frame).map_err(|e| ("C14:settings:decode".to_string(), format!("with_frame({}) = Err({:?})", vcore::hex_short(&payload), e)))?;
    let kept: Vec<(u64, u64)> = pairs.iter().copied().filter(|(id, _)| known_setting_id(*id).is_some()).collect();
    for (id, value) in &kept {
        let got = settings.get(known_setting_id(*id).unwrap()).map(|v| v.into_inner());
        ensure!(got == Some(*value), "C14:settings:decode-value", "setting {id:#x}: got {:?}, expected {value}", got);
    }
    for id in KNOWN_SETTINGS {
        if !kept.iter().any(|(i, _)| *i == id) {
            ensure!(settings.get(known_setting_id(id).unwrap()).is_none(), "C14:settings:invented", "setting {id:#x} present though never sent");
        }
    }
    // re-encode: the same set of (id, value) pairs, each once
    let regenerated = settings.generate_frame();
    ensure!(frame_view(&regenerated).ty == reg::FRAME_SETTINGS, "C14:settings:frame-kind", "generate_frame() is not a SETTINGS frame");
    let mut back = refcodec::dec_settings(regenerated.payload()).map_err(|_| ("C14:settings:encode".to_string(), "generate_frame() payload is malformed".to_string()))?;
    let mut want = kept.clone();
    back.sort();
    want.sort();
    ensure!(back == want, "C14:settings:roundtrip", "generate_frame() encodes {:?}, expected {:?}", back, want);
    let exact: usize = want.iter().map(|(i, v)| refcodec::varint_len(*i) + refcodec::varint_len(*v)).sum();
    ensure!(regenerated.payload().len() == exact, "C14:settings:size", "payload is {} bytes, shortest form is {exact}", regenerated.payload().len());
    // generate_frame_ref with exact and too-small buffers
    let mut buf = vec![0u8; exact];
    match settings.generate_frame_ref(&mut buf) {
        Ok(f) => {
            let mut b2 = refcodec::dec_settings(f.payload()).unwrap_or_default();
            b2.sort();
            ensure!(b2 == want, "C14:settings:frame-ref", "generate_frame_ref() encodes {:?}", b2);
        }
        Err(_) => return Err(("C14:settings:frame-ref".into(), format!("generate_frame_ref failed with exact capacity {exact}"))),
    }
    if exact > 0 {
        let mut small = vec![0u8; exact - 1];
        ensure!(settings.generate_frame_ref(&mut small).is_err(), "C14:settings:frame-ref-short", "generate_frame_ref succeeded with capacity {} < {exact}", exact - 1);
    }
    Ok(())
}

/// The builder path: what the endpoint itself would advertise.
pub fn test_settings_builder(mask: u8, a: u64, b: u64, c: u64) -> R {
    let mut bld = Settings::builder();
    let mut want: Vec<(u64, u64)> = Vec::new();
    let vi = |v: u64| VarInt::try_from_u64(v).unwrap();
    if mask & 1 != 0 {
        bld = bld.qpack_max_table_capacity(vi(a));
        want.push((reg::SETTINGS_QPACK_MAX_TABLE_CAPACITY, a));
    }
    if mask & 2 != 0 {
        bld = bld.qpack_blocked_streams(vi(b));
        want.push((reg::SETTINGS_QPACK_BLOCKED_STREAMS, b));
    }
    if mask & 4 != 0 {
        bld = bld.enable_connect_protocol();
        want.push((reg::SETTINGS_ENABLE_CONNECT_PROTOCOL, 1));
    }
    if mask & 8 != 0 {
        bld = bld.enable_webtransport();
        want.push((reg::SETTINGS_ENABLE_WEBTRANSPORT, 1));
    }
    if mask & 16 != 0 {
        bld = bld.enable_h3_datagrams();
        want.push((reg::SETTINGS_H3_DATAGRAM, 1));
    }
    if mask & 32 != 0 {
        bld = bld.webtransport_max_sessions(vi(c));
        want.push((reg::SETTINGS_WT_MAX_SESSIONS, c));
    }
    let s = bld.build();
    let f = s.generate_frame();
    let mut got = refcodec::dec_settings(f.payload()).map_err(|_| ("C14:settings:builder".to_string(), "malformed payload".to_string()))?;
    got.sort();
    want.sort();
    ensure!(got == want, "C14:settings:builder", "builder mask {mask:#b} encodes {:?}, expected {:?}", got, want);
    let back = Settings::with_frame(&f).map_err(|e| ("C14:settings:builder-decode".to_string(), format!("{e:?}")))?;
    for (id, v) in &want {
        ensure!(back.get(known_setting_id(*id).unwrap()).map(|x| x.into_inner()) == Some(*v), "C14:settings:builder-decode", "setting {id:#x} lost");
    }
    Ok(())
}

// ---------------------------------------------------------------- header maps (QPACK)

#[derive(Clone, Debug, Serialize, Deserialize)]
pub struct HeadersCase {
    pub fields: Vec<(String, String)>,
    /// per field: reference encoder options as bits (choice 0..3, huffman name, huffman value, row selector, n bit)
    pub opts: Vec<(u8, bool, bool, u8, bool)>,
}

fn name_strategy() -> impl Strategy<Value = String> {
    let statics: Vec<String> = rq::STATIC_TABLE.iter().map(|r| r.0.to_string()).collect();
    prop_oneof![
        3 => proptest::sample::select(statics),
        3 => "[a-z][a-z0-9-]{0,12}",
        1 => "[a-z]{6,8}",                       // around the 3-bit prefix boundary (7)
        1 => "[a-z0-9-]{130,140}",               // around 7 + 127
        // encoded length exactly at prefix + 128 (first value whose continuation needs a second
        // byte): '#' has a 12-bit Huffman code, so the literal form is kept; 'a' has a 5-bit code,
        // so 216 of them take exactly 135 Huffman bytes
        1 => proptest::sample::select(vec!["#".repeat(134), "#".repeat(135), "#".repeat(136), "a".repeat(215), "a".repeat(216), "a".repeat(217)]),
        1 => ":[a-z]{1,10}",
        2 => "\\PC{1,12}",                       // arbitrary printable Unicode
        1 => Just(String::new()),
    ]
}

fn value_strategy() -> impl Strategy<Value = String> {
    let statics: Vec<String> = rq::STATIC_TABLE.iter().map(|r| r.1.to_string()).collect();
    prop_oneof![
        3 => proptest::sample::select(statics),
        3 => "[ -~]{0,40}",
        1 => "[a-z]{120,135}",                   // around the 7-bit prefix boundary (127)
        1 => "[a-z ]{250,260}",
        // encoded length exactly at 127 + 128 = 255 (and its neighbours), literal and Huffman
        1 => proptest::sample::select(vec!["#".repeat(254), "#".repeat(255), "#".repeat(256), "a".repeat(407), "a".repeat(408), "a".repeat(409), "#".repeat(127), "#".repeat(128)]),
        1 => "[#-&(-+]{100,140}",                // characters with long Huffman codes: Huffman does not shrink
        2 => "\\PC{0,30}",
        1 => ".{0,20}",                          // may include control characters
        1 => "[ -~]{1000,1400}",
    ]
}

fn static_pair() -> impl Strategy<Value = (String, String)> {
    let rows: Vec<(String, String)> = rq::STATIC_TABLE.iter().map(|r| (r.0.to_string(), r.1.to_string())).collect();
    (proptest::sample::select(rows), 0u8..6).prop_map(|((n, v), m)| {
        let v2 = match m {
            0 => v.clone(),
            1 => v.to_ascii_uppercase(),
            2 => v.to_ascii_lowercase(),
            3 => {
                let mut c = v.chars();
                match c.next() {
                    Some(f) => f.to_ascii_uppercase().to_string() + c.as_str(),
                    None => String::new(),
                }
            }
            4 => format!("{v}x"),
            _ => v.chars().skip(1).collect(),
        };
        // the name itself in a case variant (arbitrary UTF-8 names are in the property's domain)
        let n2 = match m {
            1 | 4 => n.to_ascii_uppercase(),
            3 => {
                let mut c = n.chars();
                match c.next() {
                    Some(f) => f.to_ascii_uppercase().to_string() + c.as_str(),
                    None => String::new(),
                }
            }
            _ => n,
        };
        (n2, v2)
    })
}

pub fn headers_case() -> impl Strategy<Value = HeadersCase> {
    proptest::collection::vec(
        (prop_oneof![3 => (name_strategy(), value_strategy()).boxed(), 1 => static_pair().boxed()], (0u8..3, any::<bool>(), any::<bool>(), any::<u8>(), any::<bool>())).prop_map(|((n, v), o)| (n, v, o)),
        0..16,
    )
    .prop_map(|v| {
        let mut fields: Vec<(String, String)> = Vec::new();
        let mut opts = Vec::new();
        let mut total = 0usize;
        for (n, val, o) in v {
            if fields.iter().any(|(k, _)| *k == n) {
                continue;
            }
            if total + n.len() + val.len() + 8 > 3900 {
                continue;
            }
            total += n.len() + val.len() + 8;
            fields.push((n, val));
            opts.push(o);
        }
        HeadersCase { fields, opts }
    })
}

fn to_map(fields: &[(String, String)]) -> HashMap<String, String> {
    fields.iter().cloned().collect()
}

pub fn test_headers(c: &HeadersCase) -> R {
    let want = to_map(&c.fields);
    let headers: Headers = c.fields.iter().cloned().collect();
    let frame = headers.generate_frame();
    ensure!(frame_view(&frame).ty == reg::FRAME_HEADERS, "C14:headers:frame-kind", "generate_frame() is not HEADERS");
    let payload = frame.payload().to_vec();
    // the reference decodes what the implementation wrote
    let section = rq::decode_section(&payload).map_err(|e| ("C14:headers:cross-decode".to_string(), format!("reference cannot decode impl encoding {}: {:?}", vcore::hex_short(&payload), e)))?;
    ensure!(section.required_insert_count == 0 && section.delta_base == 0 && !section.sign, "C14:headers:prefix", "field section prefix is not (0, 0)");
    let got: HashMap<String, String> = section.fields.iter().map(|f| (f.name.clone(), f.value.clone())).collect();
    ensure!(section.fields.len() == want.len(), "C14:headers:count", "encoded {} field lines for {} fields", section.fields.len(), want.len());
    ensure!(got == want, "C14:headers:cross-decode", "reference decodes {:?}, expected {:?}", got, want);
    // pseudo-header fields first
    let mut seen_regular = false;
    for f in &section.fields {
        if f.name.starts_with(':') {
            ensure!(!seen_regular, "C14:headers:pseudo-order", "pseudo-header {} after a regular field", f.name);
        } else {
            seen_regular = true;
        }
    }
    // shortest integer forms: every field line has exactly the length the reference encoder
    // produces for the same representation choices
    for f in &section.fields {
        let rows: Vec<usize> = rq::STATIC_TABLE.iter().enumerate().filter(|(_, r)| r.0 == f.name).map(|(i, _)| i).collect();
        let (choice, row_sel) = match f.repr {
            rq::Repr::IndexedStatic => (rq::Choice::Best, 0u8),
            rq::Repr::LiteralStaticNameRef => (
                rq::Choice::NameRef,
                rows.iter().position(|r| Some(*r as u64) == f.index).unwrap_or(0) as u8,
            ),
            rq::Repr::LiteralLiteralName => (rq::Choice::Literal, 0),
        };
        let one = rq::encode_section(&[(
            f.name.clone(),
            f.value.clone(),
            rq::EncOpts { choice, huffman_name: f.huffman_name, huffman_value: f.huffman_value, row_sel, n_bit: f.n_bit },
        )]);
        ensure!(one.len() - 2 == f.wire_len, "C14:headers:shortest-form", "field {:?} occupies {} bytes, shortest form with the same representation is {}", f.name, f.wire_len, one.len() - 2);
    }
    // implementation decodes its own encoding
    let back = Headers::with_frame(&frame).map_err(|e| ("C14:headers:decode".to_string(), format!("with_frame(own encoding) = Err({e:?})")))?;
    ensure!(back.as_ref() == &want, "C14:headers:roundtrip", "decode(encode(h)) = {:?}, expected {:?}", back.as_ref(), want);
    for (k, v) in &want {
        ensure!(back.get(k) == Some(v.as_str()), "C14:headers:get", "get({k:?}) = {:?}", back.get(k));
    }
    // through the frame codec (payload within the parse cap)
    if payload.len() <= 4096 {
        let mut wire = Vec::new();
        frame.write(&mut wire).unwrap();
        let mut s: &[u8] = &wire;
        match Frame::read(&mut s) {
            Ok(Some(f)) => {
                let h = Headers::with_frame(&f).map_err(|e| ("C14:headers:wire".to_string(), format!("{e:?}")))?;
                ensure!(h.as_ref() == &want && s.is_empty(), "C14:headers:wire", "frame round trip changed the header map");
            }
            _ => return Err(("C14:headers:wire".into(), "HEADERS frame does not parse back".into())),
        }
    }
    // implementation decodes the reference encoder's output under every representation choice
    let ref_fields: Vec<(String, String, rq::EncOpts)> = c
        .fields
        .iter()
        .zip(c.opts.iter().chain(std::iter::repeat(&(0u8, false, false, 0u8, false))))
        .map(|((n, v), o)| {
            (
                n.clone(),
                v.clone(),
                rq::EncOpts {
                    choice: match o.0 { 0 => rq::Choice::Best, 1 => rq::Choice::NameRef, _ => rq::Choice::Literal },
                    huffman_name: o.1,
                    huffman_value: o.2,
                    row_sel: o.3,
                    n_bit: o.4,
                },
            )
        })
        .collect();
    let ref_bytes = rq::encode_section(&ref_fields);
    let rf = Frame::new_headers(Cow::Owned(ref_bytes.clone()));
    let h = Headers::with_frame(&rf).map_err(|e| ("C14:headers:cross-encode".to_string(), format!("impl cannot decode reference encoding {}: {e:?}", vcore::hex_short(&ref_bytes))))?;
    ensure!(h.as_ref() == &want, "C14:headers:cross-encode", "impl decodes reference encoding as {:?}, expected {:?}", h.as_ref(), want);
    Ok(())
}

// ---------------------------------------------------------------- datagrams

#[derive(Clone, Debug, Serialize, Deserialize)]
pub struct DatagramCase {
    pub session: u64,
    pub payload: Vec<u8>,
    pub cap_delta: i8,
}

pub fn datagram_case() -> impl Strategy<Value = DatagramCase> {
    (gen::session_id(), gen::payload(1500), -3i8..=3).prop_map(|(session, payload, cap_delta)| DatagramCase { session, payload, cap_delta })
}

pub fn test_datagram(c: &DatagramCase) -> R {
    let q = QStreamId::from_session_id(sid(c.session));
    ensure!(q.into_u64() == c.session / 4, "C14:datagram:quarter", "quarter id {} for session {}", q.into_u64(), c.session);
    let d = Datagram::new(q, &c.payload);
    let expect = refcodec::enc_datagram(c.session, &c.payload);
    let len = expect.len();
    ensure!(d.write_size() == len, "C14:datagram:write_size", "write_size() = {}, encoding is {len}", d.write_size());
    ensure!(Datagram::header_size(q) == len - c.payload.len(), "C14:datagram:header_size", "header_size = {}", Datagram::header_size(q));
    let cap = (len as i64 + c.cap_delta as i64).max(0) as usize;
    let mut dest = vec![0x5Au8; cap];
    let r = d.write(&mut dest);
    if cap < len {
        ensure!(r.is_err(), "C14:datagram:short-dest", "write succeeded with capacity {cap} < {len}");
        ensure!(dest.iter().all(|b| *b == 0x5A), "C14:datagram:short-dest-touched", "too-small destination was modified");
    } else {
        ensure!(matches!(r, Ok(n) if n == len), "C14:datagram:dest", "write returned {:?}, expected Ok({len})", r.ok());
        ensure!(dest[..len] == expect[..] && dest[len..].iter().all(|b| *b == 0x5A), "C14:datagram:encode", "write produced {}, expected {}", vcore::hex_short(&dest[..len]), vcore::hex_short(&expect));
    }
    match Datagram::read(&expect) {
        Ok(back) => {
            ensure!(back.qstream_id() == q, "C14:datagram:decode-id", "read() quarter id {}", back.qstream_id().into_u64());
            ensure!(back.payload() == &c.payload[..], "C14:datagram:decode-payload", "read() payload differs ({} vs {} bytes)", back.payload().len(), c.payload.len());
            ensure!(back.qstream_id().into_session_id().into_u64() == c.session, "C14:datagram:decode-session", "session id {} after round trip", back.qstream_id().into_session_id().into_u64());
        }
        Err(e) => return Err(("C14:datagram:decode".into(), format!("read(own encoding) = Err({e:?})"))),
    }
    Ok(())
}

// ---------------------------------------------------------------- driver

fn out(r: R, nontrivial: bool) -> Outcome {
    match r {
        Ok(()) => Outcome::pass(nontrivial),
        Err((sig, msg)) => Outcome::fail(sig, msg),
    }
}

fn guarded(f: impl FnOnce() -> R) -> R {
    match vcore::catch(f) {
        Ok(r) => r,
        Err(p) => Err(("C14:panic".into(), format!("panicked: {p}"))),
    }
}

pub fn run(run: &Run) {
    run.set_rule(RULE);
    run.trust("refcodec (own reference codec written from RFC 9000 §16, RFC 9114, RFC 9204, RFC 9297)");
    run.trust("httlib-huffman code table (shared third-party dependency)");
    run.assume("frame payloads and field sections stay within the library's documented 4096-byte parse cap");
    let workers = run.workers();

    // 1. integers: exhaustive range + boundaries
    let limit: u64 = run.tier.pick(1 << 24, 1 << 30);
    vcore::par_ranges(workers, limit, |_w, range| {
        let n = range.end - range.start;
        for v in range.clone() {
            if let Err((sig, msg)) = guarded(|| test_varint(v)) {
                if !run.fail("varint", &sig, &msg, json!({ "value": v })) {
                    return;
                }
            }
        }
        let nt = range.end.saturating_sub(range.start.max(64));
        run.eval_bulk("varint", n, nt);
    });
    run.section_exhaustive("varint", false, &format!("exhaustive for 0..{limit}, boundaries 2^k±2 for k<=62, random above"));
    if run.wants_sample("varint") {
        run.sample("varint", || json!({"value": 16384, "encoding": vcore::hex(&refcodec::enc_varint(16384))}));
    }
    let b = gen::boundaries();
    for v in &b {
        for r in [guarded(|| test_varint(*v)), guarded(|| test_varint_async(*v))] {
            if let Err((sig, msg)) = r {
                run.fail("varint", &sig, &msg, json!({ "value": v }));
            }
        }
        run.eval("varint", *v >= 64, *v);
    }
    run.label_n("varint:boundary", b.len() as u64);
    prop_search(
        run,
        Search { check: "varint-random", cases: run.tier.pick(200_000, 4_000_000), workers, max_shrink_iters: 2000 },
        gen::varint_value,
        |v| out(guarded(|| test_varint(*v).and_then(|_| test_varint_async(*v))), *v >= 64),
        |v| json!({ "value": v }),
    );

    // 2. frames: every payload length, then random structured
    let kinds: &[u8] = run.tier.pick(&[0u8][..], &[0u8, 1, 2, 3][..]);
    vcore::par_ranges(workers, 4097, |_w, range| {
        for len in range {
            for kind in kinds {
                let c = FrameCase { kind: *kind, id: refcodec::grease(len % 700), payload: (0..len).map(|i| (i * 7 + len) as u8).collect(), cap_delta: (len % 7) as i8 - 3, tail: vec![0x01] };
                if let Err((sig, msg)) = guarded(|| test_frame(&c)) {
                    run.fail("frame", &sig, &msg, serde_json::to_value(&c).unwrap());
                }
                run.eval("frame-lengths", true, vcore::hash64(&(len, *kind)));
            }
        }
    });
    run.section_exhaustive("frame-lengths", true, "all payload lengths 0..=4096 (DATA; thorough: DATA, HEADERS, SETTINGS, GREASE)");
    prop_search(
        run,
        Search { check: "frame", cases: run.tier.pick(250_000, 4_000_000), workers, max_shrink_iters: 4000 },
        frame_case,
        |c| out(guarded(|| test_frame(c)), true),
        |c| serde_json::to_value(c).unwrap(),
    );
    prop_search(
        run,
        Search { check: "stream-header", cases: run.tier.pick(200_000, 2_000_000), workers, max_shrink_iters: 2000 },
        header_case,
        |c| out(guarded(|| test_header(c)), c.kind == 1 || c.kind == 4),
        |c| serde_json::to_value(c).unwrap(),
    );

    // 3. settings
    prop_search(
        run,
        Search { check: "settings", cases: run.tier.pick(250_000, 4_000_000), workers, max_shrink_iters: 4000 },
        settings_case,
        |c| out(guarded(|| test_settings(c)), !settings_pairs(c).is_empty()),
        |c| serde_json::to_value(c).unwrap(),
    );
    for mask in 0u8..64 {
        for (a, b2, c3) in [(0u64, 0u64, 1u64), (63, 64, 16383), (16384, (1 << 30) - 1, 1 << 30), (refcodec::VARINT_MAX, 1, 0)] {
            if let Err((sig, msg)) = guarded(|| test_settings_builder(mask, a, b2, c3)) {
                run.fail("settings-builder", &sig, &msg, json!({"mask": mask, "a": a, "b": b2, "c": c3}));
            }
            run.eval("settings-builder", mask != 0, vcore::hash64(&(mask, a)));
        }
    }
    run.section_exhaustive("settings-builder", true, "all 64 subsets of the builder's settings x 4 value tuples");

    // 4. header maps
    prop_search(
        run,
        Search { check: "headers", cases: run.tier.pick(150_000, 3_000_000), workers, max_shrink_iters: 6000 },
        headers_case,
        |c| {
            let mut labels = Vec::new();
            if c.fields.iter().any(|(n, v)| rq::STATIC_TABLE.iter().any(|r| r.0 == n && r.1 == v)) {
                labels.push("headers:static-exact");
            }
            if c.fields.iter().any(|(n, v)| rq::STATIC_TABLE.iter().any(|r| r.0 == n) && !rq::STATIC_TABLE.iter().any(|r| r.0 == n && r.1 == v)) {
                labels.push("headers:static-name-only");
            }
            if c.fields.iter().any(|(n, _)| !rq::STATIC_TABLE.iter().any(|r| r.0 == n)) {
                labels.push("headers:literal-name");
            }
            if c.fields.iter().any(|(_, v)| v.len() >= 127) {
                labels.push("headers:value>=127");
            }
            if c.fields.iter().any(|(n, v)| !n.is_ascii() || !v.is_ascii()) {
                labels.push("headers:non-ascii");
            }
            if c.fields.iter().any(|(n, v)| rq::STATIC_TABLE.iter().any(|r| r.0 == n && r.1 != v && r.1.eq_ignore_ascii_case(v))) {
                labels.push("headers:static-value-case-variant");
            }
            if c.fields.iter().any(|(n, _)| rq::STATIC_TABLE.iter().any(|r| r.0 != n && r.0.eq_ignore_ascii_case(n))) {
                labels.push("headers:static-name-case-variant");
            }
            match guarded(|| test_headers(c)) {
                Ok(()) => Outcome::pass_l(!c.fields.is_empty(), labels),
                Err((s, m)) => Outcome::fail(s, m),
            }
        },
        |c| serde_json::to_value(c).unwrap(),
    );
    for l in ["headers:static-exact", "headers:static-name-only", "headers:literal-name", "headers:value>=127", "headers:non-ascii", "headers:static-value-case-variant", "headers:static-name-case-variant"] {
        run.essential(l);
    }

    // 5. datagrams
    prop_search(
        run,
        Search { check: "datagram", cases: run.tier.pick(250_000, 4_000_000), workers, max_shrink_iters: 4000 },
        datagram_case,
        |c| out(guarded(|| test_datagram(c)), true),
        |c| serde_json::to_value(c).unwrap(),
    );
}

pub fn replay(run: &Run, doc: &Value) -> bool {
    let check = doc["check"].as_str().unwrap_or("");
    let case = &doc["case"];
    let r: Option<R> = match check {
        "varint" | "varint-random" => case["value"].as_u64().map(|v| guarded(|| test_varint(v).and_then(|_| test_varint_async(v)))),
        "frame" | "frame-lengths" => serde_json::from_value::<FrameCase>(case.clone()).ok().map(|c| guarded(|| test_frame(&c))),
        "stream-header" => serde_json::from_value::<HeaderCase>(case.clone()).ok().map(|c| guarded(|| test_header(&c))),
        "settings" => serde_json::from_value::<SettingsCase>(case.clone()).ok().map(|c| guarded(|| test_settings(&c))),
        "settings-builder" => Some(guarded(|| test_settings_builder(case["mask"].as_u64().unwrap_or(0) as u8, case["a"].as_u64().unwrap_or(0), case["b"].as_u64().unwrap_or(0), case["c"].as_u64().unwrap_or(0)))),
        "headers" => serde_json::from_value::<HeadersCase>(case.clone()).ok().map(|c| guarded(|| test_headers(&c))),
        "datagram" => serde_json::from_value::<DatagramCase>(case.clone()).ok().map(|c| guarded(|| test_datagram(&c))),
        _ => None,
    };
    match r {
        None => false,
        Some(Ok(())) => {
            run.eval(check, true, 1);
            true
        }
        Some(Err((sig, msg))) => {
            run.eval(check, true, 1);
            run.fail(check, &sig, &msg, case.clone());
            true
        }
    }
}
