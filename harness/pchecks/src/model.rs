//! Reference model of frame reading and of the per-stream frame rules
//! (RFC 9114 §4.1, §6.2.1, §7.1, §7.2.x; draft-ietf-webtrans-http3 §4).

use crate::view::FrameView;
use refcodec::registry as reg;
use refcodec::{dec_elem, is_grease, is_valid_session_id, ElemDec};

/// The library's documented parse cap for a frame payload.
pub const PAYLOAD_CAP: u64 = 4096;

pub fn is_known_frame_type(ty: u64) -> bool {
    matches!(
        ty,
        reg::FRAME_DATA | reg::FRAME_HEADERS | reg::FRAME_SETTINGS | reg::FRAME_WT_STREAM
    ) || is_grease(ty)
}

#[derive(Clone, Debug, PartialEq, Eq)]
pub enum RefFrame {
    NeedMore,
    /// A known (or GREASE) frame and the bytes it occupies.
    Frame(FrameView, usize),
    /// A frame of a type the endpoint does not understand. `whole` = bytes occupied when the
    /// complete frame is in the buffer; `len` = declared length when the header is complete;
    /// `type_len` = bytes of the type varint.
    Unknown {
        ty: u64,
        type_len: usize,
        len: Option<u64>,
        whole: Option<usize>,
    },
    InvalidSession,
    TooBig,
}

/// Reference reading of one frame from the front of `buf`.
pub fn ref_read_frame(buf: &[u8]) -> RefFrame {
    let (ty, type_len) = match refcodec::dec_varint(buf) {
        refcodec::Dec::Value(v, n) => (v, n),
        refcodec::Dec::NeedMore => return RefFrame::NeedMore,
    };
    if !is_known_frame_type(ty) {
        let (len, whole) = match dec_elem(buf) {
            ElemDec::Frame {
                len,
                payload,
                header_len,
                ..
            } => (
                Some(len),
                payload.map(|p| header_len + p.len()),
            ),
            _ => (None, None),
        };
        return RefFrame::Unknown {
            ty,
            type_len,
            len,
            whole,
        };
    }
    match dec_elem(buf) {
        ElemDec::NeedMore => RefFrame::NeedMore,
        ElemDec::WtSignal { id, consumed } => {
            if is_valid_session_id(id) {
                RefFrame::Frame(
                    FrameView {
                        ty,
                        payload: Vec::new(),
                        session: Some(id),
                    },
                    consumed,
                )
            } else {
                RefFrame::InvalidSession
            }
        }
        ElemDec::Frame {
            ty,
            len,
            payload,
            header_len,
        } => {
            if len > PAYLOAD_CAP {
                return RefFrame::TooBig;
            }
            match payload {
                Some(p) => {
                    let n = header_len + p.len();
                    RefFrame::Frame(
                        FrameView {
                            ty,
                            payload: p,
                            session: None,
                        },
                        n,
                    )
                }
                None => RefFrame::NeedMore,
            }
        }
    }
}

/// The four typestates that can read frames.
#[derive(Clone, Copy, Debug, PartialEq, Eq, Hash)]
pub enum Ts {
    /// Peer-initiated bidirectional stream (request stream at a server, or WT bidi stream).
    BiRemote,
    /// Locally-initiated bidirectional stream (response side).
    BiLocal,
    /// Peer's control stream.
    UniRemoteControl,
    /// CONNECT (session) stream.
    Session,
}

pub const ALL_TS: [Ts; 4] = [Ts::BiRemote, Ts::BiLocal, Ts::UniRemoteControl, Ts::Session];

/// Admissible reaction to a frame.
#[derive(Clone, Debug, PartialEq, Eq)]
pub enum Rule {
    Accept,
    /// Connection error with one of these codes.
    Error(Vec<u64>),
}

/// Frame rules per stream kind. `first` = no frame was validated before on this stream.
pub fn rule(ts: Ts, first: bool, ty: u64) -> Rule {
    use Rule::*;
    if is_grease(ty) {
        return Accept;
    }
    match (ts, ty) {
        (Ts::BiRemote, reg::FRAME_DATA) | (Ts::BiRemote, reg::FRAME_HEADERS) => Accept,
        (Ts::BiRemote, reg::FRAME_SETTINGS) => Error(vec![reg::H3_FRAME_UNEXPECTED]),
        (Ts::BiRemote, reg::FRAME_WT_STREAM) => {
            if first {
                Accept
            } else {
                // the property names H3_FRAME_ERROR for "a WebTransport signal that is not first"
                Error(vec![reg::H3_FRAME_ERROR])
            }
        }
        (Ts::BiLocal, reg::FRAME_DATA)
        | (Ts::BiLocal, reg::FRAME_HEADERS)
        | (Ts::Session, reg::FRAME_DATA)
        | (Ts::Session, reg::FRAME_HEADERS) => Accept,
        (Ts::BiLocal, reg::FRAME_SETTINGS) | (Ts::Session, reg::FRAME_SETTINGS) => {
            Error(vec![reg::H3_FRAME_UNEXPECTED])
        }
        (Ts::BiLocal, reg::FRAME_WT_STREAM) | (Ts::Session, reg::FRAME_WT_STREAM) => {
            Error(vec![reg::H3_FRAME_UNEXPECTED, reg::H3_FRAME_ERROR])
        }
        (Ts::UniRemoteControl, reg::FRAME_DATA) | (Ts::UniRemoteControl, reg::FRAME_HEADERS) => {
            // first on control: MISSING_SETTINGS is decided one layer up; at this layer
            // DATA/HEADERS on a control stream is H3_FRAME_UNEXPECTED (RFC 9114 §7.2.1/§7.2.2)
            Error(vec![reg::H3_FRAME_UNEXPECTED, reg::H3_MISSING_SETTINGS])
        }
        (Ts::UniRemoteControl, reg::FRAME_SETTINGS) => Accept,
        (Ts::UniRemoteControl, reg::FRAME_WT_STREAM) => {
            Error(vec![reg::H3_FRAME_UNEXPECTED, reg::H3_FRAME_ERROR])
        }
        _ => unreachable!("rule() is only defined for known frame types"),
    }
}

/// Reference outcome of one `read_frame` call (sync semantics) on `buf`.
#[derive(Clone, Debug, PartialEq, Eq)]
pub enum Step {
    /// Incomplete input.
    NeedMore,
    /// Frame returned; bytes consumed (including skipped unknown frames before it).
    Frame(FrameView, usize),
    /// Error with one of these codes.
    Error(Vec<u64>),
}

/// Steps the reference model: skips whole unknown frames, applies cap and rules.
pub fn ref_step(ts: Ts, first: &mut bool, buf: &[u8]) -> Step {
    let mut off = 0;
    loop {
        match ref_read_frame(&buf[off..]) {
            RefFrame::NeedMore => return Step::NeedMore,
            RefFrame::Unknown { len, whole, .. } => {
                if let Some(l) = len {
                    if l > PAYLOAD_CAP {
                        return Step::Error(vec![reg::H3_EXCESSIVE_LOAD]);
                    }
                }
                match whole {
                    Some(n) => off += n,
                    None => return Step::NeedMore,
                }
            }
            RefFrame::InvalidSession => {
                // invalid id: H3_ID_ERROR; on streams where the signal is not allowed at all the
                // frame rule's codes are admissible as well
                let mut codes = vec![reg::H3_ID_ERROR];
                if let Rule::Error(c) = rule(ts, *first, reg::FRAME_WT_STREAM) {
                    codes.extend(c);
                }
                return Step::Error(codes);
            }
            RefFrame::TooBig => return Step::Error(vec![reg::H3_EXCESSIVE_LOAD]),
            RefFrame::Frame(view, n) => {
                let r = rule(ts, *first, view.ty);
                *first = false;
                return match r {
                    Rule::Accept => Step::Frame(view, off + n),
                    Rule::Error(codes) => Step::Error(codes),
                };
            }
        }
    }
}
