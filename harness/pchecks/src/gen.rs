//! Generators shared by the proto-level checks.

use proptest::prelude::*;
use refcodec::{registry as reg, VARINT_MAX};

pub fn boundaries() -> Vec<u64> {
    let mut v = vec![0u64, 1, 2, 3];
    for k in 1..=62u32 {
        let p = 1u64 << k;
        for d in [-2i64, -1, 0, 1, 2] {
            let x = (p as i128 + d as i128) as i128;
            if x >= 0 && x as u128 <= VARINT_MAX as u128 {
                v.push(x as u64);
            }
        }
    }
    v.push(VARINT_MAX);
    v.push(VARINT_MAX - 1);
    v.sort();
    v.dedup();
    v
}

/// Any value representable as a QUIC varint, biased to width boundaries.
pub fn varint_value() -> impl Strategy<Value = u64> {
    let b = boundaries();
    prop_oneof![
        3 => proptest::sample::select(b),
        2 => 0u64..64,
        2 => 64u64..16384,
        2 => 16384u64..(1 << 30),
        2 => (1u64 << 30)..=VARINT_MAX,
    ]
}

/// Valid session ids of every encoding width.
pub fn session_id() -> impl Strategy<Value = u64> {
    varint_value().prop_map(|v| (v / 4) * 4)
}

/// Ids of the four low-bit classes.
pub fn any_stream_id() -> impl Strategy<Value = u64> {
    varint_value()
}

pub fn grease_id() -> impl Strategy<Value = u64> {
    let max_n = (VARINT_MAX - 0x21) / 0x1f;
    prop_oneof![
        3 => 0u64..2,
        2 => 2u64..528,              // 2-byte encodings
        2 => 528u64..34_636_833,     // 4-byte encodings
        2 => 34_636_833u64..=max_n,  // 8-byte encodings
        1 => Just(max_n),
    ]
    .prop_map(|n| 0x1f * n + 0x21)
}

pub fn is_known_or_grease_frame(ty: u64) -> bool {
    matches!(
        ty,
        reg::FRAME_DATA | reg::FRAME_HEADERS | reg::FRAME_SETTINGS | reg::FRAME_WT_STREAM
    ) || refcodec::is_grease(ty)
}

/// Frame types the endpoint does not understand and that the RFCs allow a peer to send
/// (i.e. not the HTTP/2-reserved ones, which MUST be treated as H3_FRAME_UNEXPECTED).
pub fn unknown_frame_type() -> impl Strategy<Value = u64> {
    prop_oneof![
        2 => proptest::sample::select(vec![
            reg::FRAME_GOAWAY, reg::FRAME_MAX_PUSH_ID, reg::FRAME_CANCEL_PUSH,
            reg::FRAME_PRIORITY_UPDATE_REQ, reg::FRAME_PRIORITY_UPDATE_PUSH,
        ]),
        3 => varint_value(),
    ]
    .prop_filter("unknown, not reserved", |ty| {
        !is_known_or_grease_frame(*ty) && !reg::FRAME_H2_RESERVED.contains(ty) && *ty != reg::FRAME_PUSH_PROMISE
    })
}

pub fn payload(max: usize) -> impl Strategy<Value = Vec<u8>> {
    let lens: Vec<usize> = [0usize, 1, 2, 3, 62, 63, 64, 65, 127, 128, 255, 256, 1023, 1024, 4095, 4096]
        .into_iter()
        .filter(|l| *l <= max)
        .collect();
    prop_oneof![
        4 => proptest::collection::vec(any::<u8>(), 0..=max.min(24)),
        2 => proptest::collection::vec(any::<u8>(), 0..=max.min(300)),
        1 => proptest::collection::vec(any::<u8>(), 0..=max),
        2 => (proptest::sample::select(lens), any::<u8>(), any::<u8>()).prop_map(|(l, a, b)| {
            (0..l).map(|i| a.wrapping_add((i as u8).wrapping_mul(b | 1))).collect()
        }),
    ]
}

/// Chunk plan for the scripted source: sizes of successive reads.
pub fn chunk_plan() -> impl Strategy<Value = Vec<usize>> {
    prop_oneof![
        1 => Just(vec![]),
        2 => Just(vec![1]),
        3 => proptest::collection::vec(1usize..6, 1..6),
        1 => proptest::collection::vec(1usize..5000, 1..4),
    ]
}

/// Pending plan: number of `Pending` results before successive reads.
pub fn pending_plan() -> impl Strategy<Value = Vec<u8>> {
    prop_oneof![
        1 => Just(vec![]),
        2 => Just(vec![1]),
        3 => proptest::collection::vec(0u8..4, 1..6),
    ]
}
