//! C11 — decoding untrusted bytes is total, bounded and invariant-preserving.

use crate::aio::{run_to_end, Scripted};
use crate::inflight;
use crate::model::{self, RefFrame, Step, PAYLOAD_CAP};
use crate::view::{frame_view, header_view};
use proptest::prelude::*;
use refcodec::qpack as rq;
use refcodec::registry as reg;
use serde_json::{json, Value};
use std::borrow::Cow;
use std::collections::HashMap;
use vcore::{prop_search, Outcome, Run, Search};
use wtransport_proto::bytes::{self, BufferReader, BytesReader};
use wtransport_proto::capsule::capsules::CloseWebTransportSession;
use wtransport_proto::capsule::Capsule;
use wtransport_proto::datagram::Datagram;
use wtransport_proto::error::ErrorCode;
use wtransport_proto::frame::{self, Frame};
use wtransport_proto::headers::Headers;
use wtransport_proto::qpack::Decoder;
use wtransport_proto::settings::Settings;
use wtransport_proto::stream_header::{self, StreamHeader};
use wtransport_proto::varint::VarInt;

const RULE: &str = "inputs: all byte strings up to length 2 (quick) / 3 (thorough); every truncation and every single-byte mutation of golden encodings produced by the reference codec; structured adversaries (QPACK prefix integers with 1..16 continuation bytes at every prefix width, length fields at and beyond 4096 / 2^30 / 2^62-1, string lengths beyond the input, static indices 98/99/2^k, quarter ids around 2^60, session ids of all four low-bit classes); random bytes. Every input is fed to all decoders. Non-trivial: the first varint is complete and at least one more byte follows (some decoder gets past its first field); distinct = distinct byte string";

/// Allocation bound beyond the input size.
pub fn alloc_bound(len: usize) -> usize {
    32 * len + 64 * 1024
}

type R = Result<(), (String, String)>;

macro_rules! ensure {
    ($cond:expr, $sig:expr, $($arg:tt)*) => {
        if !$cond {
            return Err(($sig.to_string(), format!($($arg)*)));
        }
    };
}

fn code(e: ErrorCode) -> u64 {
    e.to_code().into_inner()
}

/// Runs one decoder under panic capture and allocation accounting.
fn guarded(name: &'static str, input_len: usize, f: impl FnOnce() -> R) -> R {
    inflight::alloc_reset();
    let r = match vcore::catch(f) {
        Ok(r) => r,
        Err(p) => Err((format!("C11:panic:{name}"), format!("{name} panicked: {p}"))),
    };
    let peak = inflight::alloc_peak();
    r?;
    ensure!(
        peak <= alloc_bound(input_len),
        format!("C11:alloc:{name}"),
        "{name} held {peak} bytes for an input of {input_len} bytes (bound {})",
        alloc_bound(input_len)
    );
    Ok(())
}

fn dec_varints(b: &[u8]) -> R {
    let expect = refcodec::dec_varint(b);
    let mut r = BufferReader::new(b);
    let got = r.get_varint();
    let mut s: &[u8] = b;
    let got2 = BytesReader::get_varint(&mut s);
    match expect {
        refcodec::Dec::NeedMore => {
            ensure!(got.is_none() && r.offset() == 0, "C11:varint:need-more", "BufferReader::get_varint on incomplete input: {:?}, offset {}", got, r.offset());
            ensure!(got2.is_none() && s.len() == b.len(), "C11:varint:need-more", "slice get_varint on incomplete input: {:?}", got2);
        }
        refcodec::Dec::Value(v, n) => {
            ensure!(got.map(|x| x.into_inner()) == Some(v) && r.offset() == n, "C11:varint:value", "BufferReader::get_varint = {:?}/{} expected {v}/{n}", got, r.offset());
            ensure!(got2.map(|x| x.into_inner()) == Some(v) && b.len() - s.len() == n, "C11:varint:value", "slice get_varint = {:?} expected {v}", got2);
            ensure!(v <= VarInt::MAX.into_inner(), "C11:varint:invariant", "value {v} >= 2^62");
        }
    }
    // async
    let mut src = Scripted::new(b, &[1], &[1]);
    match run_to_end(bytes::BytesReaderAsync::get_varint(&mut src), 4096) {
        None => return Err(("C11:hang:varint-async".into(), "GetVarint never completes".into())),
        Some(Ok(v)) => ensure!(matches!(expect, refcodec::Dec::Value(x, _) if x == v.into_inner()), "C11:varint:async", "GetVarint = {v}, reference {:?}", expect),
        Some(Err(e)) => {
            ensure!(matches!(expect, refcodec::Dec::NeedMore), "C11:varint:async", "GetVarint failed ({e}) on a complete varint");
            let want_immediate = b.is_empty();
            ensure!(matches!(e, bytes::IoReadError::ImmediateFin) == want_immediate, "C11:varint:async-fin", "GetVarint reported {e:?} with {} bytes available", b.len());
        }
    }
    Ok(())
}

fn frame_err_name(e: &frame::ParseError) -> &'static str {
    match e {
        frame::ParseError::UnknownFrame => "unknown",
        frame::ParseError::InvalidSessionId => "invalid-session",
        frame::ParseError::PayloadTooBig => "too-big",
    }
}

fn check_frame_invariants(f: &Frame<'_>) -> R {
    let v = frame_view(f);
    ensure!(v.payload.len() as u64 <= PAYLOAD_CAP, "C11:frame:invariant-cap", "returned payload of {} bytes exceeds the cap", v.payload.len());
    if let Some(s) = v.session {
        ensure!(refcodec::is_valid_session_id(s), "C11:frame:invariant-session", "returned session id {s} is not a client-initiated bidirectional stream id");
    }
    ensure!(v.ty <= refcodec::VARINT_MAX, "C11:frame:invariant-type", "type {} >= 2^62", v.ty);
    Ok(())
}

/// Compares one sync result with the reference (`offset` = bytes consumed when meaningful).
fn cmp_frame_sync(path: &str, got: &Result<Option<Frame<'_>>, frame::ParseError>, consumed: Option<usize>, expect: &RefFrame) -> R {
    let sig = |s: &str| format!("C11:frame:{s}");
    match (expect, got) {
        (RefFrame::NeedMore, Ok(None)) => Ok(()),
        (RefFrame::Frame(view, n), Ok(Some(f))) => {
            check_frame_invariants(f)?;
            ensure!(frame_view(f) == *view, sig("value"), "{path} = {:?}, reference {:?}", frame_view(f), view);
            if let Some(c) = consumed {
                ensure!(c == *n, sig("consumed"), "{path} consumed {c}, reference {n}");
            }
            Ok(())
        }
        (RefFrame::InvalidSession, Err(frame::ParseError::InvalidSessionId)) => Ok(()),
        (RefFrame::TooBig, Err(frame::ParseError::PayloadTooBig)) => Ok(()),
        (RefFrame::Unknown { len, whole, .. }, g) => {
            // the type is not understood: an "unknown frame" report, or need-more while the
            // frame is incomplete, or the payload cap
            let ok = match g {
                Err(frame::ParseError::UnknownFrame) => true,
                Ok(None) => whole.is_none(),
                Err(frame::ParseError::PayloadTooBig) => len.map(|l| l > PAYLOAD_CAP).unwrap_or(false),
                _ => false,
            };
            ensure!(ok, sig("unknown-type"), "{path} on a frame of unknown type = {}", describe(g));
            Ok(())
        }
        (e, g) => Err((sig("class"), format!("{path} = {}, reference {:?}", describe(g), e))),
    }
}

fn describe(g: &Result<Option<Frame<'_>>, frame::ParseError>) -> String {
    match g {
        Ok(Some(f)) => format!("Some({:?})", frame_view(f)),
        Ok(None) => "None".into(),
        Err(e) => format!("Err({})", frame_err_name(e)),
    }
}

fn dec_frames(b: &[u8]) -> R {
    let expect = model::ref_read_frame(b);
    let mut s: &[u8] = b;
    let got = Frame::read(&mut s);
    let consumed = b.len() - s.len();
    cmp_frame_sync("Frame::read", &got, Some(consumed), &expect)?;
    let mut r = BufferReader::new(b);
    let got = Frame::read_from_buffer(&mut r);
    let off = r.offset();
    if !matches!(got, Ok(Some(_))) {
        ensure!(off == 0, "C11:frame:buffer-offset", "read_from_buffer advanced to {off} without returning a frame");
    }
    cmp_frame_sync("Frame::read_from_buffer", &got, Some(off), &expect)?;
    // async, source ends with FIN
    let mut src = Scripted::new(b, &[2, 1, 5], &[0, 1]);
    let res = run_to_end(Frame::read_async(&mut src), 200_000);
    let Some(res) = res else {
        return Err(("C11:hang:frame-async".into(), "Frame::read_async never completes".into()));
    };
    let as_sync: Result<Option<Frame<'_>>, frame::ParseError> = match res {
        Ok(f) => Ok(Some(f)),
        Err(frame::IoReadError::Parse(e)) => Err(e),
        Err(frame::IoReadError::IO(io)) => {
            match io {
                bytes::IoReadError::ImmediateFin => ensure!(b.is_empty(), "C11:frame:async-fin", "ImmediateFin although {} bytes were available", b.len()),
                bytes::IoReadError::UnexpectedFin => ensure!(!b.is_empty(), "C11:frame:async-fin", "UnexpectedFin on empty input"),
                other => return Err(("C11:frame:async-io".into(), format!("read_async reported {other:?} on a source that finishes cleanly"))),
            }
            Ok(None)
        }
    };
    cmp_frame_sync("Frame::read_async", &as_sync, as_sync.as_ref().ok().and_then(|o| o.as_ref()).map(|_| src.pos), &expect)
}

fn dec_stream_headers(b: &[u8]) -> R {
    #[derive(Debug, PartialEq)]
    enum E {
        NeedMore,
        Header(u64, Option<u64>, usize),
        Unknown,
        InvalidSession,
    }
    let expect = match refcodec::dec_uni_header(b) {
        refcodec::UniHeaderDec::NeedMore => {
            // an unknown type is reported as soon as the type is complete
            match refcodec::dec_varint(b) {
                refcodec::Dec::Value(t, _) if t != reg::STREAM_WT_UNI => unreachable!(),
                _ => E::NeedMore,
            }
        }
        refcodec::UniHeaderDec::Plain(t, n) => {
            if matches!(t, reg::STREAM_CONTROL | reg::STREAM_QPACK_ENCODER | reg::STREAM_QPACK_DECODER) || refcodec::is_grease(t) {
                E::Header(t, None, n)
            } else {
                E::Unknown
            }
        }
        refcodec::UniHeaderDec::Wt(id, n) => {
            if refcodec::is_valid_session_id(id) {
                E::Header(reg::STREAM_WT_UNI, Some(id), n)
            } else {
                E::InvalidSession
            }
        }
    };
    let cmp = |path: &str, got: Result<Option<StreamHeader>, stream_header::ParseError>, consumed: usize| -> R {
        let g = match &got {
            Ok(Some(h)) => {
                let v = header_view(h);
                if let Some(s) = v.session {
                    ensure!(refcodec::is_valid_session_id(s), "C11:header:invariant-session", "returned session id {s} invalid");
                }
                E::Header(v.ty, v.session, consumed)
            }
            Ok(None) => E::NeedMore,
            Err(stream_header::ParseError::UnknownStream) => E::Unknown,
            Err(stream_header::ParseError::InvalidSessionId) => E::InvalidSession,
        };
        ensure!(g == expect, "C11:header:class", "{path} = {:?}, reference {:?}", g, expect);
        Ok(())
    };
    let mut s: &[u8] = b;
    let got = StreamHeader::read(&mut s);
    let c = if matches!(got, Ok(Some(_))) { b.len() - s.len() } else { 0 };
    let exp_c = if let E::Header(_, _, n) = expect { n } else { 0 };
    let _ = exp_c;
    cmp("StreamHeader::read", got, c)?;
    let mut r = BufferReader::new(b);
    let got = StreamHeader::read_from_buffer(&mut r);
    let off = r.offset();
    if !matches!(got, Ok(Some(_))) {
        ensure!(off == 0, "C11:header:buffer-offset", "read_from_buffer advanced to {off} without returning a header");
    }
    cmp("StreamHeader::read_from_buffer", got, off)?;
    let mut src = Scripted::new(b, &[1, 3], &[1, 0]);
    let Some(res) = run_to_end(StreamHeader::read_async(&mut src), 4096) else {
        return Err(("C11:hang:header-async".into(), "StreamHeader::read_async never completes".into()));
    };
    let as_sync = match res {
        Ok(h) => Ok(Some(h)),
        Err(stream_header::IoReadError::Parse(e)) => Err(e),
        Err(stream_header::IoReadError::IO(io)) => {
            ensure!(matches!(io, bytes::IoReadError::ImmediateFin) == b.is_empty() && matches!(io, bytes::IoReadError::ImmediateFin | bytes::IoReadError::UnexpectedFin), "C11:header:async-fin", "read_async reported {io:?} with {} bytes available", b.len());
            Ok(None)
        }
    };
    let c = if matches!(as_sync, Ok(Some(_))) { src.pos } else { 0 };
    cmp("StreamHeader::read_async", as_sync, c)
}

fn dec_settings(b: &[u8]) -> R {
    if b.len() as u64 > PAYLOAD_CAP {
        return Ok(());
    }
    let frame = Frame::new_settings(Cow::Borrowed(b));
    let got = Settings::with_frame(&frame);
    // sequential reference scan
    let mut off = 0;
    let mut seen: Vec<(u64, Vec<u64>)> = Vec::new();
    let mut saw_dup = false;
    let mut must: Option<Vec<u64>> = None;
    while off < b.len() {
        let id = match refcodec::dec_varint(&b[off..]) {
            refcodec::Dec::Value(v, n) => {
                off += n;
                v
            }
            refcodec::Dec::NeedMore => {
                must = Some(vec![reg::H3_FRAME_ERROR]);
                break;
            }
        };
        let value = match refcodec::dec_varint(&b[off..]) {
            refcodec::Dec::Value(v, n) => {
                off += n;
                v
            }
            refcodec::Dec::NeedMore => {
                let mut c = vec![reg::H3_FRAME_ERROR];
                if refcodec::is_reserved_setting(id) {
                    c.push(reg::H3_SETTINGS_ERROR);
                }
                must = Some(c);
                break;
            }
        };
        if refcodec::is_reserved_setting(id) {
            must = Some(vec![reg::H3_SETTINGS_ERROR]);
            break;
        }
        if crate::c14::known_setting_id(id).is_some() {
            if let Some(e) = seen.iter_mut().find(|(i, _)| *i == id) {
                e.1.push(value);
                saw_dup = true;
            } else {
                seen.push((id, vec![value]));
            }
        }
    }
    match (&got, &must) {
        (Err(e), Some(codes)) => {
            let mut codes = codes.clone();
            if saw_dup {
                codes.push(reg::H3_SETTINGS_ERROR);
            }
            ensure!(codes.contains(&code(*e)), "C11:settings:code", "with_frame = Err({e:?}), admissible codes {:x?}", codes);
        }
        (Ok(_), Some(codes)) => return Err(("C11:settings:accepted".into(), format!("malformed SETTINGS payload {} accepted (expected error {:x?})", vcore::hex_short(b), codes))),
        (Err(e), None) => ensure!(saw_dup && code(*e) == reg::H3_SETTINGS_ERROR, "C11:settings:rejected", "well-formed SETTINGS payload {} rejected with {e:?}", vcore::hex_short(b)),
        (Ok(s), None) => {
            for (id, values) in &seen {
                let g = s.get(crate::c14::known_setting_id(*id).unwrap()).map(|v| v.into_inner());
                ensure!(g.map(|g| values.contains(&g)).unwrap_or(false), "C11:settings:value", "setting {id:#x} = {:?}, sent {:?}", g, values);
            }
        }
    }
    Ok(())
}

fn fold(section: &rq::Section) -> HashMap<String, String> {
    let mut m = HashMap::new();
    for f in &section.fields {
        m.insert(f.name.clone(), f.value.clone());
    }
    m
}

fn dec_qpack(b: &[u8]) -> R {
    let expect = rq::decode_section(b);
    let got = Decoder::decode(b);
    match (&expect, &got) {
        (Ok(sec), Ok(map)) => ensure!(*map == fold(sec), "C11:qpack:value", "Decoder::decode = {:?}, reference {:?}", map, fold(sec)),
        (Ok(sec), Err(e)) => ensure!(sec.overlong, "C11:qpack:rejected", "valid field section rejected: {e:?} (reference decodes {:?})", fold(sec)),
        (Err(e), Ok(map)) => {
            let sig = if matches!(e, rq::QErr::IntegerOverflow) { "C11:qpack:silent-overflow" } else { "C11:qpack:accepted" };
            return Err((sig.into(), format!("invalid field section accepted as {:?}; reference says {:?}", map, e)));
        }
        (Err(_), Err(_)) => {}
    }
    if b.len() as u64 <= PAYLOAD_CAP {
        let frame = Frame::new_headers(Cow::Borrowed(b));
        match Headers::with_frame(&frame) {
            Ok(h) => ensure!(got.as_ref().ok() == Some(h.as_ref()), "C11:headers:differs", "Headers::with_frame disagrees with Decoder::decode"),
            Err(e) => {
                ensure!(got.is_err(), "C11:headers:differs", "Headers::with_frame failed where Decoder::decode succeeded");
                ensure!(code(e) == reg::QPACK_DECOMPRESSION_FAILED, "C11:headers:code", "Headers::with_frame error {e:?}, expected QPACK_DECOMPRESSION_FAILED");
            }
        }
    }
    Ok(())
}

fn dec_datagram(b: &[u8]) -> R {
    let got = Datagram::read(b);
    match refcodec::dec_datagram(b) {
        None => ensure!(got.is_err(), "C11:datagram:accepted", "datagram without a complete quarter stream id accepted"),
        Some((q, off)) => {
            if q > refcodec::QUARTER_ID_MAX {
                ensure!(got.is_err(), "C11:datagram:range", "quarter stream id {q} > 2^60-1 accepted");
            } else {
                match got {
                    Ok(d) => {
                        ensure!(d.qstream_id().into_u64() == q && d.payload() == &b[off..], "C11:datagram:value", "read() = ({}, {}B), reference ({q}, {}B)", d.qstream_id().into_u64(), d.payload().len(), b.len() - off);
                        let s = d.qstream_id().into_session_id().into_u64();
                        ensure!(s == q * 4 && s <= refcodec::VARINT_MAX, "C11:datagram:invariant", "session id {s} from quarter id {q}");
                    }
                    Err(e) => return Err(("C11:datagram:rejected".into(), format!("valid datagram rejected: {e:?}"))),
                }
            }
        }
    }
    if let Err(e) = Datagram::read(b) {
        ensure!(code(e) == reg::H3_DATAGRAM_ERROR, "C11:datagram:code", "error {e:?}, expected H3_DATAGRAM_ERROR");
    }
    Ok(())
}

fn dec_capsule(b: &[u8]) -> R {
    if b.len() as u64 > PAYLOAD_CAP {
        return Ok(());
    }
    let frame = Frame::new_data(Cow::Borrowed(b));
    let got = Capsule::with_frame(&frame);
    let expect = match refcodec::dec_capsule(b) {
        refcodec::Dec::Value((ty, v), _) if ty == reg::CAPSULE_CLOSE_WT_SESSION => Some(v),
        _ => None,
    };
    match (&got, &expect) {
        (None, None) => Ok(()),
        (Some(c), Some(v)) => {
            ensure!(c.payload() == &v[..], "C11:capsule:value", "capsule payload differs from the reference");
            let close = CloseWebTransportSession::with_capsule(c);
            match (close, refcodec::dec_close_capsule_value(v)) {
                (Ok(c), Ok((code_, reason))) => ensure!(c.error_code().into_inner() == code_ as u64 && c.reason() == reason, "C11:capsule:close-value", "close capsule = ({}, {:?}), reference ({code_}, {:?})", c.error_code(), c.reason(), reason),
                (Err(_), Err(())) => {}
                (Ok(c), Err(())) => return Err(("C11:capsule:close-accepted".into(), format!("malformed close capsule accepted: ({}, {}B)", c.error_code(), c.reason().len()))),
                (Err(e), Ok(_)) => return Err(("C11:capsule:close-rejected".into(), format!("valid close capsule rejected: {e:?}"))),
            }
            Ok(())
        }
        (g, e) => Err(("C11:capsule:class".into(), format!("Capsule::with_frame = {:?}, reference {:?}", g.as_ref().map(|c| c.payload().len()), e.as_ref().map(|v| v.len())))),
    }
}

/// Typestates: totality, and agreement with the rule model as long as no unknown type appears.
fn dec_typestates(b: &[u8]) -> R {
    for ts in model::ALL_TS {
        let mut first = true;
        let mut off = 0usize;
        let mut t = crate::c12::TsImpl::new(ts);
        let mut guard = 0;
        loop {
            guard += 1;
            ensure!(guard <= b.len() + 2, "C11:hang:typestate", "{ts:?}::read_frame does not make progress");
            let contains_unknown = matches!(model::ref_read_frame(&b[off..]), RefFrame::Unknown { .. });
            let mut s: &[u8] = &b[off..];
            let before = s.len();
            let got = t.read_frame(&mut s);
            let used = before - s.len();
            if contains_unknown {
                // C13 decides what happens next; here only totality and invariants
                if let Ok(Some(f)) = &got {
                    check_frame_invariants(f)?;
                }
                break;
            }
            let expect = model::ref_step(ts, &mut first, &b[off..]);
            match (&expect, &got) {
                (Step::NeedMore, Ok(None)) => break,
                (Step::Frame(v, n), Ok(Some(f))) => {
                    check_frame_invariants(f)?;
                    ensure!(frame_view(f) == *v && used == *n, "C11:typestate:value", "{ts:?}::read_frame = {:?}/{used}, reference {:?}/{n}", frame_view(f), v);
                    off += used;
                }
                (Step::Error(codes), Err(e)) => {
                    ensure!(codes.contains(&code(*e)), "C11:typestate:code", "{ts:?}::read_frame = Err({e:?}), admissible {:x?}", codes);
                    break;
                }
                (e, g) => {
                    return Err(("C11:typestate:class".into(), format!("{ts:?}::read_frame = {:?}, reference {:?}", g.as_ref().map(|o| o.as_ref().map(frame_view)), e)));
                }
            }
        }
    }
    Ok(())
}

/// Feeds `b` to every decoder.
pub fn check_bytes(b: &[u8]) -> R {
    inflight::enter(b);
    let r = (|| {
        guarded("varint", b.len(), || dec_varints(b))?;
        guarded("frame", b.len(), || dec_frames(b))?;
        guarded("stream-header", b.len(), || dec_stream_headers(b))?;
        guarded("settings", b.len(), || dec_settings(b))?;
        guarded("qpack", b.len(), || dec_qpack(b))?;
        guarded("datagram", b.len(), || dec_datagram(b))?;
        guarded("capsule", b.len(), || dec_capsule(b))?;
        guarded("typestate", b.len(), || dec_typestates(b))?;
        Ok(())
    })();
    inflight::leave();
    r
}

pub fn nontrivial(b: &[u8]) -> bool {
    matches!(refcodec::dec_varint(b), refcodec::Dec::Value(_, n) if b.len() > n)
}

/// Golden encodings (produced by the reference codec).
pub fn golden() -> Vec<Vec<u8>> {
    let mut g: Vec<Vec<u8>> = Vec::new();
    let req = rq::encode_section(&[
        (":method".into(), "CONNECT".into(), Default::default()),
        (":scheme".into(), "https".into(), Default::default()),
        (":protocol".into(), "webtransport".into(), Default::default()),
        (":authority".into(), "example.org:4433".into(), rq::EncOpts { huffman_value: true, ..Default::default() }),
        (":path".into(), "/a/b?c=d".into(), Default::default()),
        ("origin".into(), "https://example.org".into(), rq::EncOpts { choice: rq::Choice::Literal, huffman_name: true, ..Default::default() }),
        ("x-custom-header-name".into(), "v".repeat(130), Default::default()),
    ]);
    g.push(req.clone());
    g.push(refcodec::enc_frame(reg::FRAME_HEADERS, &req));
    g.push(rq::encode_section(&[(":status".into(), "200".into(), Default::default()), ("server".into(), "x".into(), Default::default())]));
    let settings = refcodec::enc_settings(&[
        (reg::SETTINGS_QPACK_MAX_TABLE_CAPACITY, 0),
        (reg::SETTINGS_QPACK_BLOCKED_STREAMS, 0),
        (reg::SETTINGS_ENABLE_CONNECT_PROTOCOL, 1),
        (reg::SETTINGS_H3_DATAGRAM, 1),
        (reg::SETTINGS_ENABLE_WEBTRANSPORT, 1),
        (reg::SETTINGS_WT_MAX_SESSIONS, 1),
        (refcodec::grease(7), 12345),
        (0x4242, 7),
    ]);
    g.push(settings.clone());
    g.push(refcodec::enc_frame(reg::FRAME_SETTINGS, &settings));
    g.push(refcodec::enc_frame(reg::FRAME_DATA, b"hello world"));
    g.push(refcodec::enc_frame(refcodec::grease(3), &[1, 2, 3]));
    g.push(refcodec::enc_frame(reg::FRAME_GOAWAY, &[0]));
    g.push(refcodec::Elem::WtSignal(0).encode());
    g.push(refcodec::Elem::WtSignal(1 << 20).encode());
    g.push(refcodec::enc_uni_header_wt(4));
    g.push(refcodec::enc_uni_header_wt((1 << 40) * 4));
    g.push(refcodec::enc_varint(reg::STREAM_CONTROL));
    g.push(refcodec::enc_varint(refcodec::grease(100)));
    g.push(refcodec::enc_datagram(0, b"datagram payload"));
    g.push(refcodec::enc_datagram(refcodec::VARINT_MAX - 3, b"x"));
    let cap = refcodec::enc_close_capsule(0xdead_beef, "bye – reason".as_bytes());
    g.push(cap.clone());
    g.push(refcodec::enc_frame(reg::FRAME_DATA, &cap));
    g.push(refcodec::enc_capsule(reg::CAPSULE_DRAIN_WT_SESSION, &[]));
    let mut two = refcodec::enc_frame(reg::FRAME_SETTINGS, &settings);
    two.extend(refcodec::enc_frame(refcodec::grease(1), b"zz"));
    two.extend(refcodec::enc_frame(reg::FRAME_HEADERS, &req));
    g.push(two);
    g
}

/// Structured adversarial inputs.
pub fn adversary() -> impl Strategy<Value = Vec<u8>> {
    let big_lens = proptest::sample::select(vec![4095u64, 4096, 4097, 16383, 16384, (1 << 30) - 1, 1 << 30, (1 << 32) - 1, 1 << 32, (1u64 << 62) - 1]);
    let qints = (1u32..=8, 0usize..=16, any::<u8>(), any::<bool>()).prop_map(|(n, cont, last, zero)| {
        let mut v = vec![((1u16 << n) - 1) as u8 | if n < 8 { 0 } else { 0 }];
        for _ in 0..cont {
            v.push(if zero { 0x80 } else { 0xff });
        }
        v.push(last & 0x7f);
        v
    });
    prop_oneof![
        // frame header with a huge length, some payload
        3 => (proptest::sample::select(vec![0u64, 1, 4, 0x21, 7, 0x40]), big_lens.clone(), proptest::collection::vec(any::<u8>(), 0..8)).prop_map(|(ty, len, tail)| {
            let mut v = refcodec::enc_frame_header(ty, len);
            v.extend(tail);
            v
        }),
        // QPACK: prefix bytes then an integer with a long continuation run in each position
        4 => (qints.clone(), 0u8..6, proptest::collection::vec(any::<u8>(), 0..6)).prop_map(|(int, pos, tail)| {
            let mut v: Vec<u8> = Vec::new();
            match pos {
                0 => v.extend(&int),                       // required insert count (8-bit prefix)
                1 => { v.push(0); let mut i = int.clone(); i[0] = 0x7f; v.extend(i); } // base (7)
                2 => { v.extend([0, 0]); let mut i = int.clone(); i[0] = 0xc0 | 0x3f; v.extend(i); } // indexed static (6)
                3 => { v.extend([0, 0]); let mut i = int.clone(); i[0] = 0x50 | 0x0f; v.extend(i); v.push(0); } // name ref (4)
                4 => { v.extend([0, 0]); let mut i = int.clone(); i[0] = 0x20 | 0x07; v.extend(i); } // literal name length (3)
                _ => { v.extend([0, 0, 0x51]); let mut i = int.clone(); i[0] = 0x7f; v.extend(i); } // value length (7)
            }
            v.extend(tail);
            v
        }),
        // QPACK: indices at and beyond the table, string lengths beyond the input
        2 => (proptest::sample::select(vec![97u64, 98, 99, 100, 127, 128, 255, 256, 1 << 16, 1 << 32, u64::MAX - 64]), 0u8..3, proptest::collection::vec(any::<u8>(), 0..5)).prop_map(|(idx, kind, tail)| {
            let mut v = vec![0u8, 0];
            match kind {
                0 => rq::enc_prefix_int(&mut v, 6, 0b11, idx),
                1 => { rq::enc_prefix_int(&mut v, 4, 0b0101, idx); v.push(0); }
                _ => { rq::enc_prefix_int(&mut v, 3, 0b00100, idx); }
            }
            v.extend(tail);
            v
        }),
        // datagrams around the quarter id limit
        2 => (proptest::sample::select(vec![(1u64 << 60) - 2, (1 << 60) - 1, 1 << 60, (1 << 60) + 1, (1 << 62) - 1, 0, 63, 64]), proptest::collection::vec(any::<u8>(), 0..5)).prop_map(|(q, tail)| {
            let mut v = refcodec::enc_varint(q);
            v.extend(tail);
            v
        }),
        // WT signal / uni header with ids of all four classes
        2 => (any::<bool>(), crate::gen::varint_value()).prop_map(|(uni, id)| if uni { refcodec::enc_uni_header_wt(id) } else { refcodec::enc_bi_header_wt(id) }),
        // capsules with lengths around the 1024-byte reason limit and invalid UTF-8
        2 => (proptest::sample::select(vec![0usize, 3, 4, 5, 1027, 1028, 1029, 2000]), any::<u8>()).prop_map(|(n, fill)| refcodec::enc_capsule(reg::CAPSULE_CLOSE_WT_SESSION, &vec![fill; n])),
        // settings with reserved / duplicate / truncated pairs
        2 => proptest::collection::vec((proptest::sample::select(vec![0u64, 1, 2, 3, 4, 5, 6, 7, 8, 0x33, 0x21, 0x40, 0x2b603742]), crate::gen::varint_value()), 0..5).prop_flat_map(|pairs| {
            let enc = refcodec::enc_settings(&pairs);
            let n = enc.len();
            (Just(enc), 0..=n)
        }).prop_map(|(enc, cut)| enc[..cut].to_vec()),
        // random bytes
        3 => proptest::collection::vec(any::<u8>(), 0..40),
        1 => proptest::collection::vec(any::<u8>(), 0..600),
    ]
}

pub fn run(run: &Run) {
    run.set_rule(RULE);
    run.trust("refcodec (own reference codec)");
    run.trust("httlib-huffman code table (shared third-party dependency)");
    run.assume("allocation bound: peak live bytes per decoder call <= 32*len + 64 KiB (the statement's 'fixed bound beyond the input size')");
    run.assume("QPACK prefix integers with more than 10 continuation bytes may be rejected (RFC 7541 §5.1 lets implementations limit octet length)");
    let workers = run.workers();
    let emergency = format!("{}/replays/C11-emergency-{}-{}.json", vcore::VERIF_ROOT, run.seed, std::process::id());
    let _ = std::fs::create_dir_all(format!("{}/replays", vcore::VERIF_ROOT));
    inflight::arm(&emergency);
    inflight::spawn_watchdog(20_000);

    let report = |check: &str, b: &[u8], r: R| -> bool {
        match r {
            Ok(()) => true,
            Err((sig, msg)) => run.fail(check, &sig, &msg, json!({"hex": vcore::hex(b)})),
        }
    };

    // 1. exhaustive short strings
    let maxlen = run.tier.pick(2usize, 3usize);
    let mut total: u64 = 0;
    for l in 0..=maxlen {
        total += 256u64.pow(l as u32);
    }
    vcore::par_ranges(workers, total, |_w, range| {
        let mut nt = 0u64;
        let n = range.end - range.start;
        for mut i in range {
            let mut len = 0usize;
            let mut span = 1u64;
            while i >= span {
                i -= span;
                span *= 256;
                len += 1;
            }
            let mut b = [0u8; 4];
            for k in 0..len {
                b[k] = ((i >> (8 * (len - 1 - k))) & 0xff) as u8;
            }
            let bytes = &b[..len];
            if nontrivial(bytes) {
                nt += 1;
            }
            if !report("exhaustive", bytes, check_bytes(bytes)) {
                return;
            }
        }
        run.eval_bulk("exhaustive", n, nt);
    });
    run.section_exhaustive("exhaustive", true, &format!("all byte strings of length 0..={maxlen}"));
    run.sample("exhaustive", || json!({"hex": "4100"}));

    // 2. golden encodings: truncations and single-byte mutations
    let gold = golden();
    let jobs: Vec<(usize, usize)> = gold.iter().enumerate().flat_map(|(gi, g)| (0..=g.len()).map(move |p| (gi, p))).collect();
    vcore::par_ranges(workers, jobs.len() as u64, |_w, range| {
        for j in range {
            let (gi, pos) = jobs[j as usize];
            let g = &gold[gi];
            let t = &g[..pos];
            report("golden-truncation", t, check_bytes(t));
            run.eval("golden-truncation", nontrivial(t), vcore::hash64(t));
            if pos < g.len() {
                let mut m = g.clone();
                let values: Vec<u8> = if pos < 48 || run.tier == vcore::Tier::Thorough { (0..=255u8).collect() } else { (0..8).map(|k| g[pos] ^ (1 << k)).collect() };
                for v in values {
                    if v == g[pos] {
                        continue;
                    }
                    m[pos] = v;
                    report("golden-mutation", &m, check_bytes(&m));
                    run.eval("golden-mutation", nontrivial(&m), vcore::hash64(&m));
                }
                if run.wants_sample("golden-mutation") {
                    run.sample("golden-mutation", || json!({"golden": vcore::hex_short(g), "position": pos}));
                }
            }
        }
    });
    run.label_n("golden-encodings", gold.len() as u64);

    // 3. structured adversaries + random bytes
    prop_search(
        run,
        Search { check: "adversary", cases: run.tier.pick(2_000_000, 12_000_000), workers, max_shrink_iters: 8000 },
        adversary,
        |b| match check_bytes(b) {
            Ok(()) => Outcome::pass(nontrivial(b)),
            Err((s, m)) => Outcome::fail(s, m),
        },
        |b| json!({"hex": vcore::hex(b)}),
    );
    inflight::disarm(&emergency);
}

pub fn replay(run: &Run, doc: &Value) -> bool {
    let Some(b) = doc["case"]["hex"].as_str().and_then(vcore::unhex) else {
        return false;
    };
    let emergency = format!("{}/replays/C11-emergency-replay-{}.json", vcore::VERIF_ROOT, std::process::id());
    inflight::arm(&emergency);
    inflight::spawn_watchdog(20_000);
    let check = doc["check"].as_str().unwrap_or("bytes");
    run.eval(check, true, 1);
    if let Err((sig, msg)) = check_bytes(&b) {
        run.fail(check, &sig, &msg, doc["case"].clone());
    }
    inflight::disarm(&emergency);
    true
}
