use pchecks::inflight::CountingAlloc;
use vcore::{parse_args, Run};

#[global_allocator]
static ALLOC: CountingAlloc = CountingAlloc;

fn main() {
    let args = parse_args();
    vcore::install_panic_hook();
    let run = Run::new(&args, "exploration");
    let id = args.prop.to_uppercase();
    type RunFn = fn(&Run);
    type ReplayFn = fn(&Run, &serde_json::Value) -> bool;
    let (run_fn, replay_fn): (RunFn, ReplayFn) = match id.as_str() {
        "C11" => (pchecks::c11::run, pchecks::c11::replay),
        "C12" => (pchecks::c12::run, pchecks::c12::replay),
        "C13" => (pchecks::c13::run, pchecks::c13::replay),
        "C14" => (pchecks::c14::run, pchecks::c14::replay),
        "C15" => (pchecks::c15::run, pchecks::c15::replay),
        "C17" => (pchecks::c17::run, pchecks::c17::replay),
        "C18" => (pchecks::c18::run, pchecks::c18::replay),
        other => {
            eprintln!("pcheck: no proto-level check for {other}");
            std::process::exit(2);
        }
    };
    if let Some(doc) = run.replay_doc() {
        if !replay_fn(&run, &doc) {
            eprintln!("pcheck: replay file not understood by {id}");
            std::process::exit(2);
        }
        std::process::exit(run.finish());
    }
    // regression inputs first
    for (path, doc) in run.regress_docs() {
        if !replay_fn(&run, &doc) {
            // may belong to the end-to-end half of the property
            let _ = path;
        }
    }
    run_fn(&run);
    std::process::exit(run.finish());
}
