use pchecks::inflight::CountingAlloc;
use vcore::{parse_args, Run};

#[global_allocator]
static ALLOC: CountingAlloc = CountingAlloc;

fn dump_seeds(dir: &str) {
    use std::io::Write;
    let write = |target: &str, name: String, bytes: &[u8]| {
        let d = format!("{dir}/{target}");
        let _ = std::fs::create_dir_all(&d);
        if let Ok(mut f) = std::fs::File::create(format!("{d}/{name}")) {
            let _ = f.write_all(bytes);
        }
    };
    for (i, g) in pchecks::c11::golden().iter().enumerate() {
        write("c11_decode", format!("golden-{i:02}"), g);
        let mut v = vec![2u8, 1, 3, 1, 1, 0, 0, 0];
        v.extend_from_slice(g);
        write("c15_paths", format!("golden-{i:02}"), &v);
    }
    for i in 0..32u8 {
        let seed: Vec<u8> = (0..96u32).map(|k| (k as u8).wrapping_mul(31).wrapping_add(i.wrapping_mul(17))).collect();
        let mut a = vec![i];
        a.extend_from_slice(&seed);
        write("c13_insert", format!("seed-{i:02}"), &a);
        write("c14_roundtrip", format!("seed-{i:02}"), &a);
    }
}

fn main() {
    if std::env::args().nth(1).as_deref() == Some("SEEDS") {
        dump_seeds(&std::env::args().nth(2).unwrap_or_else(|| "/verif/fuzz/seeds".into()));
        return;
    }
    let args = parse_args();
    vcore::install_panic_hook();
    let run = Run::new(&args, "exploration");
    let id = args.prop.to_uppercase();
    type RunFn = fn(&Run);
    type ReplayFn = fn(&Run, &serde_json::Value) -> bool;
    let (run_fn, replay_fn): (RunFn, ReplayFn) = match id.as_str() {
        "C11" => (pchecks::c11::run, pchecks::c11::replay),
        "C12" => (pchecks::c12::run, pchecks::c12::replay),
        "C13" => (pchecks::c13::run, pchecks::c13::replay),
        "C14" => (pchecks::c14::run, pchecks::c14::replay),
        "C15" => (pchecks::c15::run, pchecks::c15::replay),
        "C17" => (pchecks::c17::run, pchecks::c17::replay),
        "C18" => (pchecks::c18::run, pchecks::c18::replay),
        other => {
            eprintln!("pcheck: no proto-level check for {other}");
            std::process::exit(2);
        }
    };
    if id == "SEEDS" {
        unreachable!();
    }
    if let Some(doc) = run.replay_doc() {
        if let Some(target) = doc["check"].as_str().and_then(|c| c.strip_prefix("fuzz:")) {
            let data = doc["case"]["hex"].as_str().and_then(vcore::unhex).unwrap_or_default();
            run.eval("fuzz-replay", true, 1);
            match vcore::catch(|| pchecks::fuzzglue::replay(target, &data)) {
                Ok(Some(Ok(()))) => {}
                Ok(Some(Err((sig, msg)))) => {
                    run.fail(&format!("fuzz:{target}"), &sig, &msg, doc["case"].clone());
                }
                Ok(None) => {
                    eprintln!("pcheck: unknown fuzz target {target}");
                    std::process::exit(2);
                }
                Err(p) => {
                    run.fail(&format!("fuzz:{target}"), &format!("{id}:panic"), &p, doc["case"].clone());
                }
            }
            std::process::exit(run.finish());
        }
        if !replay_fn(&run, &doc) {
            eprintln!("pcheck: replay file not understood by {id}");
            std::process::exit(2);
        }
        std::process::exit(run.finish());
    }
    // regression inputs first
    for (path, doc) in run.regress_docs() {
        if !replay_fn(&run, &doc) {
            // may belong to the end-to-end half of the property
            let _ = path;
        }
    }
    run_fn(&run);
    std::process::exit(run.finish());
}
