//! C13 (sans-IO half) — unknown and GREASE elements are skipped whole, with no side effects.

use crate::aio::{run_to_end, Scripted};
use crate::c12::TsImpl;
use crate::model::{self, Ts};
use crate::view::{frame_view, FrameView};
use proptest::prelude::*;
use refcodec::registry as reg;
use serde::{Deserialize, Serialize};
use serde_json::Value;
use std::borrow::Cow;
use vcore::{prop_search, Outcome, Run, Search};
use wtransport_proto::bytes::{self, BufferReader};
use wtransport_proto::frame::Frame;
use wtransport_proto::settings::Settings;
use wtransport_proto::stream::IoReadError;

const RULE: &str = "metamorphic: a valid frame sequence for a typestate (request/response HEADERS+DATA, WT signal, control-stream SETTINGS) is read with and without inserted elements — GREASE frames (type 0x1f*N+0x21 of every varint width) and frames of unknown non-reserved types (on the control stream also GOAWAY, MAX_PUSH_ID, CANCEL_PUSH, PRIORITY_UPDATE), payloads 0..4096 bytes including payloads that themselves encode frames — at any positions, through all three decoding paths; the known non-GREASE frames read must be identical and the reader must end exactly at the end of input. Same for unknown/GREASE setting identifiers inside SETTINGS. Non-trivial: at least one inserted element with a non-empty payload is followed by a known element; distinct = distinct (typestate, base, insertions)";

#[derive(Clone, Debug, Serialize, Deserialize, PartialEq, Eq, Hash)]
pub struct Ins {
    pub ty: u64,
    pub payload: Vec<u8>,
    /// insertion position selector (mapped monotonically onto 0..=base.len())
    pub pos: u16,
}

#[derive(Clone, Debug, Serialize, Deserialize)]
pub struct InsCase {
    pub ts: u8,
    /// base frames as (type, payload); type 0x41 = WT signal with payload ignored and `session`
    pub base: Vec<(u64, Vec<u8>)>,
    pub session: u64,
    pub ins: Vec<Ins>,
}

fn enc_base(c: &InsCase, f: &(u64, Vec<u8>)) -> (Vec<u8>, FrameView) {
    if f.0 == reg::FRAME_WT_STREAM {
        let id = (c.session / 4) * 4;
        (refcodec::enc_bi_header_wt(id), FrameView { ty: f.0, payload: vec![], session: Some(id) })
    } else {
        (refcodec::enc_frame(f.0, &f.1), FrameView { ty: f.0, payload: f.1.clone(), session: None })
    }
}

/// Builds (bytes, expected known frames, nontrivial).
pub fn build(c: &InsCase) -> (Vec<u8>, Vec<FrameView>, bool) {
    let n = c.base.len();
    let mut slots: Vec<Vec<&Ins>> = vec![Vec::new(); n + 1];
    for i in &c.ins {
        slots[vcore::pick_idx(i.pos, n + 1)].push(i);
    }
    // a WT signal upgrades the stream: nothing of HTTP/3 may follow or precede it
    let wt_first = c.base.first().map(|f| f.0 == reg::FRAME_WT_STREAM).unwrap_or(false);
    let mut bytes = Vec::new();
    let mut expect = Vec::new();
    let mut nontrivial = false;
    for k in 0..=n {
        if !(wt_first) {
            for i in &slots[k] {
                bytes.extend(refcodec::enc_frame(i.ty, &i.payload));
                if !i.payload.is_empty() && k < n {
                    nontrivial = true;
                }
            }
        }
        if k < n {
            let (b, v) = enc_base(c, &c.base[k]);
            bytes.extend(b);
            expect.push(v);
            if wt_first {
                break;
            }
        }
    }
    (bytes, expect, nontrivial)
}

type R = Result<bool, (String, String)>;

pub fn test_insertions(c: &InsCase) -> R {
    let ts = model::ALL_TS[c.ts as usize % 4];
    let (bytes, expect, nontrivial) = build(c);
    let sig = |what: &str| format!("C13:{what}:{ts:?}");
    let describe = |got: &[FrameView]| -> String {
        format!(
            "known frames read {:?}, expected {:?}; input {}",
            got.iter().map(|v| (v.ty, v.payload.len(), v.session)).collect::<Vec<_>>(),
            expect.iter().map(|v| (v.ty, v.payload.len(), v.session)).collect::<Vec<_>>(),
            vcore::hex_short(&bytes)
        )
    };
    // sync slice
    {
        let mut t = TsImpl::new(ts);
        let mut s: &[u8] = &bytes;
        let mut got = Vec::new();
        loop {
            match t.read_frame(&mut s) {
                Ok(Some(f)) => {
                    let v = frame_view(&f);
                    if !refcodec::is_grease(v.ty) {
                        got.push(v);
                    }
                    if got.len() > expect.len() {
                        break;
                    }
                }
                Ok(None) => break,
                Err(e) => return Err((sig("error"), format!("read_frame failed with {e:?} after {} known frames; {}", got.len(), describe(&got)))),
            }
        }
        if got != expect {
            return Err((sig("frames"), format!("read_frame: {}", describe(&got))));
        }
        if !s.is_empty() {
            return Err((sig("position"), format!("read_frame stopped with {} unread bytes", s.len())));
        }
    }
    // buffered
    {
        let mut t = TsImpl::new(ts);
        let mut r = BufferReader::new(&bytes);
        let mut got = Vec::new();
        loop {
            match t.read_frame_from_buffer(&mut r) {
                Ok(Some(f)) => {
                    let v = frame_view(&f);
                    if !refcodec::is_grease(v.ty) {
                        got.push(v);
                    }
                    if got.len() > expect.len() {
                        break;
                    }
                }
                Ok(None) => break,
                Err(e) => return Err((sig("error"), format!("read_frame_from_buffer failed with {e:?}; {}", describe(&got)))),
            }
        }
        if got != expect {
            return Err((sig("frames"), format!("read_frame_from_buffer: {}", describe(&got))));
        }
        // trailing skipped elements are not committed by a buffered reader (nothing was returned);
        // but nothing before the last returned frame may be left unread
        let last_known_end = end_of_last_known(c);
        if r.offset() < last_known_end {
            return Err((sig("position"), format!("read_frame_from_buffer stopped at {} before the end of the last known frame ({last_known_end})", r.offset())));
        }
    }
    // buffered, with the input arriving incrementally: the parser is run on every growing prefix
    // and resumes from the last committed offset, as a sans-IO user does
    {
        let mut t = TsImpl::new(ts);
        let mut offset = 0usize;
        let mut got = Vec::new();
        let points: Vec<usize> = if bytes.len() <= 160 { (0..=bytes.len()).collect() } else {
            let mut v: Vec<usize> = (0..=64).collect();
            let step = (bytes.len() - 64) / 64 + 1;
            let mut p = 65;
            while p < bytes.len() {
                v.push(p);
                p += step;
            }
            v.push(bytes.len());
            v
        };
        'outer: for l in points {
            loop {
                let mut r = BufferReader::new(&bytes[offset..l]);
                match t.read_frame_from_buffer(&mut r) {
                    Ok(Some(f)) => {
                        let v = frame_view(&f);
                        offset += r.offset();
                        if !refcodec::is_grease(v.ty) {
                            got.push(v);
                        }
                        if got.len() > expect.len() {
                            break 'outer;
                        }
                    }
                    Ok(None) => break,
                    Err(e) => return Err((sig("incremental-error"), format!("read_frame_from_buffer on the first {l} bytes (from offset {offset}) failed with {e:?} after {} known frames; {}", got.len(), describe(&got)))),
                }
            }
        }
        if got != expect {
            return Err((sig("incremental-frames"), format!("incremental read_frame_from_buffer: {}", describe(&got))));
        }
    }
    // async
    {
        let mut t = TsImpl::new(ts);
        let mut src = Scripted::new(&bytes, &[5, 1, 3], &[0, 1]);
        let mut got = Vec::new();
        loop {
            let Some(res) = run_to_end(t.read_frame_async(&mut src), 4_000_000) else {
                return Err((format!("C13:hang:{ts:?}"), "read_frame_async never completes".into()));
            };
            match res {
                Ok(f) => {
                    let v = frame_view(&f);
                    if !refcodec::is_grease(v.ty) {
                        got.push(v);
                    }
                    if got.len() > expect.len() {
                        break;
                    }
                }
                Err(IoReadError::IO(bytes::IoReadError::ImmediateFin)) => break,
                Err(e) => return Err((sig("error"), format!("read_frame_async failed with {e:?} after {} known frames; {}", got.len(), describe(&got)))),
            }
        }
        if got != expect {
            return Err((sig("frames"), format!("read_frame_async: {}", describe(&got))));
        }
        if src.pos != bytes.len() {
            return Err((sig("position"), format!("read_frame_async stopped at {} of {} bytes", src.pos, bytes.len())));
        }
    }
    Ok(nontrivial)
}

fn end_of_last_known(c: &InsCase) -> usize {
    // recompute the offset right after the last base frame
    let n = c.base.len();
    if n == 0 {
        return 0;
    }
    let mut slots: Vec<Vec<&Ins>> = vec![Vec::new(); n + 1];
    for i in &c.ins {
        slots[vcore::pick_idx(i.pos, n + 1)].push(i);
    }
    let wt_first = c.base[0].0 == reg::FRAME_WT_STREAM;
    let mut off = 0;
    for k in 0..n {
        if !wt_first {
            for i in &slots[k] {
                off += refcodec::enc_frame(i.ty, &i.payload).len();
            }
        }
        off += enc_base(c, &c.base[k]).0.len();
        if wt_first {
            break;
        }
    }
    off
}

/// SETTINGS with unknown / GREASE identifiers inserted.
#[derive(Clone, Debug, Serialize, Deserialize)]
pub struct SettingsIns {
    pub base: Vec<(u8, u64)>,
    pub ins: Vec<(u64, u64, u16)>,
}

pub fn test_settings_insertions(c: &SettingsIns) -> R {
    let mut base: Vec<(u64, u64)> = Vec::new();
    for (sel, v) in &c.base {
        let id = crate::c14::KNOWN_SETTINGS[*sel as usize % 7];
        if !base.iter().any(|(i, _)| *i == id) {
            base.push((id, *v));
        }
    }
    let mut with: Vec<(u64, u64)> = base.clone();
    let mut used_grease: Vec<u64> = Vec::new();
    let mut nontrivial = false;
    for (id, v, pos) in &c.ins {
        let id = *id;
        if refcodec::is_reserved_setting(id) || crate::c14::KNOWN_SETTINGS.contains(&id) {
            continue;
        }
        if refcodec::is_grease(id) {
            // the same identifier must not occur twice (RFC 9114 §7.2.4)
            if used_grease.contains(&id) {
                continue;
            }
            used_grease.push(id);
        }
        let p = vcore::pick_idx(*pos, with.len() + 1);
        if p < with.len() {
            nontrivial = true;
        }
        with.insert(p, (id, *v));
    }
    let a = Settings::with_frame(&Frame::new_settings(Cow::Owned(refcodec::enc_settings(&base))));
    let b = Settings::with_frame(&Frame::new_settings(Cow::Owned(refcodec::enc_settings(&with))));
    let (a, b) = match (a, b) {
        (Ok(a), Ok(b)) => (a, b),
        (Err(e), _) => return Err(("C13:settings:base".into(), format!("valid SETTINGS {:?} rejected: {e:?}", base))),
        (_, Err(e)) => return Err(("C13:settings:error".into(), format!("SETTINGS {:?} rejected with {e:?} because of unknown/GREASE identifiers (base {:?})", with, base))),
    };
    for id in crate::c14::KNOWN_SETTINGS {
        let k = crate::c14::known_setting_id(id).unwrap();
        if a.get(k) != b.get(k) {
            return Err(("C13:settings:value".into(), format!("setting {id:#x} = {:?} without and {:?} with insertions", a.get(k), b.get(k))));
        }
    }
    Ok(nontrivial)
}

fn unknown_type_for(ts: Ts) -> BoxedStrategy<u64> {
    let generic = crate::gen::varint_value().prop_filter("unknown and not defined by HTTP/3 or the WT draft", |t| {
        !(*t <= 0x0d || *t == reg::FRAME_WT_STREAM || *t == reg::FRAME_PRIORITY_UPDATE_REQ || *t == reg::FRAME_PRIORITY_UPDATE_PUSH || refcodec::is_grease(*t))
    });
    match ts {
        Ts::UniRemoteControl => prop_oneof![
            3 => generic,
            3 => proptest::sample::select(vec![reg::FRAME_GOAWAY, reg::FRAME_MAX_PUSH_ID, reg::FRAME_CANCEL_PUSH, reg::FRAME_PRIORITY_UPDATE_REQ, reg::FRAME_PRIORITY_UPDATE_PUSH]),
        ]
        .boxed(),
        _ => generic.boxed(),
    }
}

fn tricky_payload() -> impl Strategy<Value = Vec<u8>> {
    prop_oneof![
        3 => crate::gen::payload(64),
        1 => crate::gen::payload(4096),
        // payloads that themselves look like frames
        2 => Just(refcodec::enc_frame(reg::FRAME_SETTINGS, &refcodec::enc_settings(&[(1, 0)]))),
        2 => Just(refcodec::enc_bi_header_wt(0)),
        1 => Just(refcodec::enc_frame(reg::FRAME_DATA, b"zz")),
        1 => Just(refcodec::enc_frame_header(reg::FRAME_HEADERS, 1 << 20)),
        1 => Just(vec![0x00]),
        1 => Just(vec![0x04, 0x00]),
    ]
}

pub fn case_strategy() -> impl Strategy<Value = InsCase> {
    (0u8..4).prop_flat_map(|ts| {
        let t = model::ALL_TS[ts as usize];
        let base: BoxedStrategy<Vec<(u64, Vec<u8>)>> = match t {
            Ts::UniRemoteControl => proptest::collection::vec(crate::gen::payload(0), 1..2)
                .prop_map(|_| vec![(reg::FRAME_SETTINGS, refcodec::enc_settings(&[(reg::SETTINGS_ENABLE_WEBTRANSPORT, 1), (reg::SETTINGS_H3_DATAGRAM, 1)]))])
                .boxed(),
            Ts::BiRemote => prop_oneof![
                3 => proptest::collection::vec((proptest::sample::select(vec![reg::FRAME_HEADERS, reg::FRAME_DATA]), crate::gen::payload(48)), 1..4),
                1 => Just(vec![(reg::FRAME_WT_STREAM, vec![])]),
            ]
            .boxed(),
            _ => proptest::collection::vec((proptest::sample::select(vec![reg::FRAME_HEADERS, reg::FRAME_DATA]), crate::gen::payload(48)), 1..4).boxed(),
        };
        let ins = proptest::collection::vec(
            (prop_oneof![crate::gen::grease_id().boxed(), unknown_type_for(t)], tricky_payload(), any::<u16>()).prop_map(|(ty, payload, pos)| Ins { ty, payload, pos }),
            0..5,
        );
        (Just(ts), base, crate::gen::session_id(), ins).prop_map(|(ts, base, session, ins)| InsCase { ts, base, session, ins })
    })
}

pub fn settings_ins_strategy() -> impl Strategy<Value = SettingsIns> {
    (
        proptest::collection::vec((0u8..7, crate::gen::varint_value()), 0..6),
        proptest::collection::vec((prop_oneof![crate::gen::grease_id(), crate::gen::varint_value()], crate::gen::varint_value(), any::<u16>()), 0..6),
    )
        .prop_map(|(base, ins)| SettingsIns { base, ins })
}

fn wrap(r: Result<R, String>) -> Outcome {
    match r {
        Ok(Ok(nt)) => Outcome::pass(nt),
        Ok(Err((s, m))) => Outcome::fail(s, m),
        Err(p) => Outcome::fail("C13:panic", format!("panicked: {p}")),
    }
}

pub fn run(run: &Run) {
    run.set_rule(RULE);
    run.trust("refcodec (encodes the exchanges)");
    run.assume("inserted unknown frame types exclude those the RFCs forbid on the stream in question (HTTP/2-reserved 0x02/0x06/0x08/0x09 everywhere; GOAWAY, MAX_PUSH_ID, CANCEL_PUSH, PUSH_PROMISE, PRIORITY_UPDATE outside the control stream)");
    let workers = run.workers();
    prop_search(
        run,
        Search { check: "frame-insertions", cases: run.tier.pick(500_000, 6_000_000), workers, max_shrink_iters: 6000 },
        case_strategy,
        |c| {
            let has_unknown = c.ins.iter().any(|i| !refcodec::is_grease(i.ty));
            match wrap(vcore::catch(|| test_insertions(c))) {
                Outcome::Pass { nontrivial, .. } => Outcome::pass_l(nontrivial, if has_unknown { vec!["ins:unknown-type"] } else { vec!["ins:grease-only"] }),
                o => o,
            }
        },
        |c| serde_json::to_value(c).unwrap(),
    );
    run.essential("ins:unknown-type");
    prop_search(
        run,
        Search { check: "settings-insertions", cases: run.tier.pick(300_000, 3_000_000), workers, max_shrink_iters: 4000 },
        settings_ins_strategy,
        |c| wrap(vcore::catch(|| test_settings_insertions(c))),
        |c| serde_json::to_value(c).unwrap(),
    );
}

pub fn replay(run: &Run, doc: &Value) -> bool {
    let check = doc["check"].as_str().unwrap_or("");
    let r = match check {
        "frame-insertions" => serde_json::from_value::<InsCase>(doc["case"].clone()).ok().map(|c| vcore::catch(|| test_insertions(&c))),
        "settings-insertions" => serde_json::from_value::<SettingsIns>(doc["case"].clone()).ok().map(|c| vcore::catch(|| test_settings_insertions(&c))),
        _ => None,
    };
    let Some(r) = r else { return false };
    run.eval(check, true, 1);
    match r {
        Ok(Ok(_)) => {}
        Ok(Err((s, m))) => {
            run.fail(check, &s, &m, doc["case"].clone());
        }
        Err(p) => {
            run.fail(check, "C13:panic", &p, doc["case"].clone());
        }
    }
    true
}
