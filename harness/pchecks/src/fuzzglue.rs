//! Byte-level entry points for the libFuzzer targets: decode the fuzzer's bytes into the
//! structured cases of the proto-level checks and run the same oracles. Shared with `pcheck`
//! so that a saved fuzz input replays without the fuzzer (both build profiles).

use crate::model;

type R = Result<(), (String, String)>;

/// Tiny cursor over the fuzzer's bytes (hand-written `Unstructured`).
pub struct Cur<'a> {
    b: &'a [u8],
    p: usize,
}

impl<'a> Cur<'a> {
    pub fn new(b: &'a [u8]) -> Self {
        Cur { b, p: 0 }
    }
    pub fn u8(&mut self) -> u8 {
        let v = self.b.get(self.p).copied().unwrap_or(0);
        self.p += 1;
        v
    }
    pub fn u16(&mut self) -> u16 {
        (self.u8() as u16) << 8 | self.u8() as u16
    }
    pub fn u64(&mut self) -> u64 {
        let mut v = 0u64;
        for _ in 0..8 {
            v = (v << 8) | self.u8() as u64;
        }
        v
    }
    pub fn varint(&mut self) -> u64 {
        // width class first so that every encoding width is easy to reach
        match self.u8() % 5 {
            0 => self.u8() as u64 & 0x3f,
            1 => self.u16() as u64 & 0x3fff,
            2 => (self.u64() >> 34) & 0x3fff_ffff,
            3 => self.u64() >> 2,
            _ => [0u64, 63, 64, 16383, 16384, (1 << 30) - 1, 1 << 30, (1u64 << 62) - 1][self.u8() as usize % 8],
        }
    }
    pub fn bytes(&mut self, max: usize) -> Vec<u8> {
        let n = (self.u16() as usize) % (max + 1);
        let end = (self.p + n).min(self.b.len());
        let v = self.b[self.p.min(self.b.len())..end].to_vec();
        self.p += n;
        v
    }
    pub fn rest(&mut self) -> &'a [u8] {
        let r = &self.b[self.p.min(self.b.len())..];
        self.p = self.b.len();
        r
    }
    pub fn done(&self) -> bool {
        self.p >= self.b.len()
    }
    pub fn string(&mut self, max: usize) -> String {
        String::from_utf8_lossy(&self.bytes(max)).into_owned()
    }
}

pub fn c11_decode(data: &[u8]) -> R {
    crate::c11::check_bytes(data)
}

pub fn c15_paths(data: &[u8]) -> R {
    let mut c = Cur::new(data);
    let nchunks = c.u8() as usize % 5;
    let chunks: Vec<usize> = (0..nchunks).map(|_| 1 + c.u8() as usize % 9).collect();
    let npend = c.u8() as usize % 5;
    let pendings: Vec<u8> = (0..npend).map(|_| c.u8() % 4).collect();
    let ext = c.bytes(6);
    let input = c.rest().to_vec();
    let case = crate::c15::PathCase { input, chunks, pendings, extension: ext };
    crate::c15::test_frame_paths(&case).map(|_| ())?;
    crate::c15::test_header_paths(&case).map(|_| ())?;
    for ts in model::ALL_TS {
        crate::c15::test_typestate_paths(ts, &case).map(|_| ())?;
    }
    Ok(())
}

pub fn c13_insert(data: &[u8]) -> R {
    use refcodec::registry as reg;
    let mut c = Cur::new(data);
    let ts = c.u8() % 4;
    let t = model::ALL_TS[ts as usize];
    let session = c.varint();
    let base: Vec<(u64, Vec<u8>)> = match t {
        model::Ts::UniRemoteControl => vec![(reg::FRAME_SETTINGS, refcodec::enc_settings(&[(reg::SETTINGS_ENABLE_WEBTRANSPORT, 1)]))],
        model::Ts::BiRemote if c.u8() % 4 == 0 => vec![(reg::FRAME_WT_STREAM, vec![])],
        _ => {
            let n = 1 + c.u8() as usize % 3;
            (0..n).map(|_| (if c.u8() % 2 == 0 { reg::FRAME_HEADERS } else { reg::FRAME_DATA }, c.bytes(48))).collect()
        }
    };
    let mut ins = Vec::new();
    let n = c.u8() as usize % 5;
    for _ in 0..n {
        let mut ty = match c.u8() % 3 {
            0 => refcodec::grease(c.varint() % ((refcodec::VARINT_MAX - 0x21) / 0x1f + 1)),
            1 if t == model::Ts::UniRemoteControl => [reg::FRAME_GOAWAY, reg::FRAME_MAX_PUSH_ID, reg::FRAME_CANCEL_PUSH, reg::FRAME_PRIORITY_UPDATE_REQ, reg::FRAME_PRIORITY_UPDATE_PUSH][c.u8() as usize % 5],
            _ => c.varint(),
        };
        let defined = ty <= 0x0d || ty == reg::FRAME_WT_STREAM || ty == reg::FRAME_PRIORITY_UPDATE_REQ || ty == reg::FRAME_PRIORITY_UPDATE_PUSH;
        let allowed_on_control = t == model::Ts::UniRemoteControl && [reg::FRAME_GOAWAY, reg::FRAME_MAX_PUSH_ID, reg::FRAME_CANCEL_PUSH, reg::FRAME_PRIORITY_UPDATE_REQ, reg::FRAME_PRIORITY_UPDATE_PUSH].contains(&ty);
        if defined && !allowed_on_control && !refcodec::is_grease(ty) {
            ty = 0x4242; // keep the insertion sound: an unknown, non-reserved type
        }
        let payload = c.bytes(200);
        let pos = c.u16();
        ins.push(crate::c13::Ins { ty, payload, pos });
    }
    let case = crate::c13::InsCase { ts, base, session, ins };
    crate::c13::test_insertions(&case).map(|_| ())
}

pub fn c14_roundtrip(data: &[u8]) -> R {
    let mut c = Cur::new(data);
    match c.u8() % 6 {
        0 => {
            let v = c.varint();
            crate::c14::test_varint(v)?;
            crate::c14::test_varint_async(v)
        }
        1 => {
            let kind = c.u8() % 5;
            let id = if kind == 4 { (c.varint() / 4) * 4 } else { refcodec::grease(c.varint() % ((refcodec::VARINT_MAX - 0x21) / 0x1f + 1)) };
            let cap_delta = (c.u8() % 7) as i8 - 3;
            let tail = c.bytes(3);
            let payload = if kind == 4 { vec![] } else { c.bytes(4096) };
            crate::c14::test_frame(&crate::c14::FrameCase { kind, id, payload, cap_delta, tail })
        }
        2 => {
            let kind = c.u8() % 5;
            let id = if kind == 1 { (c.varint() / 4) * 4 } else { refcodec::grease(c.varint() % ((refcodec::VARINT_MAX - 0x21) / 0x1f + 1)) };
            crate::c14::test_header(&crate::c14::HeaderCase { kind, id, cap_delta: (c.u8() % 7) as i8 - 3 })
        }
        3 => {
            let n = c.u8() as usize % 10;
            let pairs = (0..n).map(|_| (c.u8() % 9, c.varint(), c.varint())).collect();
            crate::c14::test_settings(&crate::c14::SettingsCase { pairs })
        }
        4 => {
            let n = c.u8() as usize % 12;
            let mut fields: Vec<(String, String)> = Vec::new();
            let mut opts = Vec::new();
            let mut total = 0;
            for _ in 0..n {
                let sel = c.u8();
                let (name, value) = if sel % 3 == 0 {
                    let row = refcodec::qpack::STATIC_TABLE[c.u8() as usize % 99];
                    let v = match sel / 3 % 4 {
                        0 => row.1.to_string(),
                        1 => row.1.to_ascii_uppercase(),
                        2 => c.string(40),
                        _ => format!("{}x", row.1),
                    };
                    let name = if sel & 0x40 != 0 { row.0.to_ascii_uppercase() } else { row.0.to_string() };
                    (name, v)
                } else {
                    (c.string(24), c.string(300))
                };
                if fields.iter().any(|(k, _)| *k == name) || total + name.len() + value.len() > 3500 {
                    continue;
                }
                total += name.len() + value.len() + 8;
                fields.push((name, value));
                let o = c.u8();
                opts.push((o % 3, o & 4 != 0, o & 8 != 0, c.u8(), o & 16 != 0));
            }
            crate::c14::test_headers(&crate::c14::HeadersCase { fields, opts })
        }
        _ => {
            let session = (c.varint() / 4) * 4;
            let cap_delta = (c.u8() % 7) as i8 - 3;
            let payload = c.bytes(1500);
            crate::c14::test_datagram(&crate::c14::DatagramCase { session, payload, cap_delta })
        }
    }
}

/// Replays a saved fuzz input (`doc["check"] == "fuzz:<target>"`).
pub fn replay(target: &str, data: &[u8]) -> Option<R> {
    Some(match target {
        "c11_decode" => c11_decode(data),
        "c13_insert" => c13_insert(data),
        "c14_roundtrip" => c14_roundtrip(data),
        "c15_paths" => c15_paths(data),
        _ => return None,
    })
}
