//! Proto-level oracles shared by `pcheck` (proptest / enumeration) and the libFuzzer targets.

pub mod aio;
pub mod gen;
pub mod inflight;
pub mod model;
pub mod view;

pub mod fuzzglue;
pub mod c11;
pub mod c12;
pub mod c13;
pub mod c14;
pub mod c15;
pub mod c17;
pub mod c18;
