//! C18 (pure half) — only well-formed WebTransport requests and responses are admitted.

use proptest::prelude::*;
use serde::{Deserialize, Serialize};
use serde_json::{json, Value};
use std::str::FromStr;
use vcore::{prop_search, Outcome, Run, Search};
use wtransport_proto::headers::Headers;
use wtransport_proto::ids::StatusCode;
use wtransport_proto::session::{SessionRequest, SessionResponse};

const RULE: &str = "status strings: every integer 0..=65535 in decimal (exhaustive) and with '+', '-', spaces, leading zeros, empty, non-digits, long digit runs, Unicode digits; numeric constructors over boundaries and random; header maps: each of the five pseudo-fields missing / right / wrong value / wrong case / near-miss name, plus 0..6 extra fields; reserved and near-reserved names for insert; https / non-https / malformed URLs. Non-trivial: exactly one pseudo-field defect, or a status within +-1 of 100/200/300/599/600; distinct = distinct input";

type R = Result<(), (String, String)>;

macro_rules! ensure {
    ($cond:expr, $sig:expr, $($arg:tt)*) => {
        if !$cond {
            return Err(($sig.to_string(), format!($($arg)*)));
        }
    };
}

fn in_range(v: u64) -> bool {
    (100..=599).contains(&v)
}

/// The statement's classification of a status string.
#[derive(Debug, PartialEq)]
enum Want {
    MustAccept(u16),
    MustReject,
    /// forms the statement leaves open; if accepted the value must be `v`
    Either(u16),
}

fn classify(s: &str) -> Want {
    let b = s.as_bytes();
    if b.len() == 3 && (b'1'..=b'5').contains(&b[0]) && b[1].is_ascii_digit() && b[2].is_ascii_digit() {
        return Want::MustAccept(s.parse().unwrap());
    }
    let digits = s.strip_prefix('+').unwrap_or(s);
    if digits.is_empty() || !digits.bytes().all(|c| c.is_ascii_digit()) {
        return Want::MustReject;
    }
    // all digits (possibly one leading '+', possibly leading zeros)
    let trimmed = digits.trim_start_matches('0');
    let value: Option<u64> = if trimmed.is_empty() { Some(0) } else if trimmed.len() > 6 { None } else { trimmed.parse().ok() };
    match value {
        Some(v) if in_range(v) => Want::Either(v as u16),
        _ => Want::MustReject,
    }
}

pub fn test_status_str(s: &str) -> R {
    let got = StatusCode::from_str(s).ok().map(|c| c.into_inner());
    if let Some(c) = got {
        ensure!(in_range(c as u64), "C18:status:range-escape", "StatusCode::from_str({s:?}) = {c}, outside 100..=599");
    }
    match classify(s) {
        Want::MustAccept(v) => ensure!(got == Some(v), "C18:status:rejected", "from_str({s:?}) = {:?}, expected {v}", got),
        Want::MustReject => ensure!(got.is_none(), "C18:status:accepted", "from_str({s:?}) = {:?}, expected rejection", got),
        Want::Either(v) => ensure!(got.is_none() || got == Some(v), "C18:status:value", "from_str({s:?}) = {:?}, expected {v} or rejection", got),
    }
    // the same string as the :status of a response
    let headers: Headers = [(":status", s)].into_iter().collect();
    match SessionResponse::try_from(headers) {
        Ok(resp) => {
            let code = vcore::catch(|| resp.code()).map_err(|p| ("C18:response:panic".to_string(), format!("SessionResponse::code() panicked for :status {s:?}: {p}")))?;
            ensure!(in_range(code.into_inner() as u64), "C18:response:range-escape", "response with :status {s:?} admitted with code {}", code.into_inner());
            ensure!(got == Some(code.into_inner()), "C18:response:value", "response code {} differs from from_str {:?}", code.into_inner(), got);
            ensure!(code.is_successful() == (200..300).contains(&code.into_inner()), "C18:response:successful", "is_successful({}) = {}", code.into_inner(), code.is_successful());
        }
        Err(_) => ensure!(!matches!(classify(s), Want::MustAccept(_)), "C18:response:rejected", "response with valid :status {s:?} rejected"),
    }
    Ok(())
}

pub fn test_status_num(v: u64) -> R {
    let want = in_range(v);
    let chk = |name: &str, got: Option<u16>| -> R {
        match got {
            Some(c) => {
                ensure!(want && c as u64 == v, "C18:status:range-escape", "{name}({v}) = {c}");
            }
            None => ensure!(!want, "C18:status:rejected", "{name}({v}) rejected"),
        }
        Ok(())
    };
    if let Ok(x) = u8::try_from(v) {
        chk("TryFrom<u8>", StatusCode::try_from(x).ok().map(|c| c.into_inner()))?;
    }
    if let Ok(x) = u16::try_from(v) {
        chk("TryFrom<u16>", StatusCode::try_from(x).ok().map(|c| c.into_inner()))?;
    }
    if let Ok(x) = u32::try_from(v) {
        chk("TryFrom<u32>", StatusCode::try_from(x).ok().map(|c| c.into_inner()))?;
        chk("try_from_u32", StatusCode::try_from_u32(x).ok().map(|c| c.into_inner()))?;
    }
    chk("TryFrom<u64>", StatusCode::try_from(v).ok().map(|c| c.into_inner()))?;
    if want {
        let c = StatusCode::try_from(v).unwrap();
        ensure!(c.is_successful() == (200..300).contains(&v), "C18:status:successful", "is_successful({v}) = {}", c.is_successful());
        let r = SessionResponse::with_status_code(c);
        ensure!(r.code() == c, "C18:response:with_status_code", "with_status_code({v}).code() = {}", r.code());
        ensure!(r.headers().get(":status") == Some(v.to_string().as_str()), "C18:response:header", ":status header {:?}", r.headers().get(":status"));
    }
    Ok(())
}

/// State of one pseudo-header in a generated request.
#[derive(Clone, Copy, Debug, Serialize, Deserialize, PartialEq, Eq)]
pub enum Ps {
    Right,
    Missing,
    WrongValue,
    WrongCase,
    NearMissName,
}

#[derive(Clone, Debug, Serialize, Deserialize)]
pub struct ReqCase {
    pub method: Ps,
    pub scheme: Ps,
    pub protocol: Ps,
    pub authority: Ps,
    pub path: Ps,
    pub wrong: String,
    pub extra: Vec<(String, String)>,
}

const NAMES: [&str; 5] = [":method", ":scheme", ":protocol", ":authority", ":path"];
const RIGHT: [&str; 5] = ["CONNECT", "https", "webtransport", "example.org:4433", "/room?x=1"];
const WRONG_CASE: [&str; 5] = ["connect", "HTTPS", "WebTransport", "EXAMPLE.org", "/ROOM"];

pub fn test_request(c: &ReqCase) -> R {
    let states = [c.method, c.scheme, c.protocol, c.authority, c.path];
    let mut fields: Vec<(String, String)> = Vec::new();
    // predicate of the statement: extended CONNECT, protocol webtransport, scheme https,
    // authority and path present (their value is free)
    let mut ok = true;
    for i in 0..5 {
        match states[i] {
            Ps::Right => fields.push((NAMES[i].into(), RIGHT[i].into())),
            Ps::Missing => ok = false,
            Ps::WrongValue => {
                fields.push((NAMES[i].into(), c.wrong.clone()));
                if i < 3 && c.wrong != RIGHT[i] {
                    ok = false;
                }
            }
            Ps::WrongCase => {
                fields.push((NAMES[i].into(), WRONG_CASE[i].into()));
                if i < 3 {
                    ok = false;
                }
            }
            Ps::NearMissName => {
                // e.g. "method", ":Method", ":paths": the real field is absent
                let near = match i {
                    0 => ":Method",
                    1 => "scheme",
                    2 => ":protocols",
                    3 => ":authority ",
                    _ => "::path",
                };
                fields.push((near.into(), RIGHT[i].into()));
                ok = false;
            }
        }
    }
    for (k, v) in &c.extra {
        if !NAMES.contains(&k.as_str()) && !fields.iter().any(|(n, _)| n == k) {
            fields.push((k.clone(), v.clone()));
        }
    }
    let headers: Headers = fields.iter().cloned().collect();
    match SessionRequest::try_from(headers) {
        Ok(req) => {
            ensure!(ok, "C18:request:admitted", "request {:?} admitted", fields);
            let auth = fields.iter().find(|(n, _)| n == ":authority").map(|(_, v)| v.as_str());
            let path = fields.iter().find(|(n, _)| n == ":path").map(|(_, v)| v.as_str());
            ensure!(Some(req.authority()) == auth && Some(req.path()) == path, "C18:request:values", "authority/path {:?}/{:?}", req.authority(), req.path());
            for (k, v) in &fields {
                ensure!(req.get(k) == Some(v.as_str()), "C18:request:field", "field {k:?} = {:?}", req.get(k));
            }
        }
        Err(e) => ensure!(!ok, "C18:request:refused", "well-formed request {:?} refused: {e:?}", fields),
    }
    Ok(())
}

pub fn test_insert(name: &str) -> R {
    let mut req = SessionRequest::new("https://example.org/p").map_err(|e| ("C18:url".to_string(), format!("{e:?}")))?;
    let reserved = NAMES.contains(&name);
    let r = req.insert(name, "X");
    if reserved {
        ensure!(r.is_err(), "C18:insert:override", "insert({name:?}) overrode a reserved pseudo-header");
    } else {
        ensure!(r.is_ok(), "C18:insert:refused", "insert({name:?}) refused");
        ensure!(req.get(name) == Some("X"), "C18:insert:value", "get({name:?}) = {:?}", req.get(name));
    }
    // reserved fields keep their values whatever happened
    ensure!(req.get(":method") == Some("CONNECT") && req.get(":scheme") == Some("https") && req.get(":protocol") == Some("webtransport"), "C18:insert:override", "reserved fields altered after insert({name:?})");
    ensure!(req.authority() == "example.org" && req.path() == "/p", "C18:insert:override", "authority/path altered after insert({name:?})");
    Ok(())
}

#[derive(Clone, Debug, Serialize, Deserialize)]
pub struct UrlCase {
    pub scheme: String,
    pub host: String,
    pub port: Option<u16>,
    pub path: String,
    pub query: Option<String>,
    pub fragment: Option<String>,
}

pub fn test_url(c: &UrlCase) -> R {
    let mut url = format!("{}://{}", c.scheme, c.host);
    if let Some(p) = c.port {
        url.push_str(&format!(":{p}"));
    }
    url.push_str(&c.path);
    if let Some(q) = &c.query {
        url.push('?');
        url.push_str(q);
    }
    if let Some(f) = &c.fragment {
        url.push('#');
        url.push_str(f);
    }
    match SessionRequest::new(&url) {
        Ok(req) => {
            ensure!(c.scheme == "https", "C18:url:scheme", "non-https URL {url:?} accepted");
            let auth = match c.port {
                Some(p) if p != 443 => format!("{}:{p}", c.host),
                _ => c.host.clone(),
            };
            let path = format!("{}{}", if c.path.is_empty() { "/" } else { &c.path }, c.query.as_ref().map(|q| format!("?{q}")).unwrap_or_default());
            ensure!(req.authority() == auth, "C18:url:authority", "authority {:?}, expected {auth:?} for {url:?}", req.authority());
            ensure!(req.path() == path, "C18:url:path", "path {:?}, expected {path:?} for {url:?}", req.path());
            ensure!(req.get(":method") == Some("CONNECT") && req.get(":scheme") == Some("https") && req.get(":protocol") == Some("webtransport"), "C18:url:pseudo", "fixed pseudo-headers wrong");
            ensure!(req.headers().as_ref().len() == 5, "C18:url:extra", "request carries {} fields", req.headers().as_ref().len());
        }
        Err(_) => ensure!(c.scheme != "https", "C18:url:rejected", "https URL {url:?} rejected"),
    }
    Ok(())
}

fn url_case() -> impl Strategy<Value = UrlCase> {
    (
        proptest::sample::select(vec!["https", "https", "https", "http", "wss", "ftp"]),
        prop_oneof![
            Just("127.0.0.1".to_string()),
            Just("[::1]".to_string()),
            Just("[2001:db8::1]".to_string()),
            "[a-z][a-z0-9]{0,8}(\\.[a-z][a-z0-9]{0,6}){0,2}",
            Just("xn--bcher-kva.example".to_string()),
        ],
        proptest::option::of(prop_oneof![Just(443u16), Just(80), Just(4433), 1u16..65535]),
        prop_oneof![Just(String::new()), Just("/".to_string()), "(/[A-Za-z0-9_~!$&'()*+,;=:@-][A-Za-z0-9._~!$&'()*+,;=:@-]{0,7}){1,5}/?", "(/%[3-7][0-9A-F][a-z]{0,3}){1,3}"],
        proptest::option::of("[A-Za-z0-9._~!$&()*+,;=:@/?%-]{0,16}"),
        proptest::option::of("[A-Za-z0-9]{0,6}"),
    )
        .prop_map(|(scheme, host, port, path, query, fragment)| UrlCase { scheme: scheme.to_string(), host, port, path, query, fragment })
}

fn guard(r: Result<R, String>) -> R {
    r.unwrap_or_else(|p| Err(("C18:panic".into(), format!("panicked: {p}"))))
}

fn near(v: u64) -> bool {
    [99u64, 100, 101, 199, 200, 201, 299, 300, 301, 598, 599, 600, 601].contains(&v)
}

pub fn run(run: &Run) {
    run.set_rule(RULE);
    run.assume("forms of status text the statement leaves open (one leading '+', leading zeros with an in-range value) may be accepted or rejected, but an accepted value must be in 100..=599");
    run.assume("URLs are given in WHATWG-normalised form (lower-case host, default port elided by the url crate)");
    let workers = run.workers();
    // status strings: exhaustive decimal range with decorations
    vcore::par_ranges(workers, 65536, |_w, range| {
        for v in range {
            let forms = [format!("{v}"), format!("+{v}"), format!("-{v}"), format!(" {v}"), format!("{v} "), format!("0{v}"), format!("00{v}"), format!("{v}.0"), format!("{v}a"), format!("0x{v:x}")];
            for (k, s) in forms.iter().enumerate() {
                if let Err((sig, msg)) = guard(vcore::catch(|| test_status_str(s))) {
                    run.fail("status-str", &sig, &msg, json!({"status": s}));
                }
                run.eval("status-str", near(v), vcore::hash64(&(v, k)));
            }
            if let Err((sig, msg)) = guard(vcore::catch(|| test_status_num(v))) {
                run.fail("status-num", &sig, &msg, json!({"value": v}));
            }
            run.eval("status-num", near(v), v);
        }
    });
    run.section_exhaustive("status-str", true, "every integer 0..=65535 x 10 textual decorations");
    run.section_exhaustive("status-num", true, "every integer 0..=65535 through every numeric constructor that can hold it");
    run.sample("status-str", || json!({"status": "600"}));
    for s in ["", "+", "-", " ", "２００", "1e2", "200\n", "\u{0}200", "99999999999999999999", "000000000000000000200", "+200", "+0200", "2 00", "٢٠٠", "0b11001000", "200%", "NaN", "+-200", "++200"] {
        if let Err((sig, msg)) = guard(vcore::catch(|| test_status_str(s))) {
            run.fail("status-str", &sig, &msg, json!({"status": s}));
        }
        run.eval("status-str", true, vcore::hash64(s));
    }
    for v in [65536u64, 1 << 32, (1 << 32) + 200, u64::MAX, (1 << 16) + 200, (1 << 16) + 100, 256 + 200, 65536 + 599] {
        if let Err((sig, msg)) = guard(vcore::catch(|| test_status_num(v))) {
            run.fail("status-num", &sig, &msg, json!({"value": v}));
        }
        run.eval("status-num", true, v);
    }
    prop_search(
        run,
        Search { check: "status-str-random", cases: run.tier.pick(500_000, 6_000_000), workers, max_shrink_iters: 2000 },
        || prop_oneof![3 => "[+-]?[0-9]{0,7}", 2 => "[ +0-9a-f.-]{0,6}", 1 => "\\PC{0,5}"],
        |s| match guard(vcore::catch(|| test_status_str(s))) {
            Ok(()) => Outcome::pass(s.len() == 3),
            Err((a, b)) => Outcome::fail(a, b),
        },
        |s| json!({"status": s}),
    );
    prop_search(
        run,
        Search { check: "status-num-random", cases: run.tier.pick(300_000, 4_000_000), workers, max_shrink_iters: 2000 },
        || prop_oneof![0u64..1000, any::<u64>(), (0u64..20).prop_map(|k| (1u64 << (k + 8)) + 200)],
        |v| match guard(vcore::catch(|| test_status_num(*v))) {
            Ok(()) => Outcome::pass(near(*v)),
            Err((a, b)) => Outcome::fail(a, b),
        },
        |v| json!({"value": v}),
    );
    // request admission: all 5^5 pseudo-header state combinations, then random extras
    let states = [Ps::Right, Ps::Missing, Ps::WrongValue, Ps::WrongCase, Ps::NearMissName];
    for i in 0..3125usize {
        let pick = |k: u32| states[(i / 5usize.pow(k)) % 5];
        for wrong in ["GET", "http", "websocket", "", "CONNECT "] {
            let c = ReqCase { method: pick(0), scheme: pick(1), protocol: pick(2), authority: pick(3), path: pick(4), wrong: wrong.into(), extra: vec![("origin".into(), "https://o".into())] };
            if let Err((sig, msg)) = guard(vcore::catch(|| test_request(&c))) {
                run.fail("request", &sig, &msg, serde_json::to_value(&c).unwrap());
            }
            let defects = [c.method, c.scheme, c.protocol, c.authority, c.path].iter().filter(|s| **s != Ps::Right).count();
            run.eval("request-matrix", defects == 1, vcore::hash64(&(i, wrong)));
        }
    }
    run.section_exhaustive("request-matrix", true, "all 5^5 combinations of pseudo-header states x 5 wrong values");
    run.sample("request-matrix", || json!({"method": "Right", "scheme": "Right", "protocol": "Missing", "authority": "Right", "path": "Right"}));
    prop_search(
        run,
        Search { check: "request", cases: run.tier.pick(300_000, 4_000_000), workers, max_shrink_iters: 3000 },
        || {
            let ps = || proptest::sample::select(vec![Ps::Right, Ps::Right, Ps::Right, Ps::Missing, Ps::WrongValue, Ps::WrongCase, Ps::NearMissName]);
            (ps(), ps(), ps(), ps(), ps(), prop_oneof![Just("CONNECT".to_string()), Just("https".to_string()), Just("webtransport".to_string()), "[A-Za-z]{0,8}"], proptest::collection::vec(("[a-z][a-z0-9-]{0,10}", "[ -~]{0,12}"), 0..6))
                .prop_map(|(method, scheme, protocol, authority, path, wrong, extra)| ReqCase { method, scheme, protocol, authority, path, wrong, extra })
        },
        |c| match guard(vcore::catch(|| test_request(c))) {
            Ok(()) => Outcome::pass([c.method, c.scheme, c.protocol, c.authority, c.path].iter().filter(|s| **s != Ps::Right).count() == 1),
            Err((a, b)) => Outcome::fail(a, b),
        },
        |c| serde_json::to_value(c).unwrap(),
    );
    for name in [":method", ":scheme", ":protocol", ":authority", ":path", ":Method", "method", ":path ", ":paths", "::path", ":status", "", ":", "origin", "PATH", ":PATH", " :path", ":metho", ":authority\0"] {
        if let Err((sig, msg)) = guard(vcore::catch(|| test_insert(name))) {
            run.fail("insert", &sig, &msg, json!({"name": name}));
        }
        run.eval("insert", NAMES.contains(&name), vcore::hash64(name));
    }
    prop_search(
        run,
        Search { check: "insert", cases: run.tier.pick(100_000, 1_000_000), workers, max_shrink_iters: 1000 },
        || prop_oneof![":[a-zA-Z]{1,10}", "[a-z:-]{0,10}", "\\PC{0,6}"],
        |n| match guard(vcore::catch(|| test_insert(n))) {
            Ok(()) => Outcome::pass(n.starts_with(':')),
            Err((a, b)) => Outcome::fail(a, b),
        },
        |n| json!({"name": n}),
    );
    prop_search(
        run,
        Search { check: "url", cases: run.tier.pick(200_000, 2_000_000), workers, max_shrink_iters: 3000 },
        url_case,
        |c| match guard(vcore::catch(|| test_url(c))) {
            Ok(()) => Outcome::pass(c.scheme == "https" && (c.query.is_some() || c.port.is_some())),
            Err((a, b)) => Outcome::fail(a, b),
        },
        |c| serde_json::to_value(c).unwrap(),
    );
}

pub fn replay(run: &Run, doc: &Value) -> bool {
    let check = doc["check"].as_str().unwrap_or("");
    let case = &doc["case"];
    let r: Option<R> = match check {
        "status-str" | "status-str-random" => case["status"].as_str().map(|s| guard(vcore::catch(|| test_status_str(s)))),
        "status-num" | "status-num-random" => case["value"].as_u64().map(|v| guard(vcore::catch(|| test_status_num(v)))),
        "request" | "request-matrix" => serde_json::from_value::<ReqCase>(case.clone()).ok().map(|c| guard(vcore::catch(|| test_request(&c)))),
        "insert" => case["name"].as_str().map(|n| guard(vcore::catch(|| test_insert(n)))),
        "url" => serde_json::from_value::<UrlCase>(case.clone()).ok().map(|c| guard(vcore::catch(|| test_url(&c)))),
        _ => None,
    };
    let Some(r) = r else { return false };
    run.eval(check, true, 1);
    if let Err((s, m)) = r {
        run.fail(check, &s, &m, case.clone());
    }
    true
}
