//! Plain-data views of the library's values, so that results of different decoding paths and
//! of the reference codec can be compared with `==`.

use refcodec::registry as reg;
use wtransport_proto::frame::{Frame, FrameKind};
use wtransport_proto::stream_header::{StreamHeader, StreamKind};

#[derive(Clone, Debug, PartialEq, Eq, Hash)]
pub struct FrameView {
    pub ty: u64,
    pub payload: Vec<u8>,
    pub session: Option<u64>,
}

pub fn kind_id(kind: FrameKind) -> u64 {
    match kind {
        FrameKind::Data => reg::FRAME_DATA,
        FrameKind::Headers => reg::FRAME_HEADERS,
        FrameKind::Settings => reg::FRAME_SETTINGS,
        FrameKind::WebTransport => reg::FRAME_WT_STREAM,
        FrameKind::Exercise(id) => id.into_inner(),
    }
}

pub fn frame_view(f: &Frame<'_>) -> FrameView {
    FrameView {
        ty: kind_id(f.kind()),
        payload: f.payload().to_vec(),
        session: f.session_id().map(|s| s.into_u64()),
    }
}

#[derive(Clone, Debug, PartialEq, Eq, Hash)]
pub struct HeaderView {
    pub ty: u64,
    pub session: Option<u64>,
}

pub fn stream_kind_id(kind: StreamKind) -> u64 {
    match kind {
        StreamKind::Control => reg::STREAM_CONTROL,
        StreamKind::QPackEncoder => reg::STREAM_QPACK_ENCODER,
        StreamKind::QPackDecoder => reg::STREAM_QPACK_DECODER,
        StreamKind::WebTransport => reg::STREAM_WT_UNI,
        StreamKind::Exercise(id) => id.into_inner(),
    }
}

pub fn header_view(h: &StreamHeader) -> HeaderView {
    HeaderView {
        ty: stream_kind_id(h.kind()),
        session: h.session_id().map(|s| s.into_u64()),
    }
}

/// Result class of a decoder: value / need more / error (with a coarse error name).
#[derive(Clone, Debug, PartialEq, Eq, Hash)]
pub enum Res<T> {
    Value(T, usize),
    NeedMore,
    Err(&'static str),
}

impl<T> Res<T> {
    pub fn class(&self) -> &'static str {
        match self {
            Res::Value(..) => "value",
            Res::NeedMore => "need-more",
            Res::Err(_) => "error",
        }
    }
}
