//! Scripted asynchronous source and a manual executor (no runtime, no time).

use std::future::Future;
use std::pin::Pin;
use std::task::{Context, Poll, RawWaker, RawWakerVTable, Waker};
use wtransport_proto::bytes::AsyncRead;

fn noop_raw() -> RawWaker {
    fn clone(_: *const ()) -> RawWaker {
        noop_raw()
    }
    fn noop(_: *const ()) {}
    static VT: RawWakerVTable = RawWakerVTable::new(clone, noop, noop, noop);
    RawWaker::new(std::ptr::null(), &VT)
}

pub fn noop_waker() -> Waker {
    unsafe { Waker::from_raw(noop_raw()) }
}

/// Polls `fut` to completion with a no-op waker; `None` if it is still pending after
/// `max_polls` polls (a spin / dead-lock of a source that is always eventually ready).
pub fn run_to_end<F: Future>(fut: F, max_polls: usize) -> Option<F::Output> {
    let mut fut = std::pin::pin!(fut);
    let waker = noop_waker();
    let mut cx = Context::from_waker(&waker);
    for _ in 0..max_polls {
        if let Poll::Ready(v) = fut.as_mut().poll(&mut cx) {
            return Some(v);
        }
    }
    None
}

/// How the source ends.
#[derive(Clone, Copy, Debug, PartialEq, Eq)]
pub enum End {
    Fin,
    Reset,
    NotConnected,
}

/// A source that hands out `data` in chunks of the planned sizes, reports `Pending`
/// according to the pending plan, and then ends with `end`.
pub struct Scripted<'a> {
    pub data: &'a [u8],
    pub pos: usize,
    /// sizes of successive reads (cycled); each >= 1
    pub chunks: &'a [usize],
    pub chunk_idx: usize,
    /// number of `Pending` results before successive reads (cycled)
    pub pendings: &'a [u8],
    pub pend_idx: usize,
    pub pend_left: Option<u8>,
    pub end: End,
    pub polls: usize,
    pub pendings_served: usize,
    pub reads_served: usize,
}

impl<'a> Scripted<'a> {
    pub fn new(data: &'a [u8], chunks: &'a [usize], pendings: &'a [u8]) -> Self {
        Scripted {
            data,
            pos: 0,
            chunks,
            chunk_idx: 0,
            pendings,
            pend_idx: 0,
            pend_left: None,
            end: End::Fin,
            polls: 0,
            pendings_served: 0,
            reads_served: 0,
        }
    }
    pub fn whole(data: &'a [u8]) -> Self {
        Self::new(data, &[], &[])
    }
}

impl AsyncRead for Scripted<'_> {
    fn poll_read(
        self: Pin<&mut Self>,
        _cx: &mut Context<'_>,
        buf: &mut [u8],
    ) -> Poll<std::io::Result<usize>> {
        let this = self.get_mut();
        this.polls += 1;
        if buf.is_empty() {
            return Poll::Ready(Ok(0));
        }
        if !this.pendings.is_empty() {
            let left = this.pend_left.get_or_insert_with(|| {
                let v = this.pendings[this.pend_idx % this.pendings.len()];
                this.pend_idx += 1;
                v
            });
            if *left > 0 {
                *left -= 1;
                this.pendings_served += 1;
                return Poll::Pending;
            }
            this.pend_left = None;
        }
        let remaining = this.data.len() - this.pos;
        if remaining == 0 {
            return match this.end {
                End::Fin => Poll::Ready(Ok(0)),
                End::Reset => Poll::Ready(Err(std::io::Error::from(
                    std::io::ErrorKind::ConnectionReset,
                ))),
                End::NotConnected => Poll::Ready(Err(std::io::Error::from(
                    std::io::ErrorKind::NotConnected,
                ))),
            };
        }
        let planned = if this.chunks.is_empty() {
            usize::MAX
        } else {
            let c = this.chunks[this.chunk_idx % this.chunks.len()].max(1);
            this.chunk_idx += 1;
            c
        };
        let n = remaining.min(buf.len()).min(planned);
        buf[..n].copy_from_slice(&this.data[this.pos..this.pos + n]);
        this.pos += n;
        this.reads_served += 1;
        Poll::Ready(Ok(n))
    }
}
