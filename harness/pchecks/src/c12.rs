//! C12 (sans-IO half) — frame rules of every stream typestate against the reference rule table.

use crate::aio::{run_to_end, Scripted};
use crate::model::{self, Step, Ts};
use crate::view::{frame_view, FrameView};
use proptest::prelude::*;
use refcodec::registry as reg;
use serde::{Deserialize, Serialize};
use serde_json::{json, Value};
use vcore::{prop_search, Outcome, Run, Search};
use wtransport_proto::bytes::{self, BufferReader};
use wtransport_proto::error::ErrorCode;
use wtransport_proto::frame::Frame;
use wtransport_proto::session::SessionRequest;
use wtransport_proto::stream::bilocal::{StreamBiLocalH3, StreamBiLocalQuic};
use wtransport_proto::stream::biremote::{StreamBiRemoteH3, StreamBiRemoteQuic};
use wtransport_proto::stream::session::StreamSession;
use wtransport_proto::stream::uniremote::{MaybeUpgradeH3, StreamUniRemoteH3, StreamUniRemoteQuic};
use wtransport_proto::stream::IoReadError;

const RULE: &str = "all sequences of length <= 4 (quick) / 5 (thorough) over the alphabet {DATA, HEADERS, SETTINGS, WT-signal(valid id), WT-signal(invalid id), GREASE, unknown type, oversize, known frame truncated-at-FIN, unknown-type frame truncated-at-FIN right after its length} x four frame-reading typestates (peer bidi, local bidi, peer control, session) x three decoding paths, plus random sequences of length <= 12 with random payloads, ids and types (truncation at every point: inside the type, inside the length, right after the length, inside the payload, for known, GREASE, unknown and WT-signal headers); every read result is compared with the rule table transcribed from RFC 9114 / the WebTransport draft. Non-trivial: the sequence contains at least one element whose prescribed reaction is an error; distinct = distinct (sequence, typestate)";

/// The library's four frame-reading typestates behind one interface.
pub enum TsImpl {
    BiRemote(StreamBiRemoteH3),
    BiLocal(StreamBiLocalH3),
    Control(StreamUniRemoteH3),
    Session(StreamSession),
}

impl TsImpl {
    pub fn new(ts: Ts) -> Self {
        match ts {
            Ts::BiRemote => TsImpl::BiRemote(StreamBiRemoteQuic::accept_bi().upgrade()),
            Ts::BiLocal => TsImpl::BiLocal(StreamBiLocalQuic::open_bi().upgrade()),
            Ts::UniRemoteControl => {
                let mut hdr: &[u8] = &[0x00];
                match StreamUniRemoteQuic::accept_uni().upgrade(&mut hdr) {
                    Ok(MaybeUpgradeH3::H3(s)) => TsImpl::Control(s),
                    _ => panic!("control stream header 0x00 not accepted"),
                }
            }
            Ts::Session => TsImpl::Session(
                StreamBiLocalQuic::open_bi()
                    .upgrade()
                    .into_session(SessionRequest::new("https://example.org/").expect("valid url")),
            ),
        }
    }

    pub fn read_frame<'a>(&mut self, r: &mut &'a [u8]) -> Result<Option<Frame<'a>>, ErrorCode> {
        match self {
            TsImpl::BiRemote(s) => s.read_frame(r),
            TsImpl::BiLocal(s) => s.read_frame(r),
            TsImpl::Control(s) => s.read_frame(r),
            TsImpl::Session(s) => s.read_frame(r),
        }
    }

    pub fn read_frame_from_buffer<'a>(&mut self, r: &mut BufferReader<'a>) -> Result<Option<Frame<'a>>, ErrorCode> {
        match self {
            TsImpl::BiRemote(s) => s.read_frame_from_buffer(r),
            TsImpl::BiLocal(s) => s.read_frame_from_buffer(r),
            TsImpl::Control(s) => s.read_frame_from_buffer(r),
            TsImpl::Session(s) => s.read_frame_from_buffer(r),
        }
    }

    pub async fn read_frame_async(&mut self, r: &mut Scripted<'_>) -> Result<Frame<'static>, IoReadError> {
        match self {
            TsImpl::BiRemote(s) => s.read_frame_async(r).await,
            TsImpl::BiLocal(s) => s.read_frame_async(r).await,
            TsImpl::Control(s) => s.read_frame_async(r).await,
            TsImpl::Session(s) => s.read_frame_async(r).await,
        }
    }
}

#[derive(Clone, Debug, Serialize, Deserialize, PartialEq, Eq, Hash)]
pub enum Sym {
    Data(Vec<u8>),
    Headers(Vec<u8>),
    Settings(Vec<u8>),
    WtValid(u64),
    WtInvalid(u64),
    Grease(u64, Vec<u8>),
    /// known type with a declared length beyond the cap
    Oversize(u8, u64),
    /// frame header declaring more payload than follows; stream finishes here
    Truncated(u8, u8, u8),
    /// frame of a type neither the specifications nor the library know (must be skipped whole)
    Unknown(u8, Vec<u8>),
    /// a frame header (2-byte length, possibly multi-byte type) cut inside itself; stream finishes here
    TruncatedHeader(u8, u8),
}

fn known_ty(sel: u8) -> u64 {
    [reg::FRAME_DATA, reg::FRAME_HEADERS, reg::FRAME_SETTINGS, refcodec::grease(2)][(sel % 4) as usize]
}

/// Frame types that are unknown to RFC 9114, RFC 9297, the WebTransport draft and the library
/// (not reserved HTTP/2 types, not push / GOAWAY, not GREASE).
pub fn unknown_ty(sel: u8) -> u64 {
    let t = [0x0fu64, 0x10, 0x3f, 0x42, 0x1234, 0x4000_0000, 0x1122_3344_5566][(sel % 7) as usize];
    debug_assert!(!refcodec::is_grease(t));
    t
}

/// Types for truncation: known, GREASE (1- and 2-byte), unknown (1-, 2- and 8-byte), WT signal.
fn trunc_ty(sel: u8) -> u64 {
    match sel % 10 {
        0 => reg::FRAME_DATA,
        1 => reg::FRAME_HEADERS,
        2 => reg::FRAME_SETTINGS,
        3 => refcodec::grease(2),
        4 => refcodec::grease(700),
        5 => unknown_ty(0),
        6 => unknown_ty(4),
        7 => unknown_ty(6),
        8 => unknown_ty(3),
        _ => reg::FRAME_WT_STREAM,
    }
}

impl Sym {
    pub fn encode(&self) -> Vec<u8> {
        match self {
            Sym::Data(p) => refcodec::enc_frame(reg::FRAME_DATA, p),
            Sym::Headers(p) => refcodec::enc_frame(reg::FRAME_HEADERS, p),
            Sym::Settings(p) => refcodec::enc_frame(reg::FRAME_SETTINGS, p),
            Sym::WtValid(id) => refcodec::enc_bi_header_wt((*id / 4) * 4),
            Sym::WtInvalid(id) => refcodec::enc_bi_header_wt((*id / 4) * 4 + 1 + (*id % 3)),
            Sym::Grease(n, p) => refcodec::enc_frame(refcodec::grease(*n % 1000), p),
            Sym::Oversize(sel, extra) => refcodec::enc_frame_header(known_ty(*sel), 4097 + extra),
            Sym::Truncated(sel, declared, present) => {
                let declared = (*declared as u64).max(1);
                let present = (*present as u64) % declared;
                let ty = trunc_ty(*sel);
                let ty = if ty == reg::FRAME_WT_STREAM { reg::FRAME_DATA } else { ty };
                let mut v = refcodec::enc_frame_header(ty, declared);
                v.extend(std::iter::repeat(0xEE).take(present as usize));
                v
            }
            Sym::Unknown(sel, p) => refcodec::enc_frame(unknown_ty(*sel), p),
            Sym::TruncatedHeader(sel, cut) => {
                let ty = trunc_ty(*sel);
                // the WT signal is followed by a session id, the others by a 2-byte length
                let mut v = refcodec::enc_varint(ty);
                if ty == reg::FRAME_WT_STREAM {
                    v.extend(refcodec::enc_varint(16384 * 4));
                } else {
                    v.extend(refcodec::enc_varint(300));
                }
                let keep = 1 + (*cut as usize) % (v.len() - 1);
                v.truncate(keep);
                v
            }
        }
    }
    fn ends_stream(&self) -> bool {
        matches!(self, Sym::Truncated(..) | Sym::Oversize(..) | Sym::TruncatedHeader(..))
    }
}

pub fn canonical(i: usize) -> Sym {
    match i {
        0 => Sym::Data(vec![1, 2, 3]),
        1 => Sym::Headers(vec![0, 0]),
        2 => Sym::Settings(vec![]),
        3 => Sym::WtValid(8),
        4 => Sym::WtInvalid(8),
        5 => Sym::Grease(1, vec![9]),
        6 => Sym::Oversize(0, 0),
        7 => Sym::Truncated(1, 5, 2),
        8 => Sym::Unknown(0, vec![7, 7]),
        _ => Sym::Truncated(5, 4, 0),
    }
}

fn sym_strategy() -> impl Strategy<Value = Sym> {
    let p = || proptest::collection::vec(any::<u8>(), 0..12);
    prop_oneof![
        p().prop_map(Sym::Data),
        p().prop_map(Sym::Headers),
        p().prop_map(Sym::Settings),
        crate::gen::varint_value().prop_map(Sym::WtValid),
        crate::gen::varint_value().prop_map(|v| Sym::WtInvalid(v.min(refcodec::VARINT_MAX - 8))),
        (any::<u64>(), p()).prop_map(|(n, p)| Sym::Grease(n, p)),
        (any::<u8>(), 0u64..100_000).prop_map(|(s, e)| Sym::Oversize(s, e)),
        (any::<u8>(), 1u8..40, prop_oneof![Just(0u8), any::<u8>()]).prop_map(|(s, d, p)| Sym::Truncated(s, d, p)),
        (any::<u8>(), p()).prop_map(|(s, p)| Sym::Unknown(s, p)),
        (any::<u8>(), any::<u8>()).prop_map(|(s, c)| Sym::TruncatedHeader(s, c)),
    ]
}

#[derive(Clone, Debug, Serialize, Deserialize)]
pub struct SeqCase {
    pub ts: u8,
    pub syms: Vec<Sym>,
}

fn code(e: ErrorCode) -> u64 {
    e.to_code().into_inner()
}

type R = Result<bool, (String, String)>;

/// Runs the sequence on one typestate through the three paths. Ok(nontrivial).
pub fn test_seq(ts: Ts, syms: &[Sym]) -> R {
    // the stream ends after the first symbol that cannot be followed
    let mut bytes = Vec::new();
    for s in syms {
        bytes.extend(s.encode());
        if s.ends_stream() {
            break;
        }
    }
    // reference trace
    let mut trace: Vec<Step> = Vec::new();
    let mut first = true;
    let mut off = 0;
    let mut nontrivial = false;
    // whether the input ends at a frame boundary (after whole skipped unknown frames, if any)
    let mut clean_end = true;
    let mut skipped_at_end = 0usize;
    loop {
        let st = model::ref_step(ts, &mut first, &bytes[off..]);
        match &st {
            Step::Frame(_, n) => off += n,
            Step::Error(_) => nontrivial = true,
            Step::NeedMore => {
                clean_end = only_whole_unknown_frames(&bytes[off..]);
                skipped_at_end = if clean_end { bytes.len() - off } else { 0 };
                if !clean_end {
                    nontrivial = true; // truncated frame: async path must report H3_FRAME_ERROR
                }
            }
        }
        let stop = !matches!(st, Step::Frame(..));
        trace.push(st);
        if stop {
            break;
        }
    }
    let fail = |path: &str, i: usize, got: String| -> (String, String) {
        (
            format!("C12:typestate:{ts:?}"),
            format!("{path} step {i} on {ts:?}: got {got}, rule table says {:?}; input {}", trace[i], vcore::hex_short(&bytes)),
        )
    };
    // path 1: read_frame over a slice
    {
        let mut t = TsImpl::new(ts);
        let mut s: &[u8] = &bytes;
        for (i, st) in trace.iter().enumerate() {
            let before = s.len();
            let got = t.read_frame(&mut s);
            match (st, &got) {
                (Step::Frame(v, n), Ok(Some(f))) if frame_view(f) == *v && before - s.len() == *n => {}
                (Step::NeedMore, Ok(None)) => {}
                (Step::Error(codes), Err(e)) if codes.contains(&code(*e)) => {}
                _ => return Err(fail("read_frame", i, fmt_sync(&got))),
            }
        }
    }
    // path 2: read_frame_from_buffer
    {
        let mut t = TsImpl::new(ts);
        let mut r = BufferReader::new(&bytes);
        for (i, st) in trace.iter().enumerate() {
            let before = r.offset();
            let got = t.read_frame_from_buffer(&mut r);
            match (st, &got) {
                (Step::Frame(v, n), Ok(Some(f))) if frame_view(f) == *v && r.offset() - before == *n => {}
                (Step::NeedMore, Ok(None)) if r.offset() == before || r.offset() == before + skipped_at_end => {}
                (Step::Error(codes), Err(e)) if codes.contains(&code(*e)) && r.offset() == before => {}
                _ => return Err(fail("read_frame_from_buffer", i, format!("{} (offset {} -> {})", fmt_sync(&got), before, r.offset()))),
            }
        }
    }
    // path 3: read_frame_async, the source finishes after the bytes
    {
        let mut t = TsImpl::new(ts);
        let mut src = Scripted::new(&bytes, &[3, 1, 4], &[0, 1, 0]);
        let mut consumed = 0usize;
        for (i, st) in trace.iter().enumerate() {
            let Some(got) = run_to_end(t.read_frame_async(&mut src), 1_000_000) else {
                return Err((format!("C12:hang:{ts:?}"), "read_frame_async never completes".into()));
            };
            let ok = match (st, &got) {
                (Step::Frame(v, n), Ok(f)) => {
                    consumed += n;
                    frame_view(f) == *v && src.pos == consumed
                }
                (Step::NeedMore, Err(IoReadError::IO(bytes::IoReadError::ImmediateFin))) => clean_end,
                // a frame cut short by the end of the stream: H3_FRAME_ERROR
                (Step::NeedMore, Err(IoReadError::H3(e))) => !clean_end && code(*e) == reg::H3_FRAME_ERROR,
                (Step::Error(codes), Err(IoReadError::H3(e))) => codes.contains(&code(*e)),
                _ => false,
            };
            if !ok {
                return Err(fail("read_frame_async", i, fmt_async(&got)));
            }
        }
    }
    Ok(nontrivial)
}

/// True when `rest` consists only of complete frames of unknown type (possibly none).
fn only_whole_unknown_frames(rest: &[u8]) -> bool {
    let mut off = 0;
    while off < rest.len() {
        match model::ref_read_frame(&rest[off..]) {
            model::RefFrame::Unknown { whole: Some(n), len: Some(l), .. } if l <= model::PAYLOAD_CAP => off += n,
            _ => return false,
        }
    }
    true
}

fn fmt_sync(g: &Result<Option<Frame<'_>>, ErrorCode>) -> String {
    match g {
        Ok(Some(f)) => format!("frame {:?}", short(frame_view(f))),
        Ok(None) => "None".into(),
        Err(e) => format!("Err({e:?})"),
    }
}
fn fmt_async(g: &Result<Frame<'_>, IoReadError>) -> String {
    match g {
        Ok(f) => format!("frame {:?}", short(frame_view(f))),
        Err(e) => format!("Err({e:?})"),
    }
}
fn short(mut v: FrameView) -> FrameView {
    v.payload.truncate(16);
    v
}

pub fn run(run: &Run) {
    run.set_rule(RULE);
    run.trust("rule table in pchecks/src/model.rs transcribed from RFC 9114 §4.1, §6.2.1, §7.2.x and draft-ietf-webtrans-http3");
    let workers = run.workers();
    let depth = run.tier.pick(4u32, 5u32);
    let mut total = 0u64;
    for d in 1..=depth {
        total += 10u64.pow(d);
    }
    vcore::par_ranges(workers, total, |_w, range| {
        for mut i in range {
            let mut d = 1u32;
            while i >= 10u64.pow(d) {
                i -= 10u64.pow(d);
                d += 1;
            }
            let syms: Vec<Sym> = (0..d).map(|k| canonical(((i / 10u64.pow(k)) % 10) as usize)).collect();
            for (ti, ts) in model::ALL_TS.iter().enumerate() {
                let r = vcore::catch(|| test_seq(*ts, &syms)).unwrap_or_else(|p| Err((format!("C12:panic:{ts:?}"), p)));
                match r {
                    Ok(nt) => {
                        run.eval("typestate-exhaustive", nt, vcore::hash64(&(i, d, ti)));
                        if nt && run.wants_sample("typestate-exhaustive") {
                            run.sample("typestate-exhaustive", || json!({"typestate": format!("{ts:?}"), "sequence": syms}));
                        }
                    }
                    Err((sig, msg)) => {
                        run.eval("typestate-exhaustive", false, 0);
                        run.fail("typestate", &sig, &msg, serde_json::to_value(SeqCase { ts: ti as u8, syms: syms.clone() }).unwrap());
                    }
                }
            }
        }
    });
    run.section_exhaustive("typestate-exhaustive", true, &format!("all sequences of length 1..={depth} over the 10-symbol alphabet x 4 typestates x 3 paths"));
    prop_search(
        run,
        Search { check: "typestate", cases: run.tier.pick(600_000, 6_000_000), workers, max_shrink_iters: 4000 },
        || (0u8..4, proptest::collection::vec(sym_strategy(), 1..12)).prop_map(|(ts, syms)| SeqCase { ts, syms }),
        |c| match vcore::catch(|| test_seq(model::ALL_TS[c.ts as usize % 4], &c.syms)).unwrap_or_else(|p| Err(("C12:panic".into(), p))) {
            Ok(nt) => Outcome::pass(nt),
            Err((s, m)) => Outcome::fail(s, m),
        },
        |c| serde_json::to_value(c).unwrap(),
    );
}

pub fn replay(run: &Run, doc: &Value) -> bool {
    let Ok(c) = serde_json::from_value::<SeqCase>(doc["case"].clone()) else {
        return false;
    };
    run.eval("typestate", true, 1);
    let r = vcore::catch(|| test_seq(model::ALL_TS[c.ts as usize % 4], &c.syms)).unwrap_or_else(|p| Err(("C12:panic".into(), p)));
    if let Err((sig, msg)) = r {
        run.fail("typestate", &sig, &msg, doc["case"].clone());
    }
    true
}
