//! C15 — all decoding paths agree and incomplete input is never consumed.

use crate::aio::{run_to_end, Scripted};
use crate::c12::TsImpl;
use crate::model::{self, Ts};
use crate::view::{frame_view, header_view, FrameView, HeaderView};
use proptest::prelude::*;
use serde::{Deserialize, Serialize};
use serde_json::Value;
use vcore::{prop_search, Outcome, Run, Search};
use wtransport_proto::bytes::{self, BufferReader};
use wtransport_proto::frame::{self, Frame};
use wtransport_proto::stream::IoReadError;
use wtransport_proto::stream_header::{self, StreamHeader};

const RULE: &str = "inputs: sequences of valid encodings from the reference codec (frames of every kind, WT signals, unknown types, stream headers), single-byte mutations of them, arbitrary bytes; for each input every prefix length (all prefixes up to 96 bytes, sampled beyond), a generated chunk plan (reads of 1..n bytes) and pending plan (0..3 Pending results before each read) drive a scripted asynchronous source polled by a manual executor; subjects: Frame, StreamHeader and the four frame-reading typestates (fresh typestate per path, two successive reads). Non-trivial: the first varint is complete with more bytes following, the asynchronous source served >= 2 reads and >= 1 Pending; distinct = distinct (input, plans)";

#[derive(Clone, Debug, Serialize, Deserialize)]
pub struct PathCase {
    pub input: Vec<u8>,
    pub chunks: Vec<usize>,
    pub pendings: Vec<u8>,
    pub extension: Vec<u8>,
}

type R = Result<(), (String, String)>;

macro_rules! ensure {
    ($cond:expr, $sig:expr, $($arg:tt)*) => {
        if !$cond {
            return Err(($sig.to_string(), format!($($arg)*)));
        }
    };
}

/// Path-independent description of one read result.
#[derive(Clone, Debug, PartialEq, Eq)]
pub enum Obs<V> {
    Value(V, usize),
    NeedMore,
    Err(String),
}

fn frame_err(e: &frame::ParseError) -> String {
    match e {
        frame::ParseError::UnknownFrame => "unknown-frame".into(),
        frame::ParseError::InvalidSessionId => "invalid-session-id".into(),
        frame::ParseError::PayloadTooBig => "payload-too-big".into(),
    }
}

fn obs_frame_sync(b: &[u8]) -> Obs<FrameView> {
    let mut s: &[u8] = b;
    match Frame::read(&mut s) {
        Ok(Some(f)) => Obs::Value(frame_view(&f), b.len() - s.len()),
        Ok(None) => Obs::NeedMore,
        Err(e) => Obs::Err(frame_err(&e)),
    }
}

fn obs_frame_buffer(b: &[u8]) -> Result<Obs<FrameView>, (String, String)> {
    let mut r = BufferReader::new(b);
    let res = Frame::read_from_buffer(&mut r);
    let off = r.offset();
    Ok(match res {
        Ok(Some(f)) => Obs::Value(frame_view(&f), off),
        Ok(None) => {
            ensure!(off == 0, "C15:frame:buffer-offset", "read_from_buffer returned None but moved the read position to {off}");
            Obs::NeedMore
        }
        Err(e) => {
            ensure!(off == 0, "C15:frame:buffer-offset", "read_from_buffer returned an error but moved the read position to {off}");
            Obs::Err(frame_err(&e))
        }
    })
}

/// Async observation. `Ok(None)` stands for "asked for more data" and carries whether the
/// reported end-of-stream kind was right.
fn obs_frame_async(b: &[u8], chunks: &[usize], pendings: &[u8]) -> Result<(Obs<FrameView>, usize, usize), (String, String)> {
    let mut src = Scripted::new(b, chunks, pendings);
    let Some(res) = run_to_end(Frame::read_async(&mut src), 2_000_000) else {
        return Err(("C15:hang:frame-async".into(), "Frame::read_async never completes".into()));
    };
    let o = match res {
        Ok(f) => Obs::Value(frame_view(&f), src.pos),
        Err(frame::IoReadError::Parse(e)) => Obs::Err(frame_err(&e)),
        Err(frame::IoReadError::IO(bytes::IoReadError::ImmediateFin)) => {
            ensure!(b.is_empty(), "C15:frame:async-fin-kind", "ImmediateFin reported although {} bytes were read", b.len());
            Obs::NeedMore
        }
        Err(frame::IoReadError::IO(bytes::IoReadError::UnexpectedFin)) => {
            ensure!(!b.is_empty(), "C15:frame:async-fin-kind", "UnexpectedFin reported although nothing was read");
            Obs::NeedMore
        }
        Err(frame::IoReadError::IO(e)) => return Err(("C15:frame:async-io".into(), format!("read_async reported {e:?} on a source that finishes cleanly"))),
    };
    Ok((o, src.reads_served, src.pendings_served))
}

fn prefix_points(len: usize) -> Vec<usize> {
    if len <= 96 {
        (0..=len).collect()
    } else {
        let mut v: Vec<usize> = (0..=32).collect();
        let step = (len - 32) / 48 + 1;
        let mut p = 33;
        while p < len {
            v.push(p);
            p += step;
        }
        for d in 0..8 {
            v.push(len - d);
        }
        v.sort();
        v.dedup();
        v
    }
}

/// Returns (nontrivial, labels)
pub fn test_frame_paths(c: &PathCase) -> Result<bool, (String, String)> {
    let b = &c.input[..];
    let s = obs_frame_sync(b);
    let bf = obs_frame_buffer(b)?;
    ensure!(s == bf, "C15:frame:sync-vs-buffer", "Frame::read = {:?} but read_from_buffer = {:?} on {}", s, bf, vcore::hex_short(b));
    let (a, reads, pends) = obs_frame_async(b, &c.chunks, &c.pendings)?;
    ensure!(s == a, "C15:frame:sync-vs-async", "Frame::read = {:?} but read_async = {:?} on {} (chunks {:?}, pendings {:?})", s, a, vcore::hex_short(b), c.chunks, c.pendings);
    let (a2, _, _) = obs_frame_async(b, &[], &[])?;
    ensure!(a == a2, "C15:frame:plan-dependence", "read_async depends on chunking: {:?} vs {:?}", a, a2);
    // prefixes: need-more until the answer becomes definitive, then stable
    let mut definitive: Option<Obs<FrameView>> = None;
    for p in prefix_points(b.len()) {
        let ps = obs_frame_sync(&b[..p]);
        let pb = obs_frame_buffer(&b[..p])?;
        ensure!(ps == pb, "C15:frame:prefix-paths", "prefix {p}: read = {:?}, read_from_buffer = {:?}", ps, pb);
        if p % 3 == 0 || p < 16 {
            let (pa, _, _) = obs_frame_async(&b[..p], &c.chunks, &c.pendings)?;
            ensure!(ps == pa, "C15:frame:prefix-paths", "prefix {p}: read = {:?}, read_async = {:?}", ps, pa);
        }
        match (&definitive, &ps) {
            (None, Obs::NeedMore) => {}
            (None, d) => definitive = Some(d.clone()),
            (Some(d), x) => ensure!(d == x, "C15:frame:monotonic", "answer {:?} on a {}-byte prefix changed to {:?} with more input", d, p, x),
        }
    }
    if let Obs::Value(_, n) = &s {
        // every proper prefix of the encoding asks for more data
        for p in prefix_points(*n) {
            if p < *n {
                ensure!(obs_frame_sync(&b[..p]) == Obs::NeedMore, "C15:frame:prefix-value", "proper prefix of {p}/{n} bytes did not ask for more data");
            }
        }
    }
    // extension never changes a definitive answer
    if !matches!(s, Obs::NeedMore) {
        let mut ext = b.to_vec();
        ext.extend_from_slice(&c.extension);
        let e = obs_frame_sync(&ext);
        ensure!(e == s, "C15:frame:extension", "definitive answer {:?} changed to {:?} when {} bytes were appended", s, e, c.extension.len());
    }
    Ok(crate::c11::nontrivial(b) && reads >= 2 && pends >= 1)
}

fn hdr_err(e: &stream_header::ParseError) -> String {
    match e {
        stream_header::ParseError::UnknownStream => "unknown-stream".into(),
        stream_header::ParseError::InvalidSessionId => "invalid-session-id".into(),
    }
}

pub fn test_header_paths(c: &PathCase) -> Result<bool, (String, String)> {
    let b = &c.input[..];
    let sync = |b: &[u8]| -> Obs<HeaderView> {
        let mut s: &[u8] = b;
        match StreamHeader::read(&mut s) {
            Ok(Some(h)) => Obs::Value(header_view(&h), b.len() - s.len()),
            Ok(None) => Obs::NeedMore,
            Err(e) => Obs::Err(hdr_err(&e)),
        }
    };
    let buffer = |b: &[u8]| -> Result<Obs<HeaderView>, (String, String)> {
        let mut r = BufferReader::new(b);
        let res = StreamHeader::read_from_buffer(&mut r);
        let off = r.offset();
        Ok(match res {
            Ok(Some(h)) => Obs::Value(header_view(&h), off),
            Ok(None) => {
                ensure!(off == 0, "C15:header:buffer-offset", "None but read position moved to {off}");
                Obs::NeedMore
            }
            Err(e) => {
                ensure!(off == 0, "C15:header:buffer-offset", "error but read position moved to {off}");
                Obs::Err(hdr_err(&e))
            }
        })
    };
    let asyn = |b: &[u8], chunks: &[usize], pend: &[u8]| -> Result<(Obs<HeaderView>, usize, usize), (String, String)> {
        let mut src = Scripted::new(b, chunks, pend);
        let Some(res) = run_to_end(StreamHeader::read_async(&mut src), 100_000) else {
            return Err(("C15:hang:header-async".into(), "StreamHeader::read_async never completes".into()));
        };
        let o = match res {
            Ok(h) => Obs::Value(header_view(&h), src.pos),
            Err(stream_header::IoReadError::Parse(e)) => Obs::Err(hdr_err(&e)),
            Err(stream_header::IoReadError::IO(bytes::IoReadError::ImmediateFin)) => {
                ensure!(b.is_empty(), "C15:header:async-fin-kind", "ImmediateFin although {} bytes were read", b.len());
                Obs::NeedMore
            }
            Err(stream_header::IoReadError::IO(bytes::IoReadError::UnexpectedFin)) => {
                ensure!(!b.is_empty(), "C15:header:async-fin-kind", "UnexpectedFin although nothing was read");
                Obs::NeedMore
            }
            Err(stream_header::IoReadError::IO(e)) => return Err(("C15:header:async-io".into(), format!("{e:?}"))),
        };
        Ok((o, src.reads_served, src.pendings_served))
    };
    let s = sync(b);
    ensure!(s == buffer(b)?, "C15:header:sync-vs-buffer", "read = {:?}, read_from_buffer = {:?}", s, buffer(b)?);
    let (a, reads, pends) = asyn(b, &c.chunks, &c.pendings)?;
    ensure!(s == a, "C15:header:sync-vs-async", "read = {:?}, read_async = {:?} on {}", s, a, vcore::hex_short(b));
    let mut definitive: Option<Obs<HeaderView>> = None;
    for p in 0..=b.len().min(20) {
        let ps = sync(&b[..p]);
        ensure!(ps == buffer(&b[..p])?, "C15:header:prefix-paths", "prefix {p}: sync/buffer disagree");
        let (pa, _, _) = asyn(&b[..p], &c.chunks, &c.pendings)?;
        ensure!(ps == pa, "C15:header:prefix-paths", "prefix {p}: read = {:?}, read_async = {:?}", ps, pa);
        match (&definitive, &ps) {
            (None, Obs::NeedMore) => {}
            (None, d) => definitive = Some(d.clone()),
            (Some(d), x) => ensure!(d == x, "C15:header:monotonic", "answer {:?} changed to {:?} with more input", d, x),
        }
    }
    // the typestate layer on top (what the driver calls for every peer-opened uni stream): the
    // slice and the async upgrade agree with each other and with the header decoders, and the
    // documented codes are used (unknown type -> StreamCreation, invalid session id -> Id)
    {
        use wtransport_proto::error::ErrorCode;
        use wtransport_proto::stream::uniremote::{MaybeUpgradeH3, StreamUniRemoteQuic};
        let mut sl: &[u8] = b;
        let up_sync = StreamUniRemoteQuic::accept_uni().upgrade(&mut sl);
        let sync_obs: Obs<String> = match &up_sync {
            Ok(MaybeUpgradeH3::H3(h)) => Obs::Value(format!("{:?}", h.kind()), b.len() - sl.len()),
            Ok(MaybeUpgradeH3::Quic(_)) => Obs::NeedMore,
            Err(e) => Obs::Err(format!("{e:?}")),
        };
        let mut src = Scripted::new(b, &c.chunks, &c.pendings);
        let Some(up_async) = run_to_end(StreamUniRemoteQuic::accept_uni().upgrade_async(&mut src), 100_000) else {
            return Err(("C15:hang:uni-upgrade-async".into(), "upgrade_async never completes".into()));
        };
        let async_obs: Obs<String> = match &up_async {
            Ok(h) => Obs::Value(format!("{:?}", h.kind()), src.pos),
            Err(wtransport_proto::stream::IoReadError::H3(e)) => Obs::Err(format!("{e:?}")),
            Err(wtransport_proto::stream::IoReadError::IO(_)) => Obs::NeedMore,
        };
        ensure!(sync_obs == async_obs, "C15:uni-upgrade:sync-vs-async", "upgrade = {:?}, upgrade_async = {:?} on {}", sync_obs, async_obs, vcore::hex_short(b));
        match (&s, &sync_obs) {
            (Obs::Value(_, n), Obs::Value(_, m)) => ensure!(n == m, "C15:uni-upgrade:consumed", "StreamHeader::read consumed {n} bytes, upgrade {m}"),
            (Obs::NeedMore, Obs::NeedMore) => {}
            (Obs::Err(he), Obs::Err(code)) => {
                let want = if he.contains("unknown-stream") { format!("{:?}", ErrorCode::StreamCreation) } else { format!("{:?}", ErrorCode::Id) };
                ensure!(*code == want, "C15:uni-upgrade:code", "header error {he} is reported by upgrade as {code}, documented {want}");
            }
            (h, u) => ensure!(false, "C15:uni-upgrade:vs-header", "StreamHeader::read = {:?} but upgrade = {:?}", h, u),
        }
    }
    Ok(crate::c11::nontrivial(b) && reads >= 2 && pends >= 1)
}

/// Observations of two successive reads on a fresh typestate.
fn ts_sync(ts: Ts, b: &[u8]) -> Vec<Obs<FrameView>> {
    let mut t = TsImpl::new(ts);
    let mut s: &[u8] = b;
    let mut out = Vec::new();
    for _ in 0..2 {
        let before = s.len();
        match t.read_frame(&mut s) {
            Ok(Some(f)) => out.push(Obs::Value(frame_view(&f), before - s.len())),
            Ok(None) => {
                out.push(Obs::NeedMore);
                break;
            }
            Err(e) => {
                out.push(Obs::Err(format!("{e:?}")));
                break;
            }
        }
    }
    out
}

fn ts_buffer(ts: Ts, b: &[u8]) -> Result<Vec<Obs<FrameView>>, (String, String)> {
    let mut t = TsImpl::new(ts);
    let mut r = BufferReader::new(b);
    let mut out = Vec::new();
    for _ in 0..2 {
        let before = r.offset();
        match t.read_frame_from_buffer(&mut r) {
            Ok(Some(f)) => out.push(Obs::Value(frame_view(&f), r.offset() - before)),
            Ok(None) => {
                ensure!(r.offset() == before, "C15:typestate:buffer-offset", "{ts:?}: None but read position moved {} -> {}", before, r.offset());
                out.push(Obs::NeedMore);
                break;
            }
            Err(e) => {
                ensure!(r.offset() == before, "C15:typestate:buffer-offset", "{ts:?}: error but read position moved {} -> {}", before, r.offset());
                out.push(Obs::Err(format!("{e:?}")));
                break;
            }
        }
    }
    Ok(out)
}

fn ts_async(ts: Ts, b: &[u8], chunks: &[usize], pend: &[u8]) -> Result<(Vec<Obs<FrameView>>, usize, usize), (String, String)> {
    let mut t = TsImpl::new(ts);
    let mut src = Scripted::new(b, chunks, pend);
    let mut out = Vec::new();
    let mut consumed = 0;
    for _ in 0..2 {
        let Some(res) = run_to_end(t.read_frame_async(&mut src), 2_000_000) else {
            return Err((format!("C15:hang:typestate-async:{ts:?}"), "read_frame_async never completes".into()));
        };
        match res {
            Ok(f) => {
                out.push(Obs::Value(frame_view(&f), src.pos - consumed));
                consumed = src.pos;
            }
            Err(IoReadError::IO(bytes::IoReadError::ImmediateFin)) => {
                // end-of-stream exactly at a frame boundary (whole unknown frames may have been
                // skipped since the last returned frame)
                ensure!(only_whole_unknown_frames(&b[consumed..]), "C15:typestate:async-fin-kind", "{ts:?}: clean end-of-stream reported although {} bytes of an incomplete frame were read", src.pos - consumed);
                out.push(Obs::NeedMore);
                break;
            }
            // a frame cut short by end-of-stream is reported as H3_FRAME_ERROR by the typestates
            Err(IoReadError::H3(e)) if format!("{e:?}").starts_with("FrameError") && src.pos == b.len() && ends_inside_frame(ts, b) && !only_whole_unknown_frames(&b[consumed..]) => {
                out.push(Obs::NeedMore);
                break;
            }
            Err(IoReadError::H3(e)) => {
                out.push(Obs::Err(format!("{e:?}")));
                break;
            }
            Err(IoReadError::IO(e)) => return Err(("C15:typestate:async-io".into(), format!("{ts:?}: {e:?} on a source that finishes cleanly"))),
        }
    }
    Ok((out, src.reads_served, src.pendings_served))
}

/// True when `rest` consists only of complete frames of unknown type (possibly none).
fn only_whole_unknown_frames(rest: &[u8]) -> bool {
    let mut off = 0;
    while off < rest.len() {
        match model::ref_read_frame(&rest[off..]) {
            model::RefFrame::Unknown { whole: Some(n), len: Some(l), .. } if l <= model::PAYLOAD_CAP => off += n,
            _ => return false,
        }
    }
    true
}

/// Whether the sync path asks for more data at the end of `b` (so the async path, which sees
/// end-of-stream there, must report a truncated frame).
fn ends_inside_frame(ts: Ts, b: &[u8]) -> bool {
    matches!(ts_sync(ts, b).last(), Some(Obs::NeedMore))
}

pub fn test_typestate_paths(ts: Ts, c: &PathCase) -> Result<bool, (String, String)> {
    let b = &c.input[..];
    let s = ts_sync(ts, b);
    let bf = ts_buffer(ts, b)?;
    ensure!(s == bf, "C15:typestate:sync-vs-buffer", "{ts:?}: read_frame = {:?}, read_frame_from_buffer = {:?} on {}", s, bf, vcore::hex_short(b));
    let (a, reads, pends) = ts_async(ts, b, &c.chunks, &c.pendings)?;
    ensure!(s == a, "C15:typestate:sync-vs-async", "{ts:?}: read_frame = {:?}, read_frame_async = {:?} on {} (chunks {:?}, pendings {:?})", s, a, vcore::hex_short(b), c.chunks, c.pendings);
    let (a2, _, _) = ts_async(ts, b, &[], &[])?;
    ensure!(a == a2, "C15:typestate:plan-dependence", "{ts:?}: read_frame_async depends on chunking: {:?} vs {:?}", a, a2);
    Ok(crate::c11::nontrivial(b) && reads >= 2 && pends >= 1)
}

/// Input generator: valid sequences, mutated, arbitrary.
pub fn input_strategy() -> impl Strategy<Value = Vec<u8>> {
    let elem = prop_oneof![
        4 => (proptest::sample::select(vec![0u64, 1, 4]), crate::gen::payload(300)).prop_map(|(t, p)| refcodec::enc_frame(t, &p)),
        2 => (crate::gen::grease_id(), crate::gen::payload(40)).prop_map(|(t, p)| refcodec::enc_frame(t, &p)),
        2 => crate::gen::varint_value().prop_map(refcodec::enc_bi_header_wt),
        2 => (crate::gen::unknown_frame_type(), crate::gen::payload(20)).prop_map(|(t, p)| refcodec::enc_frame(t, &p)),
        1 => (proptest::sample::select(vec![0u64, 1, 4, 0x21]), proptest::sample::select(vec![4096u64, 4097, 1 << 20, (1 << 62) - 1])).prop_map(|(t, l)| refcodec::enc_frame_header(t, l)),
        1 => crate::gen::payload(4096).prop_map(|p| refcodec::enc_frame(0, &p)),
    ];
    let seq = proptest::collection::vec(elem, 1..4).prop_map(|v| v.concat());
    prop_oneof![
        5 => seq.clone(),
        3 => (seq, any::<u16>(), any::<u8>()).prop_map(|(mut b, pos, val)| {
            if !b.is_empty() {
                let i = vcore::pick_idx(pos, b.len());
                b[i] = val;
            }
            b
        }),
        2 => proptest::collection::vec(any::<u8>(), 0..24),
    ]
}

pub fn header_input_strategy() -> impl Strategy<Value = Vec<u8>> {
    prop_oneof![
        3 => crate::gen::varint_value().prop_map(refcodec::enc_uni_header_wt),
        2 => proptest::sample::select(vec![0u64, 1, 2, 3, 0x21, 0x40, 0x54, 0x3f]).prop_map(refcodec::enc_varint),
        2 => crate::gen::grease_id().prop_map(refcodec::enc_varint),
        2 => crate::gen::varint_value().prop_map(refcodec::enc_varint),
        2 => proptest::collection::vec(any::<u8>(), 0..18),
    ]
    .prop_flat_map(|b| (Just(b), proptest::collection::vec(any::<u8>(), 0..4)))
    .prop_map(|(mut b, tail)| {
        b.extend(tail);
        b
    })
}

fn case_strategy(input: impl Strategy<Value = Vec<u8>>) -> impl Strategy<Value = PathCase> {
    (input, crate::gen::chunk_plan(), crate::gen::pending_plan(), proptest::collection::vec(any::<u8>(), 0..6))
        .prop_map(|(input, chunks, pendings, extension)| PathCase { input, chunks, pendings, extension })
}

fn wrap(r: Result<Result<bool, (String, String)>, String>) -> Outcome {
    match r {
        Ok(Ok(nt)) => Outcome::pass(nt),
        Ok(Err((s, m))) => Outcome::fail(s, m),
        Err(p) => Outcome::fail("C15:panic", format!("panicked: {p}")),
    }
}

pub fn run(run: &Run) {
    run.set_rule(RULE);
    run.trust("refcodec (generates the valid encodings)");
    let workers = run.workers();
    prop_search(
        run,
        Search { check: "frame-paths", cases: run.tier.pick(1_000_000, 12_000_000), workers, max_shrink_iters: 6000 },
        || case_strategy(input_strategy()),
        |c| wrap(vcore::catch(|| test_frame_paths(c))),
        |c| serde_json::to_value(c).unwrap(),
    );
    prop_search(
        run,
        Search { check: "header-paths", cases: run.tier.pick(600_000, 6_000_000), workers, max_shrink_iters: 4000 },
        || case_strategy(header_input_strategy()),
        |c| wrap(vcore::catch(|| test_header_paths(c))),
        |c| serde_json::to_value(c).unwrap(),
    );
    prop_search(
        run,
        Search { check: "typestate-paths", cases: run.tier.pick(1_500_000, 16_000_000), workers, max_shrink_iters: 6000 },
        || (0u8..4, case_strategy(input_strategy())),
        |(t, c)| wrap(vcore::catch(|| test_typestate_paths(model::ALL_TS[*t as usize], c))),
        |(t, c)| serde_json::json!({"typestate": t, "case": c}),
    );
}

pub fn replay(run: &Run, doc: &Value) -> bool {
    let check = doc["check"].as_str().unwrap_or("");
    let r = match check {
        "frame-paths" => serde_json::from_value::<PathCase>(doc["case"].clone()).ok().map(|c| vcore::catch(|| test_frame_paths(&c))),
        "header-paths" => serde_json::from_value::<PathCase>(doc["case"].clone()).ok().map(|c| vcore::catch(|| test_header_paths(&c))),
        "typestate-paths" => {
            let t = doc["case"]["typestate"].as_u64().unwrap_or(0) as usize % 4;
            serde_json::from_value::<PathCase>(doc["case"]["case"].clone()).ok().map(|c| vcore::catch(|| test_typestate_paths(model::ALL_TS[t], &c)))
        }
        _ => None,
    };
    let Some(r) = r else { return false };
    run.eval(check, true, 1);
    match r {
        Ok(Ok(_)) => {}
        Ok(Err((sig, msg))) => {
            run.fail(check, &sig, &msg, doc["case"].clone());
        }
        Err(p) => {
            run.fail(check, "C15:panic", &p, doc["case"].clone());
        }
    }
    true
}
