//! C17 (pure half) — identifier algebra against QUIC's bit definitions (RFC 9000 §2.1).

use proptest::prelude::*;
use serde_json::{json, Value};
use vcore::{prop_search, Outcome, Run, Search};
use wtransport_proto::datagram::Datagram;
use wtransport_proto::frame::Frame;
use wtransport_proto::ids::{QStreamId, SessionId, StreamId};
use wtransport_proto::stream_header::StreamHeader;
use wtransport_proto::varint::VarInt;

const RULE: &str = "ids: 0..4096 exhaustively, every 2^k-2..2^k+2 for k<=62 in all four low-bit classes, 2^60-1, 2^60, 2^62-1, and random 62-bit values; quarter ids up to and beyond 2^60-1 through Datagram::read. Non-trivial: id >= 2^30 (8-byte varint) or a boundary of a varint width; distinct = distinct id";

type R = Result<(), (String, String)>;

macro_rules! ensure {
    ($cond:expr, $sig:expr, $($arg:tt)*) => {
        if !$cond {
            return Err(($sig.to_string(), format!($($arg)*)));
        }
    };
}

pub fn test_id(id: u64) -> R {
    let v = VarInt::try_from_u64(id).map_err(|_| ("C17:varint".to_string(), format!("{id} rejected")))?;
    let s = StreamId::new(v);
    ensure!(s.into_u64() == id && s.into_varint() == v, "C17:stream-id:value", "StreamId({id}) reports {}", s.into_u64());
    ensure!(s.is_bidirectional() == refcodec::stream_is_bidi(id), "C17:stream-id:direction", "is_bidirectional({id}) = {}", s.is_bidirectional());
    ensure!(s.is_client_initiated() == refcodec::stream_is_client_initiated(id), "C17:stream-id:initiator", "is_client_initiated({id}) = {}", s.is_client_initiated());
    for is_server in [false, true] {
        let local = refcodec::stream_is_client_initiated(id) != is_server;
        ensure!(s.is_local(is_server) == local, "C17:stream-id:local", "is_local({id}, server={is_server}) = {}", s.is_local(is_server));
    }
    let valid = refcodec::is_valid_session_id(id);
    match SessionId::try_from_session_stream(s) {
        Ok(sess) => {
            ensure!(valid, "C17:session-id:accepted", "session id {id} (class {}) accepted", id & 3);
            ensure!(sess.into_u64() == id && sess.session_stream() == s && sess.into_varint() == v, "C17:session-id:value", "SessionId({id}) reports {}", sess.into_u64());
            let q = QStreamId::from_session_id(sess);
            ensure!(q.into_u64() == id / 4, "C17:qstream:value", "quarter id of {id} is {}", q.into_u64());
            ensure!(q.into_u64() <= refcodec::QUARTER_ID_MAX && q <= QStreamId::MAX, "C17:qstream:range", "quarter id {} out of range", q.into_u64());
            ensure!(q.into_varint().into_inner() == id / 4, "C17:qstream:varint", "into_varint {}", q.into_varint());
            ensure!(q.into_session_id() == sess, "C17:qstream:inverse", "into_session_id(from_session_id({id})) = {}", q.into_session_id().into_u64());
            ensure!(q.into_stream_id() == s, "C17:qstream:stream", "into_stream_id = {}", q.into_stream_id().into_u64());
        }
        Err(_) => ensure!(!valid, "C17:session-id:rejected", "valid session id {id} rejected"),
    }
    // through the wire decoders (the only public way to a SessionId / QStreamId from bytes)
    let sig = refcodec::enc_bi_header_wt(id);
    let mut sl: &[u8] = &sig;
    let r = Frame::read(&mut sl);
    ensure!(r.is_ok() == valid, "C17:wire:wt-signal", "WT signal with session id {id}: accepted={}", r.is_ok());
    if let Ok(Some(f)) = r {
        ensure!(f.session_id().map(|x| x.into_u64()) == Some(id), "C17:wire:wt-signal-value", "WT signal session id {:?}", f.session_id());
    }
    let hdr = refcodec::enc_uni_header_wt(id);
    let mut sl: &[u8] = &hdr;
    let r = StreamHeader::read(&mut sl);
    ensure!(r.is_ok() == valid, "C17:wire:uni-header", "WT uni header with session id {id}: accepted={}", r.is_ok());
    // id interpreted as a quarter stream id
    let mut dg = refcodec::enc_varint(id);
    dg.extend_from_slice(b"p");
    match Datagram::read(&dg) {
        Ok(d) => {
            ensure!(id <= refcodec::QUARTER_ID_MAX, "C17:datagram:range", "quarter id {id} > 2^60-1 accepted");
            let sess = d.qstream_id().into_session_id();
            ensure!(sess.into_u64() == id * 4 && refcodec::is_valid_session_id(sess.into_u64()), "C17:datagram:session", "quarter id {id} maps to session {}", sess.into_u64());
            ensure!(d.payload() == b"p", "C17:datagram:payload", "payload {:?}", d.payload());
        }
        Err(_) => ensure!(id > refcodec::QUARTER_ID_MAX, "C17:datagram:rejected", "valid quarter id {id} rejected"),
    }
    Ok(())
}

fn guarded(id: u64) -> R {
    vcore::catch(|| test_id(id)).unwrap_or_else(|p| Err(("C17:panic".into(), format!("panicked on id {id}: {p}"))))
}

fn nontrivial(id: u64) -> bool {
    id >= 1 << 30 || [63u64, 64, 16383, 16384].contains(&id)
}

pub fn run(run: &Run) {
    run.set_rule(RULE);
    run.trust("RFC 9000 §2.1 bit definitions as written in refcodec");
    let workers = run.workers();
    let mut ids: Vec<u64> = (0..4096).collect();
    for b in crate::gen::boundaries() {
        for c in 0..4u64 {
            let x = (b & !3) | c;
            if x <= refcodec::VARINT_MAX {
                ids.push(x);
            }
        }
        ids.push(b);
    }
    ids.extend([(1u64 << 60) - 1, 1 << 60, (1 << 60) + 1, refcodec::VARINT_MAX, refcodec::VARINT_MAX - 3]);
    ids.sort();
    ids.dedup();
    for id in &ids {
        if let Err((s, m)) = guarded(*id) {
            run.fail("ids", &s, &m, json!({"id": id}));
        }
        run.eval("ids-enumerated", nontrivial(*id), *id);
    }
    run.section_exhaustive("ids-enumerated", true, "0..4096 and all width boundaries in the four low-bit classes");
    run.sample("ids-enumerated", || json!({"id": (1u64 << 60) - 1}));
    prop_search(
        run,
        Search { check: "ids", cases: run.tier.pick(6_000_000, 100_000_000), workers, max_shrink_iters: 2000 },
        crate::gen::varint_value,
        |id| match guarded(*id) {
            Ok(()) => Outcome::pass(nontrivial(*id)),
            Err((s, m)) => Outcome::fail(s, m),
        },
        |id| json!({"id": id}),
    );
}

pub fn replay(run: &Run, doc: &Value) -> bool {
    let Some(id) = doc["case"]["id"].as_u64() else {
        return false;
    };
    run.eval("ids", true, id);
    if let Err((s, m)) = guarded(id) {
        run.fail("ids", &s, &m, doc["case"].clone());
    }
    true
}
