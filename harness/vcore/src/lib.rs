//! Engine shared by all checks: seeds, workers, proptest glue, shrinking, replay,
//! evidence, known findings, panic capture.

use proptest::strategy::Strategy;
use proptest::test_runner::{Config, RngAlgorithm, TestCaseError, TestError, TestRng, TestRunner};
use serde_json::{json, Value};
use std::collections::{BTreeMap, HashSet};
use std::fmt::Debug;
use std::hash::{Hash, Hasher};
use std::path::{Path, PathBuf};
use std::sync::atomic::{AtomicBool, AtomicU64, Ordering};
use std::sync::Mutex;
use std::time::Instant;

pub const VERIF_ROOT: &str = "/verif";
const DISTINCT_CAP: usize = 4_000_000;
const SAMPLES_PER_CHECK: usize = 3;

#[derive(Clone, Copy, PartialEq, Eq, Debug)]
pub enum Tier {
    Quick,
    Thorough,
}

impl Tier {
    pub fn name(self) -> &'static str {
        match self {
            Tier::Quick => "quick",
            Tier::Thorough => "thorough",
        }
    }
    /// Picks the quick or thorough amount of work.
    pub fn pick<T>(self, quick: T, thorough: T) -> T {
        match self {
            Tier::Quick => quick,
            Tier::Thorough => thorough,
        }
    }
}

#[derive(Clone, Debug)]
pub struct KnownFinding {
    pub status: String,
    pub property: String,
    pub signature: String,
    pub what: String,
}

#[derive(Clone, Debug)]
pub struct Failure {
    pub check: String,
    pub signature: String,
    pub message: String,
    pub case: Value,
}

#[derive(Default)]
struct SectionStat {
    evaluations: u64,
    nontrivial: u64,
    exhaustive: Option<bool>,
    note: Option<String>,
}

pub enum Mode {
    Search,
    Replay(PathBuf),
}

pub struct Run {
    pub engine: String,
    pub prop: String,
    pub tier: Tier,
    pub seed: u64,
    pub profile: String,
    pub mode: Mode,
    pub evidence_path: PathBuf,
    pub level: String,
    start: Instant,
    evaluations: AtomicU64,
    bulk_distinct: AtomicU64,
    distinct: Mutex<HashSet<u64>>,
    labels: Mutex<BTreeMap<String, u64>>,
    samples: Mutex<BTreeMap<String, Vec<Value>>>,
    failures: Mutex<Vec<Failure>>,
    known: Vec<KnownFinding>,
    known_hits: Mutex<BTreeMap<String, u64>>,
    sections: Mutex<BTreeMap<String, SectionStat>>,
    inconclusive: Mutex<Vec<String>>,
    essential: Mutex<Vec<String>>,
    assumptions: Mutex<Vec<String>>,
    trusted: Mutex<Vec<String>>,
    rule: Mutex<String>,
    extra: Mutex<BTreeMap<String, Value>>,
}

pub fn hash64<T: Hash + ?Sized>(t: &T) -> u64 {
    // FNV-1a based, stable across runs (DefaultHasher with fixed keys is also stable,
    // but this keeps the fingerprint independent of std's implementation).
    struct Fnv(u64);
    impl Hasher for Fnv {
        fn finish(&self) -> u64 {
            self.0
        }
        fn write(&mut self, bytes: &[u8]) {
            for b in bytes {
                self.0 ^= *b as u64;
                self.0 = self.0.wrapping_mul(0x100000001b3);
            }
        }
    }
    let mut h = Fnv(0xcbf29ce484222325);
    t.hash(&mut h);
    let mut x = h.finish();
    // final avalanche (splitmix)
    x ^= x >> 30;
    x = x.wrapping_mul(0xbf58476d1ce4e5b9);
    x ^= x >> 27;
    x = x.wrapping_mul(0x94d049bb133111eb);
    x ^= x >> 31;
    x
}

pub fn hex(bytes: &[u8]) -> String {
    let mut s = String::with_capacity(bytes.len() * 2);
    for b in bytes {
        s.push_str(&format!("{:02x}", b));
    }
    s
}

pub fn unhex(s: &str) -> Option<Vec<u8>> {
    let s = s.trim();
    if s.len() % 2 != 0 {
        return None;
    }
    (0..s.len() / 2)
        .map(|i| u8::from_str_radix(&s[2 * i..2 * i + 2], 16).ok())
        .collect()
}

/// Short rendering of a byte string for samples (hex, truncated).
pub fn hex_short(bytes: &[u8]) -> String {
    if bytes.len() <= 48 {
        hex(bytes)
    } else {
        format!("{}..(+{}B)", hex(&bytes[..48]), bytes.len() - 48)
    }
}

pub struct Args {
    pub engine: String,
    pub prop: String,
    pub tier: Tier,
    pub replay: Option<PathBuf>,
    pub profile: String,
    pub evidence: Option<PathBuf>,
}

/// Parses `<ID> <quick|thorough> [--replay FILE] [--profile-tag T] [--evidence PATH]`.
pub fn parse_args() -> Args {
    let argv: Vec<String> = std::env::args().collect();
    let mut prop = String::new();
    let mut tier = Tier::Quick;
    let mut replay = None;
    let mut profile = String::new();
    let mut evidence = None;
    let mut i = 1;
    let mut pos = 0;
    while i < argv.len() {
        match argv[i].as_str() {
            "--replay" => {
                i += 1;
                replay = Some(PathBuf::from(&argv[i]));
            }
            "--profile-tag" => {
                i += 1;
                profile = argv[i].clone();
            }
            "--evidence" => {
                i += 1;
                evidence = Some(PathBuf::from(&argv[i]));
            }
            a => {
                if pos == 0 {
                    prop = a.to_string();
                } else if pos == 1 {
                    tier = match a {
                        "quick" => Tier::Quick,
                        "thorough" => Tier::Thorough,
                        _ => {
                            eprintln!("unknown tier {a}");
                            std::process::exit(2)
                        }
                    };
                }
                pos += 1;
            }
        }
        i += 1;
    }
    if let Ok(t) = std::env::var("VERIF_TIER") {
        if replay.is_none() && pos < 2 {
            if t == "thorough" {
                tier = Tier::Thorough;
            }
        }
    }
    if prop.is_empty() {
        eprintln!("usage: <ID> <quick|thorough> [--replay FILE]");
        std::process::exit(2);
    }
    Args {
        engine: std::path::Path::new(&argv[0])
            .file_name()
            .map(|s| s.to_string_lossy().to_string())
            .unwrap_or_default(),
        prop,
        tier,
        replay,
        profile,
        evidence,
    }
}

fn load_known(prop: &str) -> Vec<KnownFinding> {
    // Line format (never written at run time):
    //   known: property=<id> signature=<signature> <what fails>
    //   fixed: property=<id> <commit> <what failed>          (suppresses nothing)
    let path = Path::new(VERIF_ROOT).join("known_findings.txt");
    let mut out = Vec::new();
    if let Ok(text) = std::fs::read_to_string(path) {
        for line in text.lines() {
            let line = line.trim();
            let Some(rest) = line.strip_prefix("known:") else {
                continue;
            };
            let mut property = String::new();
            let mut signature = String::new();
            let mut what = Vec::new();
            for tok in rest.split_whitespace() {
                if let Some(p) = tok.strip_prefix("property=") {
                    if property.is_empty() {
                        property = p.to_string();
                        continue;
                    }
                }
                if let Some(sg) = tok.strip_prefix("signature=") {
                    if signature.is_empty() {
                        signature = sg.to_string();
                        continue;
                    }
                }
                what.push(tok);
            }
            if property == prop && !signature.is_empty() {
                out.push(KnownFinding {
                    status: "known".into(),
                    property,
                    signature,
                    what: what.join(" "),
                });
            }
        }
    }
    out
}

static PANIC_LOG: Mutex<Vec<String>> = Mutex::new(Vec::new());
/// Name prefixes of runtime worker threads whose runtime is being torn down by the harness.
static TEARDOWN_THREADS: Mutex<Vec<String>> = Mutex::new(Vec::new());

/// Marks / unmarks the threads whose name starts with `prefix` as belonging to a runtime that the
/// harness is shutting down: a panic on such a thread is logged with the tag `[teardown]`.
pub fn mark_teardown(prefix: &str, on: bool) {
    let mut g = TEARDOWN_THREADS.lock().unwrap_or_else(|e| e.into_inner());
    if on {
        g.push(prefix.to_string());
    } else {
        g.retain(|p| p != prefix);
    }
}
static PANIC_QUIET: AtomicBool = AtomicBool::new(true);

/// Installs a process-wide panic hook that records every panic (thread, message, location);
/// panics inside library-spawned tasks are thereby visible to the checks.
pub fn install_panic_hook() {
    std::panic::set_hook(Box::new(|info| {
        let thread = std::thread::current();
        let name = thread.name().unwrap_or("?").to_string();
        let msg = if let Some(s) = info.payload().downcast_ref::<&str>() {
            s.to_string()
        } else if let Some(s) = info.payload().downcast_ref::<String>() {
            s.clone()
        } else {
            "<non-string panic>".to_string()
        };
        let loc = info
            .location()
            .map(|l| format!("{}:{}", l.file(), l.line()))
            .unwrap_or_default();
        if !PANIC_QUIET.load(Ordering::Relaxed) || std::env::var_os("VERIF_PANIC_VERBOSE").is_some() {
            eprintln!("panic in thread {name}: {msg} at {loc}");
        }
        let teardown = TEARDOWN_THREADS.lock().unwrap_or_else(|e| e.into_inner()).iter().any(|p| name.starts_with(p.as_str()));
        PANIC_LOG
            .lock()
            .unwrap_or_else(|e| e.into_inner())
            .push(format!("{msg} @ {loc}{}", if teardown { " [teardown]" } else { "" }));
    }));
}

pub fn panic_log_len() -> usize {
    PANIC_LOG.lock().unwrap_or_else(|e| e.into_inner()).len()
}

pub fn panic_log_since(n: usize) -> Vec<String> {
    let g = PANIC_LOG.lock().unwrap_or_else(|e| e.into_inner());
    g[n.min(g.len())..].to_vec()
}

pub fn panic_verbose(v: bool) {
    PANIC_QUIET.store(!v, Ordering::Relaxed);
}

/// Runs `f`, converting a panic into `Err(message @ location)`.
pub fn catch<T>(f: impl FnOnce() -> T) -> Result<T, String> {
    let before = panic_log_len();
    match std::panic::catch_unwind(std::panic::AssertUnwindSafe(f)) {
        Ok(v) => Ok(v),
        Err(_) => {
            let log = panic_log_since(before);
            Err(log.last().cloned().unwrap_or_else(|| "panic".to_string()))
        }
    }
}

pub enum Outcome {
    Pass {
        nontrivial: bool,
        labels: Vec<&'static str>,
    },
    Fail {
        signature: String,
        message: String,
    },
    /// The case could not be judged (resource limit, watchdog without reproduction).
    Inconclusive(String),
}

impl Outcome {
    pub fn pass(nontrivial: bool) -> Self {
        Outcome::Pass {
            nontrivial,
            labels: Vec::new(),
        }
    }
    pub fn pass_l(nontrivial: bool, labels: Vec<&'static str>) -> Self {
        Outcome::Pass { nontrivial, labels }
    }
    pub fn fail(signature: impl Into<String>, message: impl Into<String>) -> Self {
        Outcome::Fail {
            signature: signature.into(),
            message: message.into(),
        }
    }
}

impl Run {
    pub fn new(args: &Args, level: &str) -> Self {
        let seed = std::env::var("VERIF_SEED")
            .ok()
            .and_then(|s| s.trim().parse::<i128>().ok())
            .map(|v| v as u64)
            .unwrap_or(0);
        let evidence_path = args.evidence.clone().unwrap_or_else(|| {
            Path::new(VERIF_ROOT)
                .join("evidence")
                .join(format!("{}.json", args.prop))
        });
        Run {
            engine: args.engine.clone(),
            prop: args.prop.clone(),
            tier: args.tier,
            seed,
            profile: args.profile.clone(),
            mode: match &args.replay {
                Some(p) => Mode::Replay(p.clone()),
                None => Mode::Search,
            },
            evidence_path,
            level: level.to_string(),
            start: Instant::now(),
            evaluations: AtomicU64::new(0),
            bulk_distinct: AtomicU64::new(0),
            distinct: Mutex::new(HashSet::new()),
            labels: Mutex::new(BTreeMap::new()),
            samples: Mutex::new(BTreeMap::new()),
            failures: Mutex::new(Vec::new()),
            known: load_known(&args.prop),
            known_hits: Mutex::new(BTreeMap::new()),
            sections: Mutex::new(BTreeMap::new()),
            inconclusive: Mutex::new(Vec::new()),
            essential: Mutex::new(Vec::new()),
            assumptions: Mutex::new(Vec::new()),
            trusted: Mutex::new(Vec::new()),
            rule: Mutex::new(String::new()),
            extra: Mutex::new(BTreeMap::new()),
        }
    }

    pub fn workers(&self) -> usize {
        std::thread::available_parallelism()
            .map(|n| n.get())
            .unwrap_or(4)
            .min(16)
    }

    /// Derives a 32-byte seed from (VERIF_SEED, property, check, worker).
    pub fn seed_for(&self, check: &str, worker: usize) -> [u8; 32] {
        let mut out = [0u8; 32];
        for k in 0..4u64 {
            let h = hash64(&(self.seed, self.prop.as_str(), check, worker as u64, k));
            out[(k as usize) * 8..(k as usize) * 8 + 8].copy_from_slice(&h.to_le_bytes());
        }
        out
    }

    pub fn rng_for(&self, check: &str, worker: usize) -> TestRng {
        TestRng::from_seed(RngAlgorithm::ChaCha, &self.seed_for(check, worker))
    }

    pub fn set_rule(&self, rule: &str) {
        *self.rule.lock().unwrap() = rule.to_string();
    }
    pub fn assume(&self, a: &str) {
        let mut g = self.assumptions.lock().unwrap();
        if !g.iter().any(|x| x == a) {
            g.push(a.to_string());
        }
    }
    pub fn trust(&self, a: &str) {
        let mut g = self.trusted.lock().unwrap();
        if !g.iter().any(|x| x == a) {
            g.push(a.to_string());
        }
    }
    pub fn extra(&self, key: &str, v: Value) {
        self.extra.lock().unwrap().insert(key.to_string(), v);
    }
    /// Declares a label that must have at least one member at the end of the run
    /// (otherwise the run is a "generator regression": exit 2).
    pub fn essential(&self, label: &str) {
        self.essential.lock().unwrap().push(label.to_string());
    }

    pub fn label(&self, l: &str) {
        *self.labels.lock().unwrap().entry(l.to_string()).or_insert(0) += 1;
    }
    pub fn label_n(&self, l: &str, n: u64) {
        *self.labels.lock().unwrap().entry(l.to_string()).or_insert(0) += n;
    }

    /// Records one evaluated case.
    pub fn eval(&self, check: &str, nontrivial: bool, fingerprint: u64) {
        self.evaluations.fetch_add(1, Ordering::Relaxed);
        let mut newly = false;
        if nontrivial {
            let mut d = self.distinct.lock().unwrap();
            if d.len() < DISTINCT_CAP {
                newly = d.insert(hash64(&(check, fingerprint)));
            }
        }
        let mut s = self.sections.lock().unwrap();
        let e = s.entry(check.to_string()).or_default();
        e.evaluations += 1;
        if newly {
            e.nontrivial += 1;
        }
    }

    /// Records `n` evaluated cases of an enumeration whose members are distinct by
    /// construction; `nontrivial` of them satisfy the non-triviality rule.
    pub fn eval_bulk(&self, check: &str, n: u64, nontrivial: u64) {
        self.evaluations.fetch_add(n, Ordering::Relaxed);
        self.bulk_distinct.fetch_add(nontrivial, Ordering::Relaxed);
        let mut s = self.sections.lock().unwrap();
        let e = s.entry(check.to_string()).or_default();
        e.evaluations += n;
        e.nontrivial += nontrivial;
    }

    pub fn section_exhaustive(&self, check: &str, exhaustive: bool, note: &str) {
        let mut s = self.sections.lock().unwrap();
        let e = s.entry(check.to_string()).or_default();
        e.exhaustive = Some(exhaustive);
        e.note = Some(note.to_string());
    }

    pub fn sample(&self, check: &str, make: impl FnOnce() -> Value) {
        let mut s = self.samples.lock().unwrap();
        let v = s.entry(check.to_string()).or_default();
        if v.len() < SAMPLES_PER_CHECK {
            v.push(make());
        }
    }
    pub fn wants_sample(&self, check: &str) -> bool {
        let s = self.samples.lock().unwrap();
        s.get(check).map(|v| v.len()).unwrap_or(0) < SAMPLES_PER_CHECK
    }

    pub fn is_known(&self, signature: &str) -> bool {
        self.known
            .iter()
            .any(|k| k.status == "known" && k.signature == signature)
    }

    pub fn known_hit(&self, signature: &str) {
        *self
            .known_hits
            .lock()
            .unwrap()
            .entry(signature.to_string())
            .or_insert(0) += 1;
    }

    /// Records a failure. Returns true when it matches a listed known finding
    /// (the caller may continue searching behind it).
    pub fn fail(&self, check: &str, signature: &str, message: &str, case: Value) -> bool {
        if self.is_known(signature) {
            self.known_hit(signature);
            return true;
        }
        let mut f = self.failures.lock().unwrap();
        if !f.iter().any(|x| x.signature == signature) {
            f.push(Failure {
                check: check.to_string(),
                signature: signature.to_string(),
                message: message.to_string(),
                case,
            });
        }
        false
    }

    pub fn failed(&self) -> bool {
        !self.failures.lock().unwrap().is_empty()
    }

    pub fn inconclusive(&self, why: &str) {
        self.inconclusive.lock().unwrap().push(why.to_string());
    }

    /// If in replay mode returns the replay document.
    pub fn replay_doc(&self) -> Option<Value> {
        match &self.mode {
            Mode::Replay(p) => {
                let text = std::fs::read_to_string(p).unwrap_or_else(|e| {
                    eprintln!("cannot read replay file {}: {e}", p.display());
                    std::process::exit(2)
                });
                Some(serde_json::from_str(&text).unwrap_or_else(|e| {
                    eprintln!("cannot parse replay file: {e}");
                    std::process::exit(2)
                }))
            }
            Mode::Search => None,
        }
    }

    /// Regression inputs kept under /verif/regress/<ID>/, replayed first on every run.
    pub fn regress_docs(&self) -> Vec<(PathBuf, Value)> {
        let dir = Path::new(VERIF_ROOT).join("regress").join(&self.prop);
        let mut out = Vec::new();
        if let Ok(rd) = std::fs::read_dir(dir) {
            let mut paths: Vec<_> = rd.filter_map(|e| e.ok()).map(|e| e.path()).collect();
            paths.sort();
            for p in paths {
                if p.extension().map(|e| e == "json").unwrap_or(false) {
                    if let Ok(t) = std::fs::read_to_string(&p) {
                        if let Ok(v) = serde_json::from_str::<Value>(&t) {
                            out.push((p, v));
                        }
                    }
                }
            }
        }
        out
    }

    pub fn wall(&self) -> f64 {
        self.start.elapsed().as_secs_f64()
    }

    /// Writes evidence and replay files, prints the verdict lines, returns the exit code.
    pub fn finish(&self) -> i32 {
        let failures = self.failures.lock().unwrap().clone();
        let mut code = 0;
        let replay_dir = Path::new(VERIF_ROOT).join("replays");
        let _ = std::fs::create_dir_all(&replay_dir);
        let mut replay_paths = Vec::new();
        for f in &failures {
            let doc = json!({
                "property": self.prop,
                "check": f.check,
                "signature": f.signature,
                "message": f.message,
                "profile": self.profile,
                "engine": self.engine,
                "seed": self.seed,
                "case": f.case,
            });
            let text = serde_json::to_string_pretty(&doc).unwrap();
            let name = format!(
                "{}-{}-{:016x}.json",
                self.prop,
                self.seed,
                hash64(&(f.signature.as_str(), text.as_str()))
            );
            let path = match &self.mode {
                Mode::Replay(p) => p.clone(),
                Mode::Search => {
                    let p = replay_dir.join(name);
                    let _ = std::fs::write(&p, text);
                    p
                }
            };
            println!(
                "VIOLATION property={} replay={}",
                self.prop,
                path.display()
            );
            println!("  check={} signature={}", f.check, f.signature);
            println!("  {}", f.message.replace('\n', "\n  "));
            replay_paths.push(path.display().to_string());
            code = 1;
        }
        let hits = self.known_hits.lock().unwrap().clone();
        for k in &self.known {
            if k.status == "known" {
                if let Some(n) = hits.get(&k.signature) {
                    println!(
                        "KNOWN-FINDING: property={} {} (signature {}; {} case(s) hit and excluded)",
                        self.prop, k.what, k.signature, n
                    );
                }
            }
        }
        let inconclusive = self.inconclusive.lock().unwrap().clone();
        let labels = self.labels.lock().unwrap().clone();
        let mut missing = Vec::new();
        if matches!(self.mode, Mode::Search) {
            for l in self.essential.lock().unwrap().iter() {
                if labels.get(l).copied().unwrap_or(0) == 0 {
                    missing.push(l.clone());
                }
            }
        }
        // A few cases that could not be judged (setup failure under load, watchdog that did not
        // reproduce) do not invalidate the rest of the exploration: they are reported in the
        // evidence. Many of them mean the run as a whole is inconclusive.
        let evals = self.evaluations.load(Ordering::Relaxed);
        let tolerated = (evals / 200).clamp(2, 25) as usize;
        let too_many_inconclusive = inconclusive.len() > tolerated;
        if code == 0 && !inconclusive.is_empty() && !too_many_inconclusive {
            println!(
                "note property={} {} case(s) could not be judged and are not counted (tolerated: {}); first: {}",
                self.prop,
                inconclusive.len(),
                tolerated,
                inconclusive[0]
            );
        }
        if code == 0 && (too_many_inconclusive || !missing.is_empty()) {
            for w in inconclusive.iter().take(10) {
                println!("INCONCLUSIVE property={} {}", self.prop, w);
            }
            for m in &missing {
                println!(
                    "INCONCLUSIVE property={} generator regression: essential class '{}' has no member",
                    self.prop, m
                );
            }
            code = 2;
        }

        // evidence
        let distinct = self.distinct.lock().unwrap().len() as u64
            + self.bulk_distinct.load(Ordering::Relaxed);
        let sections = self.sections.lock().unwrap();
        let mut sect = serde_json::Map::new();
        let mut all_exh = !sections.is_empty();
        for (k, v) in sections.iter() {
            let mut o = serde_json::Map::new();
            o.insert("evaluations".into(), json!(v.evaluations));
            o.insert("distinct_nontrivial".into(), json!(v.nontrivial));
            if let Some(e) = v.exhaustive {
                o.insert("exhaustive".into(), json!(e));
                if !e {
                    all_exh = false;
                }
            } else {
                all_exh = false;
            }
            if let Some(n) = &v.note {
                o.insert("note".into(), json!(n));
            }
            sect.insert(k.clone(), Value::Object(o));
        }
        let samples = self.samples.lock().unwrap();
        let mut sample_list = Vec::new();
        for (k, vs) in samples.iter() {
            for v in vs {
                sample_list.push(json!({"check": k, "case": v}));
            }
        }
        let mut coverage = serde_json::Map::new();
        coverage.insert(
            "evaluations".into(),
            json!(self.evaluations.load(Ordering::Relaxed)),
        );
        coverage.insert("distinct_nontrivial".into(), json!(distinct));
        coverage.insert("rule".into(), json!(self.rule.lock().unwrap().clone()));
        coverage.insert("samples".into(), Value::Array(sample_list));
        coverage.insert("exhaustive".into(), json!(all_exh));
        coverage.insert("sub_checks".into(), Value::Object(sect));
        coverage.insert("labels".into(), json!(labels));
        coverage.insert(
            "trusted_base".into(),
            json!(self.trusted.lock().unwrap().clone()),
        );
        coverage.insert("known_findings_excluded".into(), json!(hits));
        coverage.insert("inconclusive".into(), json!(inconclusive));
        coverage.insert(
            "distinct_cap_reached".into(),
            json!(self.distinct.lock().unwrap().len() >= DISTINCT_CAP),
        );
        if !self.profile.is_empty() {
            coverage.insert("profile".into(), json!(self.profile));
        }
        coverage.insert("engine".into(), json!(self.engine));
        if !replay_paths.is_empty() {
            coverage.insert("replays".into(), json!(replay_paths));
        }
        for (k, v) in self.extra.lock().unwrap().iter() {
            coverage.insert(k.clone(), v.clone());
        }
        let doc = json!({
            "property_id": self.prop,
            "tier": self.tier.name(),
            "seed": self.seed as i64,
            "level": self.level,
            "coverage": Value::Object(coverage),
            "assumptions": self.assumptions.lock().unwrap().clone(),
            "wall_s": self.wall(),
            "violations": failures.len(),
        });
        if matches!(self.mode, Mode::Search) {
            if let Some(parent) = self.evidence_path.parent() {
                let _ = std::fs::create_dir_all(parent);
            }
            if let Err(e) = std::fs::write(
                &self.evidence_path,
                serde_json::to_string_pretty(&doc).unwrap(),
            ) {
                eprintln!("cannot write evidence: {e}");
                if code == 0 {
                    code = 2;
                }
            }
        }
        println!(
            "{} {} {}: evaluations={} distinct_nontrivial={} violations={} known_hits={} wall={:.1}s exit={}",
            self.prop,
            self.tier.name(),
            self.profile,
            self.evaluations.load(Ordering::Relaxed),
            distinct,
            failures.len(),
            hits.values().sum::<u64>(),
            self.wall(),
            code
        );
        code
    }
}

/// Configuration of a generated-input search.
pub struct Search {
    pub check: &'static str,
    pub cases: u32,
    pub workers: usize,
    pub max_shrink_iters: u32,
}

/// Wall-clock budget for shrinking one failure (ms); 0 = unlimited. End-to-end checks set it
/// through the environment-independent default below (pure checks shrink in microseconds).
pub const MAX_SHRINK_TIME_MS: u32 = 90_000;

/// Runs a proptest search split over worker threads. `test` must be a pure function of the case
/// (or, for end-to-end checks, schedule-independent by the property's own wording).
pub fn prop_search<S, F, J>(run: &Run, cfg: Search, strategy: impl Fn() -> S + Sync, test: F, to_json: J)
where
    S: Strategy,
    S::Value: Debug + Clone,
    F: Fn(&S::Value) -> Outcome + Sync,
    J: Fn(&S::Value) -> Value + Sync,
{
    let workers = cfg.workers.max(1).min(cfg.cases.max(1) as usize);
    let per = (cfg.cases as usize + workers - 1) / workers;
    let stop = AtomicBool::new(false);
    std::thread::scope(|scope| {
        for w in 0..workers {
            let strategy = &strategy;
            let test = &test;
            let to_json = &to_json;
            let stop = &stop;
            let check = cfg.check;
            let max_shrink_iters = cfg.max_shrink_iters;
            std::thread::Builder::new()
                .name(format!("{}-w{}", check, w))
                .stack_size(16 << 20)
                .spawn_scoped(scope, move || {
                    let config = Config {
                        cases: per as u32,
                        failure_persistence: None,
                        max_shrink_iters,
                        max_shrink_time: MAX_SHRINK_TIME_MS,
                        max_global_rejects: 65536,
                        ..Config::default()
                    };
                    let mut runner = TestRunner::new_with_rng(config, run.rng_for(check, w));
                    let failed = std::cell::Cell::new(false);
                    let last_fail: std::cell::RefCell<Option<(String, String)>> =
                        std::cell::RefCell::new(None);
                    let strat = strategy();
                    let result = runner.run(&strat, |v| {
                        if stop.load(Ordering::Relaxed) && !failed.get() {
                            // another worker already found a violation: finish quickly
                            return Ok(());
                        }
                        match test(&v) {
                            Outcome::Pass { nontrivial, labels } => {
                                if !failed.get() {
                                    let fp = hash64(&format!("{:?}", v));
                                    run.eval(check, nontrivial, fp);
                                    for l in labels {
                                        run.label(l);
                                    }
                                    if nontrivial && run.wants_sample(check) {
                                        run.sample(check, || abbreviate(to_json(&v)));
                                    }
                                }
                                Ok(())
                            }
                            Outcome::Inconclusive(why) => {
                                if !failed.get() {
                                    run.inconclusive(&format!("{check}: {why}"));
                                }
                                Ok(())
                            }
                            Outcome::Fail { signature, message } => {
                                if run.is_known(&signature) {
                                    if !failed.get() {
                                        run.known_hit(&signature);
                                        run.eval(check, false, 0);
                                    }
                                    return Ok(());
                                }
                                if !failed.get() {
                                    run.eval(check, false, 0);
                                }
                                failed.set(true);
                                *last_fail.borrow_mut() = Some((signature.clone(), message));
                                Err(TestCaseError::fail(signature))
                            }
                        }
                    });
                    match result {
                        Ok(()) => {}
                        Err(TestError::Fail(_reason, value)) => {
                            stop.store(true, Ordering::Relaxed);
                            // re-evaluate the minimal case to get its own signature/message
                            let (sig, msg) = match test(&value) {
                                Outcome::Fail { signature, message } => (signature, message),
                                _ => last_fail
                                    .borrow()
                                    .clone()
                                    .unwrap_or(("unknown".into(), "failure did not reproduce on the shrunk case".into())),
                            };
                            run.fail(check, &sig, &msg, to_json(&value));
                        }
                        Err(TestError::Abort(reason)) => {
                            run.inconclusive(&format!("{check}: proptest aborted: {reason}"));
                        }
                    }
                })
                .expect("spawn worker");
        }
    });
}

/// Splits `0..n` into `workers` contiguous ranges and runs `f(worker, range)` on threads.
pub fn par_ranges(workers: usize, n: u64, f: impl Fn(usize, std::ops::Range<u64>) + Sync) {
    let workers = workers.max(1);
    let per = (n + workers as u64 - 1) / workers as u64;
    std::thread::scope(|scope| {
        for w in 0..workers {
            let f = &f;
            let lo = (w as u64 * per).min(n);
            let hi = ((w as u64 + 1) * per).min(n);
            if lo >= hi {
                continue;
            }
            std::thread::Builder::new()
                .name(format!("range-w{w}"))
                .stack_size(16 << 20)
                .spawn_scoped(scope, move || f(w, lo..hi))
                .expect("spawn");
        }
    });
}

/// Shortens long arrays and strings so that evidence samples stay readable.
pub fn abbreviate(v: Value) -> Value {
    match v {
        Value::Array(a) => {
            let n = a.len();
            if n > 40 && a.iter().all(|x| x.is_number()) {
                let mut out: Vec<Value> = a.into_iter().take(32).collect();
                out.push(Value::String(format!("...(+{} more)", n - 32)));
                Value::Array(out)
            } else if n > 24 {
                let mut out: Vec<Value> = a.into_iter().take(16).map(abbreviate).collect();
                out.push(Value::String(format!("...(+{} more)", n - 16)));
                Value::Array(out)
            } else {
                Value::Array(a.into_iter().map(abbreviate).collect())
            }
        }
        Value::Object(o) => Value::Object(o.into_iter().map(|(k, v)| (k, abbreviate(v))).collect()),
        Value::String(s) => {
            if s.chars().count() > 160 {
                let head: String = s.chars().take(120).collect();
                Value::String(format!("{}...(+{} chars)", head, s.chars().count() - 120))
            } else {
                Value::String(s)
            }
        }
        other => other,
    }
}

/// Monotone index mapping (shrinks well): maps a u16 selector onto 0..len.
pub fn pick_idx(sel: u16, len: usize) -> usize {
    if len == 0 {
        0
    } else {
        ((sel as usize) * len) >> 16
    }
}
