#!/usr/bin/env bash
# campaign.sh <ID> <evidence-part.json>
# Bounded, in-process libFuzzer campaigns (several in parallel, seeds derived from VERIF_SEED),
# each on a fresh corpus directory initialised from /verif/fuzz/seeds/<target>.
# exit 0: no oracle failure / crash; 1: VIOLATION printed; 2: inconclusive (build failure ...).
ID=$1; OUT=$2
case "$ID" in
  C11) TARGET=c11_decode ;;
  C13) TARGET=c13_insert ;;
  C14) TARGET=c14_roundtrip ;;
  C15) TARGET=c15_paths ;;
  *) echo "no fuzz target for $ID"; exit 2 ;;
esac
BIN=/verif/harness/target/x86_64-unknown-linux-gnu/release/$TARGET
if ! /verif/fuzz/build.sh >/tmp/fuzz-build-$$.log 2>&1; then
  echo "INCONCLUSIVE property=$ID fuzz build failed"; tail -20 /tmp/fuzz-build-$$.log; rm -f /tmp/fuzz-build-$$.log; exit 2
fi
rm -f /tmp/fuzz-build-$$.log
[ -x "$BIN" ] || { echo "INCONCLUSIVE property=$ID fuzz binary missing"; exit 2; }
JOBS=${VERIF_FUZZ_JOBS:-8}
RUNS=${VERIF_FUZZ_RUNS:-250000}
SEED=${VERIF_SEED:-0}
WORK=/verif/fuzz/corpus/run-$ID-$$
mkdir -p "$WORK" /verif/replays
START=$(date +%s)
pids=()
for j in $(seq 1 "$JOBS"); do
  mkdir -p "$WORK/c$j" "$WORK/a$j"
  S=$(( (SEED * 1000003 + j * 7919 + 1) % 2147483647 )); [ "$S" -eq 0 ] && S=1
  ( cd "$WORK/a$j" && "$BIN" -runs="$RUNS" -seed="$S" -len_control=0 -max_len=8192 -timeout=20 -rss_limit_mb=4096 \
      -print_final_stats=1 -artifact_prefix="$WORK/a$j/" "$WORK/c$j" "/verif/fuzz/seeds/$TARGET" >"$WORK/log$j" 2>&1 ) &
  pids+=($!)
done
RC=0
for p in "${pids[@]}"; do wait "$p" || RC=1; done
END=$(date +%s)
python3 - "$ID" "$TARGET" "$WORK" "$OUT" "$JOBS" "$SEED" "$((END-START))" <<'PY'
import sys, os, glob, json, re, hashlib
pid, target, work, out, jobs, seed, wall = sys.argv[1:8]
execs = 0; new_units = 0; crashes = []
for log in glob.glob(f"{work}/log*"):
    t = open(log, errors="replace").read()
    m = re.search(r"stat::number_of_executed_units:\s*(\d+)", t)
    if m: execs += int(m.group(1))
    m = re.search(r"stat::new_units_added:\s*(\d+)", t)
    if m: new_units += int(m.group(1))
corpus = set()
samples = []
for f in glob.glob(f"{work}/c*/*"):
    b = open(f, "rb").read()
    h = hashlib.sha1(b).hexdigest()
    if h not in corpus:
        corpus.add(h)
        if len(samples) < 4 and len(b) > 2:
            samples.append({"check": f"fuzz:{target}", "case": {"hex": b[:96].hex() + ("..." if len(b) > 96 else "")}})
violations = 0
for art in sorted(glob.glob(f"{work}/a*/crash-*") + glob.glob(f"{work}/a*/timeout-*") + glob.glob(f"{work}/a*/oom-*")):
    b = open(art, "rb").read()
    kind = os.path.basename(art).split("-")[0]
    log = open(os.path.join(work, "log" + os.path.basename(os.path.dirname(art))[1:]), errors="replace").read()
    m = re.search(r"ORACLE ([^:\s]+(?::[^:\s]+)*): (.*)", log)
    sig = m.group(1) if m else f"{pid}:fuzz-{kind}"
    msg = m.group(2)[:600] if m else f"libFuzzer {kind} in target {target}"
    name = f"/verif/replays/{pid}-{seed}-fuzz-{hashlib.sha1(b).hexdigest()[:16]}.json"
    json.dump({"property": pid, "engine": "fuzz", "check": f"fuzz:{target}", "signature": sig, "message": msg,
               "profile": "asan", "seed": int(seed), "case": {"hex": b.hex()}}, open(name, "w"), indent=1)
    print(f"VIOLATION property={pid} replay={name}")
    print(f"  check=fuzz:{target} signature={sig}")
    print(f"  {msg}")
    violations += 1
    if violations >= 3: break
if not samples:
    samples = [{"check": f"fuzz:{target}", "case": {"hex": ""}}]
ev = {"property_id": pid, "tier": "thorough", "seed": int(seed), "level": "exploration",
      "coverage": {"evaluations": execs, "distinct_nontrivial": len(corpus),
                   "rule": f"coverage-guided libFuzzer (ASan, debug assertions on) on target {target}: {jobs} in-process campaigns with seeds derived from VERIF_SEED on fresh corpora initialised from golden encodings; the semantic oracle of the proto-level check runs inside the target; distinct non-trivial = inputs kept in the corpus because they reached new coverage (distinct by content)",
                   "samples": samples, "engine": "fuzz", "profile": "asan",
                   "sub_checks": {f"fuzz:{target}": {"evaluations": execs, "distinct_nontrivial": len(corpus), "new_units_added": new_units}},
                   "labels": {}, "trusted_base": ["libFuzzer / cargo-fuzz", "oracles of /verif/harness/pchecks"], "known_findings_excluded": {}, "inconclusive": []},
      "assumptions": ["libFuzzer campaigns are only approximately reproducible from the seed; the saved input is the reproducible unit"],
      "wall_s": float(wall), "violations": violations}
json.dump(ev, open(out, "w"), indent=1)
print(f"{pid} thorough fuzz:{target}: evaluations={execs} corpus={len(corpus)} violations={violations} wall={wall}s")
sys.exit(1 if violations else 0)
PY
RC2=$?
rm -rf "$WORK"
exit $RC2
