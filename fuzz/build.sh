#!/usr/bin/env bash
# Builds the libFuzzer targets (nightly, ASan) offline. Output: /verif/harness/target/x86_64-unknown-linux-gnu/release/<target>
set -e
export CARGO_NET_OFFLINE=true
cp -n /verif/harness/Cargo.lock /verif/fuzz/Cargo.lock 2>/dev/null || true
cd /verif/harness/pchecks
cargo +nightly fuzz build --fuzz-dir /verif/fuzz
