#![no_main]
use libfuzzer_sys::fuzz_target;

fuzz_target!(|data: &[u8]| {
    if let Err((signature, message)) = pchecks::fuzzglue::c14_roundtrip(data) {
        panic!("ORACLE {signature}: {message}");
    }
});
