#!/usr/bin/env python3
"""Merges /verif/evidence/parts/<ID>.*.json into /verif/evidence/<ID>.json."""
import glob, json, sys, os

pid, tier = sys.argv[1], sys.argv[2]
parts = sorted(glob.glob(f"/verif/evidence/parts/{pid}.*.json"))
if not parts:
    print(f"no evidence parts for {pid}")
    sys.exit(1)
docs = [(os.path.basename(p)[len(pid) + 1:-5], json.load(open(p))) for p in parts]
cov = {"evaluations": 0, "distinct_nontrivial": 0, "rule": "", "samples": [], "sub_checks": {},
       "labels": {}, "trusted_base": [], "known_findings_excluded": {}, "inconclusive": [], "parts": []}
rules, per_engine = [], {}
assumptions, wall, violations, exhaustive = [], 0.0, 0, []
seed, level = 0, "exploration"
for name, d in docs:
    c = d["coverage"]
    engine = c.get("engine", name.split("-")[0])
    cov["evaluations"] += c.get("evaluations", 0)
    # the same inputs run under two build profiles count once
    per_engine[engine] = max(per_engine.get(engine, 0), c.get("distinct_nontrivial", 0))
    if c.get("rule") and c["rule"] not in rules:
        rules.append(c["rule"])
    for s in c.get("samples", []):
        if len([x for x in cov["samples"] if x.get("part", "").split("-")[0] == name.split("-")[0]]) < 9:
            cov["samples"].append(dict(s, part=name))
    for k, v in c.get("sub_checks", {}).items():
        cov["sub_checks"][f"{name}/{k}"] = v
        if "exhaustive" in v:
            exhaustive.append(v["exhaustive"])
    for k, v in c.get("labels", {}).items():
        cov["labels"][f"{name}/{k}"] = v
    for t in c.get("trusted_base", []):
        if t not in cov["trusted_base"]:
            cov["trusted_base"].append(t)
    for k, v in c.get("known_findings_excluded", {}).items():
        cov["known_findings_excluded"][k] = cov["known_findings_excluded"].get(k, 0) + v
    cov["inconclusive"] += c.get("inconclusive", [])
    if c.get("distinct_cap_reached"):
        cov["distinct_cap_reached"] = True
    extra = {k: v for k, v in c.items() if k not in cov and k not in ("profile", "engine", "exhaustive")}
    cov["parts"].append({"part": name, "evaluations": c.get("evaluations", 0),
                         "distinct_nontrivial": c.get("distinct_nontrivial", 0),
                         "wall_s": d.get("wall_s", 0), "violations": d.get("violations", 0), **extra})
    for a in d.get("assumptions", []):
        if a not in assumptions:
            assumptions.append(a)
    wall += d.get("wall_s", 0)
    violations += d.get("violations", 0)
    seed, level = d.get("seed", 0), d.get("level", level)
cov["distinct_nontrivial"] = sum(per_engine.values())
cov["rule"] = " || ".join(rules) + " || distinct_nontrivial counts each engine once (maximum over build profiles), summed over engines" + (" || the distinct-case set is capped at 4 000 000 fingerprints per engine: the reported number is a lower bound" if cov.get("distinct_cap_reached") else "")
cov["exhaustive"] = False
cov["exhaustive_sub_checks"] = sorted(k for k, v in cov["sub_checks"].items() if v.get("exhaustive"))
out = {"property_id": pid, "tier": tier, "seed": seed, "level": level, "coverage": cov,
       "assumptions": assumptions, "wall_s": wall, "violations": violations}
json.dump(out, open(f"/verif/evidence/{pid}.json", "w"), indent=1)
